"""C20 — the host boundary converts faithfully and never exposes dangling host references.

translate  : translate/c20_convs.py -> lean/SteelVerif/C20/GenConvs.lean (integer conversion paths per type,
             argument-index tables of the register_fn macros); exit != 0 = broken tie.
prove      : lake build SteelVerif.C20.Props (+ axiom audit): conversions round-trip / are sound / reject for
             every integer type and for every structured type (from_sound / from_rejects against the relation Rep,
             roundtrip_collapse, into_kernel), the generated wrapper guards for every arity, the hand-written
             wrapper table, no use of a lent reference after its call for every operation sequence incl. host
             functions running in another thread, and `decide` theorems over the generated tables (fail to build
             when `x as T` comes back, an arity disappears, a wrapper reads an argument it did not check for).
correspond : harness `c20` (real IntoSteelVal/FromSteelVal incl. f32, Engine::register_fn, BuiltInModule::register_fn
             incl. a hand-written slice wrapper, a struct registered the way derive(Steel) does, and 64 types
             registered through the REAL #[derive(Steel)] with every #[steel(ignore)] pattern,
             Engine::with_*_reference with copies stashed through 15 duplication paths) against `c20driver`
             (model M) on the same lines.
oracle     : the specification S, evaluated in this file on the REAL outputs: exact integers, in-range
             values round-trip, out-of-range / mistyped values are errors, a host function runs only with
             the declared arity and kinds and receives exactly the converted arguments, a use of a handle
             after its lending call returned is an error, no mutable use while a derived handle is live.
"""
import math
import os
import random
import re
import struct
import subprocess
import sys

from . import common as C

PID = "C20"
META = {
    "ready": True,
    "category": "proof",
    "technique": "Lean 4 proofs over an executable model of the conversion impls (integers by a regenerated path table, f32 / f64 "
                 "on IEEE bit patterns, Option / Result / Vec / pair / HashMap / HashSet / registered struct by structural "
                 "recursion), the register_fn wrappers and the lending nursery incl. host functions running in another thread "
                 "(all values / argument lists / operation sequences, by induction) + decide theorems over tables regenerated "
                 "from primitives.rs, conversions.rs, register_fn.rs (macro invocation lists AND every hand-written wrapper "
                 "closure) and engine.rs + line-by-line correspondence with the real IntoSteelVal/FromSteelVal impls, "
                 "Engine::register_fn, BuiltInModule::register_fn and Engine::with_mut_reference on generated inputs",
    "level_text": "Theorems of SteelVerif/C20/Props.lean over the model of crates/steel-core/src/{primitives,conversions}.rs, "
                  "steel_vm/register_fn.rs and gc.rs unsafe_erased_pointers.  Conversions: for every host integer type with both "
                  "impls from(into x) = x on its whole range, extraction returns exactly the denoted integer and rejects every "
                  "script number outside the range (for any table whose paths are checked; the table regenerated from "
                  "primitives.rs is decided to be such on every run); for EVERY type (Vec, HashMap, HashSet, Option, Result, "
                  "pairs, registered struct, f32/f64, nested arbitrarily) from_sound: `from t v = ok x` only if v represents x "
                  "(relation Rep = the specification), hence from_rejects: a value representing no host value of the declared "
                  "type is an error at any depth; roundtrip_collapse: from(into x) = collapse x with no guard on Options, and "
                  "into_kernel: two host values inject to the same script value iff they differ only in Some(falsy) vs None "
                  "(the exact kernel of the lossy-by-design Option encoding); f32 narrowing as found is unchecked (witness, "
                  "K20h), the checked statement is proved for a checked table.  Registered functions: the generated wrapper "
                  "invokes the host function only after the arity check and the conversion of every argument succeeded and "
                  "passes exactly the converted arguments — for free functions of 1..16 parameters and &SELF / &mut SELF "
                  "methods of 2..16 arguments with the index lists of this run (identity for every arity, 16 included; every "
                  "arity present); every hand-written wrapper closure of register_fn.rs reads exactly the arguments it checked "
                  "for (all of them since 2126c7c9).  derive(Steel): after a successful constructor call the accessor of a "
                  "#[steel(ignore)] position does not exist and the accessor of every other declared position k returns exactly "
                  "the converted k-th constructor argument (derive_getters, for the 'enumerate then skip' numbering that the "
                  "translator reads from all getter loops of steel-derive: decided for the tuple-struct and, since cd8b6a9c, "
                  "the tuple-variant loop; K20i fixed).  Lending: for EVERY "
                  "sequence of lend / copy / drop / use / derive / end-of-call operations AND host functions running on a handle "
                  "in another thread, no use of a lent reference succeeds after its lending call returned provided no call "
                  "returns while another thread is inside a host function on one of its objects (decidable run event; its "
                  "negation is K20f); derived references: for the freeing policy read from engine.rs; no mutable use while a "
                  "directly derived reference is live (unconditional), transitively under the guard that no handle was dropped "
                  "under a live descendant (K20d).  Parts that do not hold as found are stated in full, proved under a decidable "
                  "guard and refuted by a decide witness that is replayed on the real code (known findings).",
    "level_note": "Trusted: Lean kernel (propext, Classical.choice, Quot.sound), translator regexes, harness/driver/diff. "
                  "Model only: persistent map/set insertion is entry-wise (distinct keys), f64 is a bit pattern, `narrow(widen b) = b` "
                  "for f32 is a theorem for normal numbers, zeros and infinities and a per-value decidable guard for subnormals and NaNs, Custom types are one opaque struct against any other, "
                  "a use of a reference is atomic, the only thread operation is 'a host function of another thread runs on a "
                  "handle from pinUse to unpinUse', the per-position conversions of the hand-written wrappers beyond the slice "
                  "shape and RegisterFnBorrowed are covered by the table obligation only.  'Every way a script duplicates a "
                  "reference is a copy of the model' is tied by the generated script family over 15 duplication paths "
                  "(incl. re-entered continuations and values returned from another thread), not proved about the VM.",
}

INTS = {
    "i8": (-2**7, 2**7 - 1), "i16": (-2**15, 2**15 - 1), "i32": (-2**31, 2**31 - 1), "i64": (-2**63, 2**63 - 1),
    "isize": (-2**63, 2**63 - 1), "u8": (0, 2**8 - 1), "u16": (0, 2**16 - 1), "u32": (0, 2**32 - 1),
    "u64": (0, 2**64 - 1), "usize": (0, 2**64 - 1), "u128": (0, 2**128 - 1),
}
FROM_INTS = [t for t in INTS if t != "u128"]
ISIZE = INTS["isize"]
# every way a script can duplicate the value (the driver generates the scripts from the same list): variables,
# closures, persistent and mutable containers, struct fields, nested containers, promises, parameter objects,
# rest-argument lists, a value that travelled through another thread, a frame captured by a continuation
PLACES = ["global", "closure", "list", "vector", "mvector", "hashmap", "box", "struct",
          "nested", "promise", "param", "hashset", "thread", "restargs", "cont"]


def f32_bits(x):
    return struct.unpack(">I", struct.pack(">f", x))[0]


def f64_bits(x):
    return struct.unpack(">Q", struct.pack(">d", x))[0]


def f32_of_bits(b):
    return struct.unpack(">f", struct.pack(">I", b))[0]


def f64_of_bits(b):
    return struct.unpack(">d", struct.pack(">Q", b))[0]


def f32_is_nan(b):
    return (b >> 23) & 0xFF == 0xFF and b & 0x7FFFFF != 0
HARNESS_TYPES = ["i8", "i16", "i32", "i64", "isize", "u8", "u16", "u32", "u64", "usize", "bool", "char", "string",
                 "unit", "f64", "rec", "opt(i32)", "opt(u64)", "opt(bool)", "opt(string)", "opt(unit)",
                 "opt(opt(i32))", "opt(vec(i32))", "vec(i32)", "vec(u8)", "vec(usize)", "vec(string)", "vec(bool)",
                 "vec(vec(i16))", "vec(opt(i32))", "vec(opt(bool))", "pair(i32,string)", "pair(u8,bool)",
                 "pair(vec(i32),opt(u8))", "pair(i32,i32)", "vec(pair(i32,i32))", "opt(pair(i32,i32))",
                 "map(string,pair(i32,i32))", "res(pair(i32,i32),string)", "pair(pair(i32,i32),vec(u8))", "map(string,i32)", "map(i32,vec(u8))", "map(u64,opt(bool))", "set(i32)",
                 "set(string)", "set(u64)", "res(i32,string)", "res(vec(u8),i64)",
                 "f32", "vec(f32)", "opt(f32)", "pair(f32,f64)"]
CALL_SHAPES = ["f:", "f:f32", "f:i8", "f:i16", "f:i32", "f:i64", "f:isize", "f:u8", "f:u16", "f:u32", "f:u64", "f:usize",
               "f:bool", "f:char", "f:string", "f:unit", "f:opt(i32)", "f:opt(bool)", "f:vec(i32)", "f:vec(u8)",
               "f:pair(i32,string)", "f:map(string,i32)", "f:set(i32)", "f:rec", "f:pair(i32,i32)",
               "f:vec(pair(i32,i32))", "f:opt(pair(i32,i32))", "f:res(pair(i32,i32),string)", "f:i32;pair(i32,i32)",
               "m:rec;pair(i32,i32)", "f:i32;string", "f:u8;i64",
               "f:string;bool", "f:opt(i32);vec(u8)", "f:usize;u64", "f:i32;string;bool", "f:u8;u16;u32",
               "f:i64;opt(i32);char", "m:rec", "mm:rec", "m:rec;i32", "mm:rec;u8", "m:rec;i32;string",
               "mm:rec;string;i64"]

# ------------------------------------------------------------------------------------------------
# types and values (python side of the line protocol)


def parse_ty(s):
    s = s.strip()
    m = re.match(r"^(opt|vec|set)\((.*)\)$", s)
    if m:
        return (m.group(1), parse_ty(m.group(2)))
    m = re.match(r"^(pair|map|res)\((.*)\)$", s)
    if m:
        inner = m.group(2)
        depth = 0
        for i, c in enumerate(inner):
            if c == "(":
                depth += 1
            elif c == ")":
                depth -= 1
            elif c == "," and depth == 0:
                return (m.group(1), parse_ty(inner[:i]), parse_ty(inner[i + 1:]))
        raise ValueError(s)
    if s in INTS:
        return ("int", s)
    return (s,)


def hexs(s):
    return s.encode().hex()


def show_hv(ty, x):
    k = ty[0]
    if k == "int":
        return str(x)
    if k == "bool":
        return "t" if x else "f"
    if k == "char":
        return "c%d" % x
    if k == "string":
        return "s" + hexs(x)
    if k == "unit":
        return "u"
    if k == "f64":
        return "b%d" % x
    if k == "f32":
        return "g%d" % x
    if k == "rec":
        return "R%d" % x
    if k == "opt":
        return "n" if x is None else "S(%s)" % show_hv(ty[1], x[0])
    if k == "vec":
        return "[" + ",".join(show_hv(ty[1], e) for e in x) + "]"
    if k == "pair":
        return "(%s,%s)" % (show_hv(ty[1], x[0]), show_hv(ty[2], x[1]))
    if k == "map":
        return "{" + ",".join(sorted("%s=%s" % (show_hv(ty[1], a), show_hv(ty[2], b)) for a, b in x)) + "}"
    if k == "set":
        return "<" + ",".join(sorted(show_hv(ty[1], e) for e in x)) + ">"
    if k == "res":
        return ("O(%s)" % show_hv(ty[1], x[1])) if x[0] == "ok" else ("E(%s)" % show_hv(ty[2], x[1]))
    raise ValueError(ty)


def show_sv(v):
    k = v[0]
    if k in ("int", "big", "lit", "num", "char"):
        return "%s:%d" % (k, v[1])
    if k == "bool":
        return "bool:" + ("t" if v[1] else "f")
    if k in ("str", "sym"):
        return k + ":" + hexs(v[1])
    if k == "void":
        return "void"
    if k in ("list", "vec", "mvec"):
        return k + ":[" + ",".join(show_sv(e) for e in v[1]) + "]"
    if k == "set":
        return "set:{" + ",".join(sorted(show_sv(e) for e in v[1])) + "}"
    if k == "map":
        return "map:{" + ",".join(sorted("%s=%s" % (show_sv(a), show_sv(b)) for a, b in v[1])) + "}"
    if k in ("okv", "errv"):
        return "%s:(%s)" % (k, show_sv(v[1]))
    if k == "custom":
        return "custom:%s:%d" % (v[1], v[2])
    raise ValueError(v)


def canonical(n):
    return ("int", n) if ISIZE[0] <= n <= ISIZE[1] else ("big", n)


def sv_number(v):
    """(n, canonical?) for a script number"""
    if v[0] == "lit":
        return v[1], True
    if v[0] == "int":
        return v[1], True
    if v[0] == "big":
        return v[1], not (ISIZE[0] <= v[1] <= ISIZE[1])
    return None


SKIP = ("skip",)
ERR = ("err",)


def spec_from(ty, v):
    """what the PROPERTY says extraction of script value v at host type ty must give:
    ('ok', host value) | ERR | SKIP (the property does not decide this case)"""
    k = ty[0]
    if k == "int":
        num = sv_number(v)
        if num is None:
            return ERR
        n, canon = num
        lo, hi = INTS[ty[1]]
        if not (lo <= n <= hi):
            return ERR
        return ("ok", n) if canon else SKIP      # a small BigNum cannot come from a script
    if k == "bool":
        return ("ok", v[1]) if v[0] == "bool" else ERR
    if k == "char":
        return ("ok", v[1]) if v[0] == "char" else ERR
    if k == "string":
        if v[0] == "str":
            return ("ok", v[1])
        return SKIP if v[0] == "sym" else ERR
    if k == "unit":
        return ("ok", None) if v[0] == "void" else ERR
    if k == "f64":
        return ("ok", v[1]) if v[0] == "num" else ERR
    if k == "f32":
        # the nearest f32 (precision is lost by design); a FINITE number beyond f32::MAX is out of range
        if v[0] != "num":
            return ERR
        x = f64_of_bits(v[1])
        if math.isnan(x):
            return SKIP                      # NaN payloads are not specified
        if math.isinf(x):
            return ("ok", f32_bits(x))
        try:
            return ("ok", f32_bits(x))
        except OverflowError:
            return ERR
    if k == "rec":
        if v[0] == "custom":
            return ("ok", v[2]) if v[1] == "rec" else ERR
        return ERR
    if k == "opt":
        if v == ("bool", False):
            return ("ok", None)
        r = spec_from(ty[1], v)
        return ("ok", (r[1],)) if r[0] == "ok" else r
    if k == "vec":
        if v[0] == "mvec":
            return SKIP
        if v[0] not in ("list", "vec"):
            return ERR
        out = []
        for e in v[1]:
            r = spec_from(ty[1], e)
            if r[0] != "ok":
                return r
            out.append(r[1])
        return ("ok", out)
    if k == "pair":
        if v[0] != "list" or len(v[1]) != 2:
            return ERR
        a, b = spec_from(ty[1], v[1][0]), spec_from(ty[2], v[1][1])
        for r in (a, b):
            if r[0] != "ok":
                return r
        return ("ok", (a[1], b[1]))
    if k == "map":
        if v[0] != "map":
            return ERR
        out = []
        for a, b in v[1]:
            ra, rb = spec_from(ty[1], a), spec_from(ty[2], b)
            for r in (ra, rb):
                if r[0] != "ok":
                    return r
            out.append((ra[1], rb[1]))
        return ("ok", out)
    if k == "set":
        if v[0] != "set":
            return ERR
        out = []
        for e in v[1]:
            r = spec_from(ty[1], e)
            if r[0] != "ok":
                return r
            out.append(r[1])
        return ("ok", out)
    if k == "res":
        if v[0] == "okv":
            r = spec_from(ty[1], v[1])
            return ("ok", ("ok", r[1])) if r[0] == "ok" else r
        if v[0] == "errv":
            r = spec_from(ty[2], v[1])
            return ("ok", ("err", r[1])) if r[0] == "ok" else r
        return ERR
    return SKIP


def spec_into(ty, x):
    """the script value the documented representation gives for host value x (integers exact)"""
    k = ty[0]
    if k == "int":
        return canonical(x)
    if k == "bool":
        return ("bool", x)
    if k == "char":
        return ("char", x)
    if k == "string":
        return ("str", x)
    if k == "unit":
        return ("void",)
    if k == "f64":
        return ("num", x)
    if k == "f32":
        return ("num", f64_bits(f32_of_bits(x)))     # widening is exact
    if k == "rec":
        return ("custom", "rec", x)
    if k == "opt":
        return ("bool", False) if x is None else spec_into(ty[1], x[0])
    if k == "vec":
        return ("list", [spec_into(ty[1], e) for e in x])
    if k == "pair":
        return ("list", [spec_into(ty[1], x[0]), spec_into(ty[2], x[1])])
    if k == "map":
        return ("map", [(spec_into(ty[1], a), spec_into(ty[2], b)) for a, b in x])
    if k == "set":
        return ("set", [spec_into(ty[1], e) for e in x])
    if k == "res":
        return spec_into(ty[1], x[1]) if x[0] == "ok" else None     # Err(e) is raised
    raise ValueError(ty)


def has_f32(ty):
    return ty[0] == "f32" or any(has_f32(t) for t in ty[1:] if isinstance(t, tuple))


def has_res(ty):
    return ty[0] == "res" or any(has_res(t) for t in ty[1:] if isinstance(t, tuple))


def falsy_payload(ty, x):
    """a Some(..) inside x whose payload converts to #f (Some(false), Some(None))"""
    k = ty[0]
    if k == "opt":
        if x is None:
            return False
        return spec_into(ty[1], x[0]) == ("bool", False) or falsy_payload(ty[1], x[0])
    if k in ("vec", "set"):
        return any(falsy_payload(ty[1], e) for e in x)
    if k == "pair":
        return falsy_payload(ty[1], x[0]) or falsy_payload(ty[2], x[1])
    if k == "map":
        return any(falsy_payload(ty[1], a) or falsy_payload(ty[2], b) for a, b in x)
    return False


def big_usize(ty, x):
    k = ty[0]
    if k == "int":
        return ty[1] == "usize" and x is not None and x > ISIZE[1]
    if k == "opt":
        return x is not None and big_usize(ty[1], x[0])
    if k in ("vec", "set"):
        return any(big_usize(ty[1], e) for e in x)
    if k == "pair":
        return big_usize(ty[1], x[0]) or big_usize(ty[2], x[1])
    if k == "map":
        return any(big_usize(ty[1], a) or big_usize(ty[2], b) for a, b in x)
    return False


# ------------------------------------------------------------------------------------------------
# cases: (line, judge) where judge(real_line) -> None | (kind, class_hint, message)

class Case:
    __slots__ = ("line", "judge", "nontrivial")

    def __init__(self, line, judge, nontrivial=False):
        self.line, self.judge, self.nontrivial = line, judge, nontrivial


def case_into(ty_s, x, via_from=False):
    ty = parse_ty(ty_s)
    line = "%s %s %s" % ("intofrom" if via_from else "into", ty_s, show_hv(ty, x))
    exp = spec_into(ty, x)

    def judge(real):
        if exp is None:
            return None if real.startswith("err:") else ("into", None, "Err(e) must be raised, got " + real)
        want = "ok " + show_sv(exp)
        if real != want:
            cls = "from_option_none_is_true" if (via_from and ty[0] == "opt" and x is None) else None
            return ("into", cls, "expected %s, real %s" % (want, real))
        return None
    return Case(line, judge, ty[0] != "int" or not (ISIZE[0] <= x <= ISIZE[1]))


def case_roundtrip(ty_s, x):
    ty = parse_ty(ty_s)
    line = "roundtrip %s %s" % (ty_s, show_hv(ty, x))

    def judge(real):
        if has_res(ty):
            return None                      # documented asymmetry of Result (unwrap / raise vs (Ok v)/(Err v))
        want = "ok " + show_hv(ty, x)
        if real != want:
            cls = None
            if falsy_payload(ty, x):
                cls = "option_some_falsy_becomes_none"
            elif big_usize(ty, x):
                cls = "usize_above_isize_max_rejected"
            return ("roundtrip", cls, "in-range value must round-trip: expected %s, real %s" % (want, real))
        return None
    return Case(line, judge, True)


def judge_from(ty, v):
    spec = spec_from(ty, v)

    def judge(real):
        if spec == SKIP:
            return None
        if spec == ERR:
            if not real.startswith("err:"):
                cls = "f32_out_of_range_becomes_infinity" if has_f32(ty) and re.search(r"g(2139095040|4286578688)\b", real) else None
                return ("from", cls, "out-of-range or mistyped value must be an error, real " + real)
            return None
        want = "ok " + show_hv(ty, spec[1])
        if real != want:
            cls = "usize_above_isize_max_rejected" if big_usize(ty, spec[1]) else None
            return ("from", cls, "in-range value must be extracted exactly: expected %s, real %s" % (want, real))
        return None
    return judge


def case_from(ty_s, v):
    ty = parse_ty(ty_s)
    return Case("from %s %s" % (ty_s, show_sv(v)), judge_from(ty, v), True)


def case_fromsrc(ty_s, n, src):
    ty = parse_ty(ty_s)
    return Case("fromsrc %s %d %s" % (ty_s, n, src), judge_from(ty, ("lit", n)), True)


def shape_types(shape):
    kind, _, tys = shape.partition(":")
    return kind, [t for t in tys.split(";") if t]


def case_call(shape, args):
    kind, tys = shape_types(shape)
    line = ("call %s %s" % (shape, " ".join(show_sv(a) for a in args))).rstrip()

    def judge(real):
        if len(args) != len(tys):
            if not (real.startswith("err:") and real.endswith("called=no")):
                return ("call", None, "wrong arity must be an error and the function must not run, real " + real)
            return None
        vals = []
        for t, a in zip(tys, args):
            r = spec_from(parse_ty(t), a)
            if r == SKIP:
                return None
            vals.append(r)
        if any(r == ERR for r in vals):
            if not (real.startswith("err:") and real.endswith("called=no")):
                cls = "register_fn_16_args_reads_args14_twice" if len(tys) == 16 else None
                if any(has_f32(parse_ty(t)) for t in tys) and re.search(r"g(2139095040|4286578688)\b", real):
                    cls = "f32_out_of_range_becomes_infinity"
                return ("call", cls, "an argument of an undeclared kind must be an error and the function must not run, real " + real)
            return None
        want = "ok recv=" + ";".join(show_hv(parse_ty(t), r[1]) for t, r in zip(tys, vals))
        if real != want:
            cls = None
            if len(tys) == 16:
                cls = "register_fn_16_args_reads_args14_twice"
            elif any(big_usize(parse_ty(t), r[1]) for t, r in zip(tys, vals)):
                cls = "usize_above_isize_max_rejected"
            return ("call", cls, "the function must receive exactly the converted arguments: expected %s, real %s" % (want, real))
        return None
    return Case(line, judge, True)


# ------------------------------------------------------------------------------------------------
# lending scripts: S evaluated on the real trace

def judge_lending(script, real):
    """returns list of (line index, kind, message) where the REAL trace violates the property"""
    out = []
    frames = []            # stack of call ids
    ended = set()
    call_of = {}           # handle -> root call id
    parent = {}
    copies = {}
    ncall = 0
    running = []           # handles a host function of another thread is running on
    for i, (l, r) in enumerate(zip(script, real)):
        t = l.split()
        if not t:
            continue
        op = t[0]
        ok = r.startswith("ok")
        if op == "threaduse" and r == "ok entered=bool:t":
            running.append(t[1])
        elif op == "threadjoin" and running:
            h = running.pop()
            if ok and call_of.get(h) in ended:
                out.append((i, "inflight", "a host function entered on %s from another thread during the call was still using the "
                            "host object after the call had returned: `%s` -> `%s`" % (h, l, r)))
        if op == "reset":
            frames, ended, call_of, parent, copies, ncall = [], set(), {}, {}, {}, 0
        elif op == "lend" and ok:
            cid = ncall
            ncall += 1
            frames.append(cid)
            for h in r.split()[1:]:
                call_of[h] = cid
                parent[h] = None
                copies[h] = {"c0"}
        elif op == "end" and ok and frames:
            ended.add(frames.pop())
        elif op == "copy" and ok:
            copies.setdefault(t[1], set()).add(r.split()[1])
        elif op == "drop" and ok:
            copies.get(t[1], set()).discard(t[2])
        elif op == "slice":
            # a host function Fn(&mut SELF, &[isize], isize) called with the handle and the given arguments
            h, extra = t[2], [parse_sv_or_none(a) for a in t[4:]]
            verdict = None
            if len(extra) != 2 or None in extra:
                verdict = "err"
            else:
                xs, k = extra
                good_list = xs[0] == "list" and all(spec_from(("int", "isize"), e)[0] == "ok" for e in xs[1])
                good_k = spec_from(("int", "isize"), k)[0] == "ok"
                verdict = "ok" if (good_list and good_k) else "err"
            if r.startswith("panic"):
                out.append((i, "slice", "a call with a wrong number of arguments must be an error, the wrapper panicked: `%s` -> `%s`" % (l, r)))
                continue
            if verdict == "err" and not (r.startswith("err:") and r.endswith("called=no")):
                out.append((i, "slice", "wrong arity / kind must be an error and the function must not run: `%s` -> `%s`" % (l, r)))
            if ok and h in call_of and call_of[h] in ended:
                out.append((i, "stale", "use of %s succeeded after its lending call had returned: `%s` -> `%s`" % (h, l, r)))
            if verdict == "ok" and h in call_of and call_of[h] not in ended and r.startswith("err:arity"):
                out.append((i, "slice", "a call with the declared arity and kinds was rejected as an arity error: `%s` -> `%s`" % (l, r)))
            continue
        elif op in ("get", "getro", "set", "derive"):
            h = t[1]
            if ok and h in call_of:
                if call_of[h] in ended:
                    out.append((i, "stale", "use of %s succeeded after its lending call had returned: `%s` -> `%s`" % (h, l, r)))
                if op != "getro":
                    def desc(d):
                        p = parent.get(d)
                        while p is not None:
                            if p == h:
                                return True
                            p = parent.get(p)
                        return False
                    live = [d for d in copies if copies[d] and d != h and desc(d)]
                    if live:
                        out.append((i, "alias", "mutable use of %s succeeded while %s derived from it is live: `%s` -> `%s`" % (h, live[0], l, r)))
            if op == "derive" and ok:
                nh = r.split()[1]
                call_of[nh] = call_of.get(h)
                parent[nh] = h
                copies[nh] = {"c0"}
        if r.startswith("panic") or r.startswith("bad build"):
            out.append((i, "crash", "`%s` -> `%s`" % (l, r)))
    return out


def parse_sv_or_none(a):
    try:
        return parse_sv(a)
    except (ValueError, IndexError):
        return None


def slice_scripts(rng, n):
    """directed family for the hand-written `Fn(&mut SELF, &[INNER], F)` wrappers (Engine and BuiltInModule): every
    argument count 0..3 x right / wrong kinds, during the call, through a stashed copy, and after the call"""
    lists = ["list:[int:1,int:2]", "list:[]", "list:[int:1,str:61]", "vec:[int:1]", "int:3", "list:[int:9223372036854775807]"]
    ks = ["int:5", "str:61", "big:18446744073709551616", "int:-1"]
    out = []
    for _ in range(n):
        sc = ["reset", "lend rw", "copy h0 c0 %s" % rng.choice(["closure", "list", "cont", "nested"])]
        for variant in ("eng", "mod"):
            for c in ("c0", "c1"):
                argsets = [[], [rng.choice(lists)], [lists[0], ks[0]], [rng.choice(lists), rng.choice(ks)],
                           [lists[0], ks[0], "int:1"]]
                for a in argsets:
                    sc.append(("slice %s h0 %s %s" % (variant, c, " ".join(a))).rstrip())
        sc += ["end", "slice eng h0 c1 %s %s" % (lists[0], ks[0]), "slice mod h0 c1 %s %s" % (lists[0], ks[0]),
               "slice mod h0 c1 %s" % lists[0]]
        out.append(sc)
    return out


def gen_lending(seed, count, maxlen):
    """scripts from the grammar lend / copy to a place / use / derive / drop / end, with uses after the end
    and in a later call, generated by the driver from the model's own state (LCG seeded by VERIF_SEED)"""
    rc, out, err = C.run_bin([C.driver_path("c20driver"), "gen", str(seed), str(count), str(maxlen)], "", timeout=600)
    return [s for s in C.split_on(out.splitlines(), "----") if s]


# ------------------------------------------------------------------------------------------------
def run_real(lines, timeout=120):
    rc, out, err = C.run_bin([C.bin_path("c20")], "\n".join(lines) + "\n", timeout=timeout)
    return rc, out.splitlines()


def run_model(lines, timeout=120, policy=None):
    argv = [C.driver_path("c20driver")] + ([policy] if policy else [])
    rc, out, err = C.run_bin(argv, "\n".join(lines) + "\n", timeout=timeout)
    full = out.splitlines()
    return rc, [l.split(" | ")[0] for l in full], full


class Stats:
    def __init__(self):
        self.evals = 0
        self.distinct = set()
        self.agree = 0
        self.disagree = []
        self.by_kind = {}
        self.classes = {}        # class -> [count, first witness (lines, message)]
        self.unknown = []        # (name, lines, message)
        self.samples = []
        self.outcomes = {}


def record_violation(st, cls, lines, msg, real, model):
    """attribute to a class only if the model (which follows the code) gives the same answer"""
    if cls is not None and real == model:
        c = st.classes.setdefault(cls, [0, None])
        c[0] += 1
        if c[1] is None or len(lines) < len(c[1][0]):
            c[1] = (lines, msg)
    else:
        st.unknown.append((cls, lines, msg + ("" if real == model else " [model says: %s]" % model)))


def run_cases(ctx, st, cases, label):
    """independent one-line cases, in parallel child processes"""
    if not cases:
        return
    nb = max(1, min(C.NCPU, len(cases) // 200 + 1))
    chunks = [cases[i::nb] for i in range(nb)]

    def work(chunk):
        lines = [c.line for c in chunk]
        rrc, real = run_real(lines)
        mrc, model, _ = run_model(lines)
        return chunk, rrc, real, mrc, model
    for chunk, rrc, real, mrc, model in C.pool_map(work, chunks):
        if mrc != 0 or len(model) != len(chunk):
            st.unknown.append(("driver", [c.line for c in chunk[:3]], "model driver failed rc=%d lines=%d/%d" % (mrc, len(model), len(chunk))))
            continue
        if len(real) < len(chunk) or rrc != 0:
            # the harness died: the first line without an answer is the input that killed it
            k = len(real)
            bad = chunk[k].line if k < len(chunk) else "<after last line>"
            st.unknown.append(("crash", [bad], "harness exit code %d on this line (abort / hang of the real code)" % rrc))
            chunk, model = chunk[:k], model[:k]
        for c, r, m in zip(chunk, real, model):
            st.evals += 1
            op = c.line.split()[0]
            st.by_kind[op] = st.by_kind.get(op, 0) + 1
            oc = r.split()[0] if r else "?"
            st.outcomes[oc] = st.outcomes.get(oc, 0) + 1
            if c.nontrivial:
                st.distinct.add(c.line)
            if len(st.samples) < 6 and c.nontrivial and st.evals % 37 == 0:
                st.samples.append({"line": c.line, "real": r, "model": m})
            v = None
            if r.startswith("panic") or r.startswith("bad build"):
                v = ("crash", None, "the real code panicked / could not build the value: " + r)
            elif c.judge is not None:
                v = c.judge(r)
            if v is not None:
                record_violation(st, v[1], [c.line], v[2], r, m)
            if r == m:
                st.agree += 1
            elif v is None:
                st.disagree.append((c.line, r, m))


def run_scripts(ctx, st, scripts, label):
    def work(sc):
        rrc, real = run_real(sc, timeout=180)
        mrc, model, full = run_model(sc)
        return sc, rrc, real, mrc, model, full
    for sc, rrc, real, mrc, model, full in C.pool_map(work, scripts):
        st.evals += len(sc)
        st.by_kind["lending-script"] = st.by_kind.get("lending-script", 0) + 1
        st.distinct.add("\n".join(sc))
        if rrc != 0 or len(real) != len(sc):
            st.unknown.append(("crash", sc[:len(real) + 1], "harness exit code %d after %d of %d lines" % (rrc, len(real), len(sc))))
            continue
        viols = judge_lending(sc, real)
        agree = real == model
        if agree:
            st.agree += len(sc)
        if len(st.samples) < 9 and len(sc) > 12 and viols == [] and agree:
            st.samples.append({"script": sc[:14] + ["..."], "real_tail": real[-3:]})
        for (i, kind, msg) in viols[:1]:
            flags = full[i] if i < len(full) else ""
            cls = None
            if kind == "stale" and "leaked=true" in flags and "stale-root=false" in flags:
                cls = "derived_reference_outlives_lending_call"
            if kind == "alias" and "orphaned=true" in flags:
                cls = "intermediate_drop_releases_ancestor_borrow"
            if any("span=true" in f for f in full[:i + 1]) and "stale-root=true" in flags:
                # the negation of the guard `noSpan` of no_use_after_lend_threads: a call returned while another
                # thread was inside a host function on one of its objects
                cls = "use_in_other_thread_spans_return"
            if kind == "slice" and sc[i].startswith("slice mod"):
                cls = "module_slice_wrapper_arity_off_by_one"
            record_violation(st, cls, sc[:i + 1], msg, real[:i + 1], model[:i + 1])
        if not agree and not viols:
            k = next((j for j, (a, b) in enumerate(zip(real, model)) if a != b), min(len(real), len(model)))
            st.disagree.append(("\n".join(sc[:k + 1]), real[k] if k < len(real) else "<none>", model[k] if k < len(model) else "<none>"))


def shrink_script(lines, still_bad):
    """greedy line removal keeping the verdict"""
    cur = list(lines)
    changed = True
    while changed:
        changed = False
        for i in range(len(cur) - 2, 0, -1):
            cand = cur[:i] + cur[i + 1:]
            if still_bad(cand):
                cur = cand
                changed = True
    return cur


# ------------------------------------------------------------------------------------------------
def boundary_values(rng, extra):
    vals = set()
    for lo, hi in INTS.values():
        vals.update([lo, lo - 1, lo + 1, hi, hi - 1, hi + 1])
    vals.update([-1, 0, 1, 2**31, 2**32, 2**63, 2**64, 2**127, 2**128, 10**40, -2**31, -2**32, -2**63, -2**64,
                 -2**127, -10**40, 255, 256, 65535, 65536])
    for _ in range(extra):
        k = rng.choice([7, 8, 15, 16, 31, 32, 63, 64, 127, 128])
        vals.add(rng.choice([-1, 1]) * (2**k + rng.randrange(-3, 4)))
        vals.add(rng.randrange(-2**70, 2**70))
        vals.add(rng.randrange(-70000, 70000))
    return sorted(vals)


def int_cases(rng, extra):
    cases = []
    vals = boundary_values(rng, extra)
    for t, (lo, hi) in INTS.items():
        for n in vals:
            if lo <= n <= hi:
                cases.append(case_into(t, n))
                if t != "u128":
                    cases.append(case_roundtrip(t, n))
            elif abs(n - lo) <= 1 or abs(n - hi) <= 1:
                cases.append(Case("into %s %d" % (t, n), lambda r: None if r == "bad range" else ("into", None, "out-of-range host literal accepted: " + r)))
            if t != "u128":
                cases.append(case_from(t, ("lit", n)))
                cases.append(case_from(t, ("big", n)))
                if ISIZE[0] <= n <= ISIZE[1]:
                    cases.append(case_from(t, ("int", n)))
    for t in FROM_INTS:
        for n, src in [(2**64, "(expt 2 64)"), (2**63, "(expt 2 63)"), (-2**63, "(- (expt 2 63))"),
                       (2**64 - 1, "(- (expt 2 64) 1)"), (2**32, "(* 65536 65536)"), (2**63, "(+ 9223372036854775807 1)"),
                       (-2**63 - 1, "(- -9223372036854775808 1)"), (2**31, "(expt 2 31)"), (5, "(- (expt 2 64) (- (expt 2 64) 5))"),
                       (2**128, "(expt 2 128)"), (255, "(string-length (make-string 255 #\\a))")]:
            cases.append(case_fromsrc(t, n, src))
        for v in [("str", "5"), ("bool", True), ("void",), ("num", 0x4014000000000000), ("list", [("int", 1)]),
                  ("char", 53), ("sym", "a"), ("custom", "rec", 1)]:
            cases.append(case_from(t, v))
    for t in ("opt(i32)", "opt(bool)", "opt(string)", "opt(u64)"):
        cases.append(case_into(t, None, via_from=True))
    for t, x in (("i32", -5), ("u64", 2**64 - 1), ("usize", 2**64 - 1), ("u128", 2**128 - 1), ("i64", -2**63)):
        cases.append(case_into(t, x, via_from=True))
    return cases


def rand_hv(rng, ty, d=0):
    k = ty[0]
    if k == "int":
        lo, hi = INTS[ty[1]]
        c = rng.random()
        if c < 0.35:
            return rng.choice([lo, hi, lo + 1, hi - 1, 0 if lo <= 0 else lo, min(hi, 1)])
        if c < 0.5:
            return max(lo, min(hi, rng.choice([2**63, 2**63 - 1, 2**31, 2**32 - 1, -2**63, 255, 256])))
        return rng.randrange(max(lo, -1000), min(hi, 1000) + 1)
    if k == "bool":
        return rng.random() < 0.5
    if k == "char":
        return rng.choice([65, 955, 0x10FFFF, 0, 0xD7FF, 0xE000, 32, 10])
    if k == "string":
        return rng.choice(["", "a", "héllo", "λx", "two words", "#f", "a\nb", "\"q\""])
    if k == "unit":
        return None
    if k == "f64":
        return rng.choice([0, 0x3FF0000000000000, 0x7FF8000000000001, 0xFFF0000000000000, 0x8000000000000000, 1, rng.randrange(2**64)])
    if k == "f32":
        # zeros, 1.0, f32::MAX, smallest subnormal / normal, infinities, the canonical quiet NaN, random non-NaN patterns
        b = rng.choice([0, 0x80000000, 0x3F800000, 0x7F7FFFFF, 0xFF7FFFFF, 1, 0x00800000, 0x007FFFFF, 0x7F800000, 0xFF800000,
                        0x7FC00000, rng.randrange(2**32), rng.randrange(2**32)])
        return 0x7FC00000 if f32_is_nan(b) else b
    if k == "rec":
        return rng.choice([0, -1, 2**63 - 1, -2**63, 7])
    if k == "opt":
        return None if rng.random() < 0.3 else (rand_hv(rng, ty[1], d + 1),)
    if k == "vec":
        return [rand_hv(rng, ty[1], d + 1) for _ in range(rng.choice([0, 1, 2, 3, 5]) if d < 2 else rng.choice([0, 1]))]
    if k == "pair":
        return (rand_hv(rng, ty[1], d + 1), rand_hv(rng, ty[2], d + 1))
    if k == "map":
        keys = {}
        for _ in range(rng.choice([0, 1, 2, 4])):
            kx = rand_hv(rng, ty[1], d + 1)
            keys[show_hv(ty[1], kx)] = (kx, rand_hv(rng, ty[2], d + 1))
        return list(keys.values())
    if k == "set":
        keys = {}
        for _ in range(rng.choice([0, 1, 2, 4])):
            kx = rand_hv(rng, ty[1], d + 1)
            keys[show_hv(ty[1], kx)] = kx
        return list(keys.values())
    if k == "res":
        return ("ok", rand_hv(rng, ty[1], d + 1)) if rng.random() < 0.6 else ("err", rand_hv(rng, ty[2], d + 1))
    raise ValueError(ty)


SV_POOL = [("int", 0), ("int", 5), ("int", -1), ("int", 255), ("int", 256), ("int", 2**31), ("lit", 2**63), ("lit", 2**64 - 1), ("lit", 2**64),
           ("big", 5), ("bool", True), ("bool", False), ("str", "a"), ("str", ""), ("sym", "a"), ("char", 65), ("void",),
           ("num", 0x3FF0000000000000), ("list", []), ("list", [("int", 1), ("int", 2)]), ("list", [("int", 1), ("str", "a")]),
           ("vec", [("int", 1), ("int", 255)]), ("mvec", [("int", 1)]), ("list", [("int", 1), ("int", 256)]),
           ("map", [(("str", "a"), ("int", 1))]), ("map", [(("int", 1), ("int", 1))]), ("set", [("int", 1), ("int", 2)]),
           ("set", [("str", "a")]), ("okv", ("int", 5)), ("errv", ("str", "a")), ("custom", "rec", 5), ("custom", "other", 5),
           ("list", [("int", 7), ("str", "b")]), ("list", [("list", [("int", 1)]), ("list", [])]),
           # tuples: too long with a well-typed prefix, too short, the wrong container, nested
           ("list", [("int", 1), ("int", 2), ("int", 3)]), ("list", [("int", 1), ("str", "a"), ("int", 3)]),
           ("list", [("int", 1), ("int", 2), ("int", 3), ("int", 4)]), ("list", [("int", 1)]),
           ("list", [("int", 1), ("bool", True), ("void",)]), ("vec", [("int", 1), ("int", 2)]),
           ("list", [("list", [("int", 1), ("int", 2)]), ("list", [("int", 3), ("int", 4), ("int", 5)])]),
           ("list", [("list", [("int", 1), ("int", 2)]), ("list", [("int", 3), ("int", 4)])]),
           ("list", [("list", [("int", 1), ("int", 2), ("int", 3)]), ("vec", [("int", 7)])]),
           ("list", [("list", [("int", 1), ("int", 2)]), ("vec", [("int", 7)]), ("int", 0)]),
           ("map", [(("str", "a"), ("list", [("int", 1), ("int", 2), ("int", 3)]))]),
           ("map", [(("str", "a"), ("list", [("int", 1), ("int", 2)]))]),
           ("list", [("list", [("str", "a"), ("int", 1)])]), ("set", [("list", [("int", 1), ("int", 2)])]),
           ("okv", ("list", [("int", 1), ("int", 2), ("int", 3)])), ("okv", ("list", [("int", 1), ("int", 2)])),
           ("errv", ("list", [("int", 1), ("int", 2)])), ("okv", ("okv", ("int", 1))),
           ("list", [("bool", False)]), ("vec", []), ("mvec", [])]

# numbers for f32: 1e300, -1e300, f32::MAX, the first number that rounds to +inf, 0.1, the smallest f64 subnormal, a number
# that rounds to the smallest f32 subnormal, infinities, a NaN with a low payload, the largest number that rounds to f32::MAX
F32_POOL = [("num", 0x7E37E43C8800759C), ("num", 0xFE37E43C8800759C), ("num", 0x47EFFFFFE0000000), ("num", 0x47EFFFFFF0000000),
            ("num", 0x3FB999999999999A), ("num", 1), ("num", 0x36A0000000000001), ("num", 0x7FF0000000000000),
            ("num", 0xFFF0000000000000), ("num", 0x7FF0000000000001), ("num", 0x47EFFFFFEFFFFFFF),
            ("list", [("num", 0x3FF8000000000000), ("num", 0x7E37E43C8800759C)])]


def struct_cases(rng, n):
    cases = []
    for ts in HARNESS_TYPES:
        ty = parse_ty(ts)
        for _ in range(n):
            x = rand_hv(rng, ty)
            cases.append(case_roundtrip(ts, x))
            cases.append(case_into(ts, x))
        for v in SV_POOL + (F32_POOL if has_f32(ty) else []):
            cases.append(case_from(ts, v))
    # directed: the Option conflation and the documented Result asymmetry
    cases += [case_roundtrip("opt(bool)", (False,)), case_roundtrip("opt(bool)", (True,)), case_roundtrip("opt(bool)", None),
              case_roundtrip("opt(opt(i32))", (None,)), case_roundtrip("opt(opt(i32))", ((5,),)),
              case_roundtrip("vec(opt(bool))", [(False,), None, (True,)]), case_roundtrip("opt(unit)", (None,)),
              case_roundtrip("map(u64,opt(bool))", [(1, (False,))])]
    return cases


def call_cases(rng, quick):
    cases = []
    good = {"f32": ("num", 0x3FF8000000000000), "i8": ("int", -128), "i16": ("int", 32767), "i32": ("int", 5), "i64": ("lit", 2**63 - 1), "isize": ("int", -9),
            "u8": ("int", 255), "u16": ("int", 65535), "u32": ("int", 2**32 - 1), "u64": ("lit", 2**64 - 1), "usize": ("int", 9),
            "bool": ("bool", False), "char": ("char", 955), "string": ("str", "héllo"), "unit": ("void",),
            "opt(i32)": ("int", 7), "opt(bool)": ("bool", True), "vec(i32)": ("list", [("int", 1), ("int", -2)]),
            "vec(u8)": ("vec", [("int", 0), ("int", 255)]), "pair(i32,string)": ("list", [("int", 7), ("str", "b")]),
            "map(string,i32)": ("map", [(("str", "a"), ("int", 1))]), "set(i32)": ("set", [("int", 1), ("int", 2)]),
            "rec": ("custom", "rec", 5), "pair(i32,i32)": ("list", [("int", 1), ("int", -2)]),
            "vec(pair(i32,i32))": ("list", [("list", [("int", 1), ("int", 2)]), ("list", [("int", 3), ("int", 4)])]),
            "opt(pair(i32,i32))": ("list", [("int", 1), ("int", 2)]),
            "res(pair(i32,i32),string)": ("okv", ("list", [("int", 1), ("int", 2)]))}
    for shape in CALL_SHAPES:
        kind, tys = shape_types(shape)
        n = len(tys)
        right = [good[t] for t in tys]
        # every arity from 0 to n+1 with the right kinds as far as they go
        for k in range(0, n + 2):
            args = (right + [("int", 1)] * 2)[:k]
            cases.append(case_call(shape, args))
        # every position x every value of the pool (all wrong-kind combinations for <= 2, pairwise beyond)
        if n == 1:
            for v in SV_POOL + (F32_POOL if "f32" in shape else []):
                cases.append(case_call(shape, [v]))
        elif n == 2:
            pool = SV_POOL if not quick else SV_POOL[::2] + [right[0], right[1]]
            for a in pool:
                for b in (pool if not quick else rng.sample(pool, 6) + [right[1]]):
                    cases.append(case_call(shape, [a, b]))
        elif n == 3:
            pool = SV_POOL[::3] + right
            for a in pool:
                for b in (pool if not quick else rng.sample(pool, 4) + [right[1]]):
                    for c in (pool if not quick else rng.sample(pool, 2) + [right[2]]):
                        cases.append(case_call(shape, [a, b, c]))
    # every arity of the positional and the method-shaped wrapper macros
    for n in range(2, 17):
        shape = "f:" + ";".join(["isize"] * n)
        cases.append(case_call(shape, [("int", i) for i in range(n)]))
        for pos in range(n):
            args = [("int", i) for i in range(n)]
            args[pos] = ("str", "x")
            cases.append(case_call(shape, args))
    for n in (15, 16):
        shape = "m:rec;" + ";".join(["isize"] * (n - 1))
        cases.append(case_call(shape, [("custom", "rec", 0)] + [("int", i) for i in range(1, n)]))
        for pos in range(1, n):
            args = [("custom", "rec", 0)] + [("int", i) for i in range(1, n)]
            args[pos] = ("bool", True)
            cases.append(case_call(shape, args))
    return cases


STRUCT_FIELDS = ["i32", "string", "vec(u8)", "opt(bool)"]


def case_struct(args):
    """constructor + getters of a struct registered the way #[derive(Steel)] does"""
    line = ("mkstruct " + " ".join(show_sv(a) for a in args)).rstrip()

    def judge(real):
        if len(args) != len(STRUCT_FIELDS):
            return None if real.startswith("err:") else ("struct", None, "wrong number of constructor arguments must be an error, real " + real)
        vals = [spec_from(parse_ty(t), a) for t, a in zip(STRUCT_FIELDS, args)]
        if SKIP in vals:
            return None
        if ERR in vals:
            return None if real.startswith("err:") else ("struct", None, "a field value of an undeclared kind / out of range must be an error, real " + real)
        want = "ok " + show_sv(("list", [spec_into(parse_ty(t), r[1]) for t, r in zip(STRUCT_FIELDS, vals)]))
        if real != want:
            return ("struct", None, "the getters must return the stored field values: expected %s, real %s" % (want, real))
        return None
    return Case(line, judge, True)


def struct_field_cases(rng, n):
    good = [("int", 5), ("str", "héllo"), ("list", [("int", 0), ("int", 255)]), ("bool", True)]
    cases = [case_struct(good), case_struct(good[:3]), case_struct(good + [("int", 1)]), case_struct([])]
    pools = [[("int", -2**31), ("int", 2**31 - 1), ("lit", 2**31), ("big", 5), ("str", "5"), ("num", 0x3FF0000000000000)],
             [("str", ""), ("sym", "a"), ("int", 1), ("char", 65), ("list", [])],
             [("list", []), ("vec", [("int", 7)]), ("list", [("int", 256)]), ("list", [("int", -1)]), ("mvec", [("int", 1)]),
              ("list", [("int", 1), ("str", "a")]), ("str", "ab"), ("map", [(("int", 1), ("int", 1))])],
             [("bool", False), ("bool", True), ("int", 0), ("void",), ("list", [])]]
    for pos in range(4):
        for v in pools[pos]:
            a = list(good)
            a[pos] = v
            cases.append(case_struct(a))
    for _ in range(n):
        cases.append(case_struct([rng.choice(pools[i] + [good[i]]) for i in range(4)]))
    return cases


DERIVE_KINDS = ["T", "N", "V", "W"]      # tuple struct, named struct, tuple enum variant, named enum variant


def case_dstruct(tyname, args):
    """constructor + every accessor of a type registered through the REAL #[derive(Steel)] #[steel(getters, constructors)];
    tyname = <kind><mask>, mask digit k = 1: declared field k carries #[steel(ignore)].
    S: the accessor of declared position k exists iff field k is not ignored, and returns that field."""
    line = ("dstruct %s %s" % (tyname, " ".join(show_sv(a) for a in args))).rstrip()
    mask = tyname[1:]

    def judge(real):
        if len(args) != len(STRUCT_FIELDS):
            return None if real.startswith("err:") else ("dstruct", None, "wrong number of constructor arguments must be an error, real " + real)
        vals = [spec_from(parse_ty(t), a) for t, a in zip(STRUCT_FIELDS, args)]
        if SKIP in vals:
            return None
        if ERR in vals:
            return None if real.startswith("err:") else ("dstruct", None, "a field value of an undeclared kind / out of range must be an error, real " + real)
        want = "ok " + ";".join("%d=%s" % (k, "none" if mask[k] == "1" else show_sv(spec_into(parse_ty(t), r[1])))
                                for k, (t, r) in enumerate(zip(STRUCT_FIELDS, vals)))
        if real != want:
            cls = None
            if tyname[0] == "V" and "1" in mask.rstrip("1"):       # an ignored field in front of another field
                cls = "derive_tuple_variant_getters_numbered_after_filter"
            return ("dstruct", cls, "the accessor of position k must exist iff field k is not #[steel(ignore)] and return field k: "
                    "expected %s, real %s" % (want, real))
        return None
    return Case(line, judge, True)


def dstruct_cases(rng, n):
    good = [("int", 5), ("str", "héllo"), ("list", [("int", 0), ("int", 255)]), ("bool", True)]
    alt = [[("int", -2**31), ("lit", 2**31), ("str", "5")], [("sym", "a"), ("str", ""), ("int", 1)],
           [("vec", [("int", 7)]), ("list", []), ("list", [("int", 256)])], [("bool", False), ("int", 0), ("void",)]]
    cases = []
    # every kind x every ignore pattern (first / middle / last / several / all / none) with right arguments
    for kind in DERIVE_KINDS:
        for m in range(16):
            ty = kind + format(m, "04b")
            cases.append(case_dstruct(ty, good))
    for kind in DERIVE_KINDS:
        for _ in range(n):
            ty = kind + format(rng.randrange(16), "04b")
            a = list(good)
            for pos in range(4):
                if rng.random() < 0.4:
                    a[pos] = rng.choice(alt[pos])
            k = rng.random()
            cases.append(case_dstruct(ty, a[:3] if k < 0.05 else (a + [("int", 1)] if k < 0.1 else a)))
    return cases


def parse_corpus_line(l):
    """a corpus line -> Case with the oracle S attached"""
    t = l.split()
    try:
        if t[0] == "into" or t[0] == "intofrom":
            ty = parse_ty(t[1])
            x = parse_hv(ty, t[2])
            return case_into(t[1], x, via_from=(t[0] == "intofrom"))
        if t[0] == "roundtrip":
            ty = parse_ty(t[1])
            return case_roundtrip(t[1], parse_hv(ty, t[2]))
        if t[0] == "from":
            return case_from(t[1], parse_sv(t[2]))
        if t[0] == "fromsrc":
            return case_fromsrc(t[1], int(t[2]), " ".join(t[3:]))
        if t[0] == "call":
            return case_call(t[1], [parse_sv(a) for a in t[2:]])
        if t[0] == "mkstruct":
            return case_struct([parse_sv(a) for a in t[1:]])
        if t[0] == "dstruct":
            return case_dstruct(t[1], [parse_sv(a) for a in t[2:]])
    except (ValueError, IndexError, KeyError):
        pass
    return Case(l, None)


class _P:
    def __init__(self, s):
        self.s, self.i = s, 0

    def eat(self, c):
        if self.s.startswith(c, self.i):
            self.i += len(c)
            return True
        return False

    def int(self):
        m = re.compile(r"-?\d+").match(self.s, self.i)
        if not m:
            raise ValueError(self.s)
        self.i = m.end()
        return int(m.group())

    def hex(self):
        m = re.compile(r"[0-9a-f]*").match(self.s, self.i)
        self.i = m.end()
        return bytes.fromhex(m.group()).decode()


def parse_hv(ty, s, p=None):
    top = p is None
    p = p or _P(s)
    k = ty[0]
    if k == "int":
        r = p.int()
    elif k == "bool":
        r = True if p.eat("t") else (False if p.eat("f") else None)
    elif k == "char":
        p.eat("c")
        r = p.int()
    elif k == "string":
        p.eat("s")
        r = p.hex()
    elif k == "unit":
        p.eat("u")
        r = None
    elif k == "f64":
        p.eat("b")
        r = p.int()
    elif k == "f32":
        p.eat("g")
        r = p.int()
    elif k == "rec":
        p.eat("R")
        r = p.int()
    elif k == "opt":
        if p.eat("S("):
            r = (parse_hv(ty[1], s, p),)
            p.eat(")")
        else:
            p.eat("n")
            r = None
    elif k in ("vec", "set"):
        o, c = ("[", "]") if k == "vec" else ("<", ">")
        p.eat(o)
        r = []
        while not p.eat(c):
            r.append(parse_hv(ty[1], s, p))
            p.eat(",")
    elif k == "pair":
        p.eat("(")
        a = parse_hv(ty[1], s, p)
        p.eat(",")
        b = parse_hv(ty[2], s, p)
        p.eat(")")
        r = (a, b)
    elif k == "map":
        p.eat("{")
        r = []
        while not p.eat("}"):
            a = parse_hv(ty[1], s, p)
            p.eat("=")
            r.append((a, parse_hv(ty[2], s, p)))
            p.eat(",")
    elif k == "res":
        if p.eat("O("):
            r = ("ok", parse_hv(ty[1], s, p))
        else:
            p.eat("E(")
            r = ("err", parse_hv(ty[2], s, p))
        p.eat(")")
    else:
        raise ValueError(ty)
    if top and p.i != len(s):
        raise ValueError(s)
    return r


def parse_sv(s, p=None):
    top = p is None
    p = p or _P(s)
    for k in ("int", "big", "lit", "num", "char"):
        if p.eat(k + ":"):
            r = (k, p.int())
            break
    else:
        if p.eat("bool:"):
            r = ("bool", p.eat("t") or not p.eat("f"))
        elif p.eat("str:"):
            r = ("str", p.hex())
        elif p.eat("sym:"):
            r = ("sym", p.hex())
        elif p.eat("void"):
            r = ("void",)
        elif p.eat("custom:rec:"):
            r = ("custom", "rec", p.int())
        elif p.eat("custom:other:"):
            r = ("custom", "other", p.int())
        elif p.eat("okv:(") or p.eat("errv:("):
            k = "okv" if s[p.i - 6:p.i].endswith("okv:(") else "errv"
            r = (k, parse_sv(s, p))
            p.eat(")")
        else:
            for k, o, c in (("list", "[", "]"), ("vec", "[", "]"), ("mvec", "[", "]"), ("set", "{", "}")):
                if p.eat(k + ":" + o):
                    items = []
                    while not p.eat(c):
                        items.append(parse_sv(s, p))
                        p.eat(",")
                    r = (k, items)
                    break
            else:
                if p.eat("map:{"):
                    items = []
                    while not p.eat("}"):
                        a = parse_sv(s, p)
                        p.eat("=")
                        items.append((a, parse_sv(s, p)))
                        p.eat(",")
                    r = ("map", items)
                else:
                    raise ValueError(s)
    if top and p.i != len(s):
        raise ValueError(s)
    return r


LEND_OPS = ("lend", "end", "copy", "drop", "get", "getro", "set", "derive", "reset", "threaduse", "threadjoin", "slice")


def load_corpus():
    cdir = os.path.join(C.VERIF, "corpus", PID)
    singles, scripts = [], []
    for fn in sorted(os.listdir(cdir)):
        lines = [l.strip() for l in open(os.path.join(cdir, fn)) if l.strip() and not l.startswith("#")]
        if any(l.split()[0] in LEND_OPS for l in lines):
            scripts.append((fn, (["reset"] if lines[0] != "reset" else []) + lines))
        else:
            singles += [(fn, parse_corpus_line(l)) for l in lines]
    return singles, scripts


FINDING_TEXT = {
    "usize_above_isize_max_rejected":
        "FromSteelVal for usize (try_from_int_impl!) accepts IntV only, IntoSteelVal for usize makes a BigNum above "
        "isize::MAX: usize values in (isize::MAX, usize::MAX] do not round-trip and script integers of that range are rejected",
    "option_some_falsy_becomes_none":
        "Option<T>: None and Some(x) with x converting to #f (Some(false), Some(None)) map to the same script value #f; the round trip returns None",
    "from_option_none_is_true":
        "impl From<Option<T>> for SteelVal maps None to #t (IntoSteelVal maps it to #f); #t does not convert back to None",
    "register_fn_16_args_reads_args14_twice":
        "impl_register_fn!(16 ..) / impl_register_fn_self!(16 ..) list `N: 14`: the 14th parameter is read from args[14], args[13] is never checked or passed",
    "derived_reference_outlives_lending_call":
        "LifetimeGuard::drop frees only `count` nursery entries: with more derived references (MarkerWrapper7/8) than lent objects "
        "the owners of earlier derived pointers stay in the thread-local nursery and a stashed derived reference reads host memory after the call returned",
    "use_in_other_thread_spans_return":
        "a host function running on a lent handle in another thread holds the upgraded (strong) owner pointer: when the lending "
        "call returns meanwhile, free_n drops only the nursery's own strong reference, the function keeps using the host's "
        "object, and stashed copies of the handle upgrade again while it runs",
    "module_slice_wrapper_arity_off_by_one":
        "BuiltInModule::register_fn / register_owned_fn for Fn(&mut SELF, &[INNER], F) check args.len() != 2 but read args[2]: "
        "the declared three-argument call is an arity error, a two-argument call panics inside the wrapper (index out of bounds)",
    "derive_tuple_variant_getters_numbered_after_filter":
        "#[derive(Steel)] getters of a tuple enum variant are numbered after the #[steel(ignore)] fields were filtered out: "
        "with an ignored field in front of another field the accessor E-V-k reads the wrong field (the ignored one is exposed) "
        "and the last field has no accessor",
    "f32_out_of_range_becomes_infinity":
        "FromSteelVal for f32 is `x as f32` (try_from_impl!(NumV => f64, f32)): a finite script number beyond f32::MAX reaches "
        "the host as +inf / -inf instead of a conversion error",
    "intermediate_drop_releases_ancestor_borrow":
        "Drop for BorrowedObject clears the parent's child_borrow_flag although a reference derived from the dropped one is alive: "
        "the lent object is mutably usable while a grandchild reference into it is live",
}


def run(ctx):
    st = Stats()
    rng = random.Random(ctx.seed)
    quick = ctx.quick()
    pending = []           # (name, text) of broken ties without a failing input yet

    # 1. translate
    tr = subprocess.run([sys.executable, os.path.join(C.VERIF, "translate", "c20_convs.py")], stdin=subprocess.DEVNULL,
                        stdout=subprocess.PIPE, stderr=subprocess.PIPE, text=True, timeout=120)
    translator = tr.stdout.strip()
    if tr.returncode != 0:
        pending.append(("C20-translator.txt", "correspondence broken: translator\n" + tr.stderr[-2000:] +
                        "\n(primitives.rs / register_fn.rs no longer have the shape the model was extracted from)\n"))
        ctx.log("translator failed: " + tr.stderr.strip()[-300:])
    # 2. prove
    pr = C.prove(ctx, PID, ["c20driver"])
    if not pr["ok"]:
        # a failing theorem must not leave a stale driver behind: the model has to follow the new tables
        C.lake_build(ctx, ["c20driver"])
    # 3. build
    ok, log = C.build_harness(ctx, ["c20"])
    if not ok:
        ctx.violation("C20-harness-build.txt", "the harness no longer builds against /repo:\n" + log, no_input=True)
        ctx.coverage = {"obligations": pr["obligations"], "discharged": pr["discharged"],
                        "checker_cmd": "lake build SteelVerif.C20.Props", "trusted_base": C.TRUSTED_BASE}
        return ctx.finish()
    if not os.path.exists(C.driver_path("c20driver")):
        ctx.violation("C20-driver-build.txt", pr["log"][-3000:], no_input=True)
        return ctx.finish()

    # 4. corpus first
    singles, scripts = load_corpus()
    run_cases(ctx, st, [c for _, c in singles], "corpus")
    run_scripts(ctx, st, [s for _, s in scripts], "corpus")
    ctx.log("corpus: %d lines, %d lending scripts" % (len(singles), len(scripts)))
    # 5. generated
    cases = int_cases(rng, 8 if quick else 400)
    cases += struct_cases(rng, 6 if quick else 300)
    cases += call_cases(rng, quick)
    cases += struct_field_cases(rng, 30 if quick else 2000)
    cases += dstruct_cases(rng, 10 if quick else 600)
    run_cases(ctx, st, cases, "gen")
    nscripts = 100 if quick else 5000
    gen_scripts = gen_lending(ctx.seed, nscripts, 40 if quick else 80)
    for i in range(0, len(gen_scripts), 400):
        run_scripts(ctx, st, gen_scripts[i:i + 400], "lend%d" % i)
    run_scripts(ctx, st, slice_scripts(rng, 6 if quick else 200), "slice")
    places_seen = {}
    for sc in gen_scripts:
        for l in sc:
            t = l.split()
            if t and t[0] == "copy" and len(t) == 4:
                places_seen[t[3]] = places_seen.get(t[3], 0) + 1
    ctx.log("lines=%d agree=%d disagree=%d classes=%s unknown=%d" % (
        st.evals, st.agree, len(st.disagree), {k: v[0] for k, v in st.classes.items()}, len(st.unknown)))

    # 6. decide
    known = {k.get("class"): k for k in ctx.load_known()}
    for cls, (count, wit) in sorted(st.classes.items()):
        lines, msg = wit
        if any(l.split()[0] in LEND_OPS for l in lines) and len(lines) > 6:
            def still(cand, cls=cls):
                rrc, real = run_real(cand)
                mrc, model, full = run_model(cand)
                if rrc != 0 or len(real) != len(cand) or real != model:
                    return False
                vs = judge_lending(cand, real)
                want = {"derived_reference_outlives_lending_call": "stale", "use_in_other_thread_spans_return": "inflight",
                        "module_slice_wrapper_arity_off_by_one": "slice"}.get(cls, "alias")
                return any(k == want for _, k, _ in vs)
            lines = shrink_script(lines, still)
        body = "# %s\n# %s\n# seen on %d inputs of this run; minimal witness:\n%s\n" % (cls, msg, count, "\n".join(lines))
        if cls in known:
            ctx.known_finding("id=%s class=%s replay=%s (%d inputs)" % (known[cls].get("id", "?"), cls, known[cls].get("replay", "?"), count))
        else:
            ctx.violation("C20-%s.txt" % cls, body + "# " + FINDING_TEXT.get(cls, "") + "\n")
    seen = set()
    for cls, lines, msg in st.unknown:
        key = (cls, msg[:60])
        if key in seen or len(seen) > 10:
            continue
        seen.add(key)
        ctx.violation("C20-violation-%d.txt" % len(seen), "# %s\n%s\n" % (msg, "\n".join(lines)))
    if not pr["ok"]:
        pending.append(("C20-proof-broken.txt", "proof obligations of SteelVerif.C20.Props that no longer check:\n" +
                        "\n".join("%s: %s" % f for f in pr["failed"]) + "\n"))
    if st.disagree:
        l, r, m = st.disagree[0]
        pending.append(("C20-correspondence.txt", "# correspondence SteelVerif.C20.Model <-> real code no longer holds on %d lines; "
                        "the property itself is not violated on them\n%s\n# real : %s\n# model: %s\n" % (len(st.disagree), l, r, m)))
    new_violation = any(not p.endswith(tuple("C20-%s.txt" % c for c in st.classes)) for p, _ in ctx.violations)
    if pending and not new_violation:
        # something in the tie broke but no input violating the property was found by the search above
        name, text = pending[0]
        ctx.violation(name, text + "".join("\n--- also: %s\n%s" % p for p in pending[1:]), no_input=True)
    elif pending:
        ctx.notes += ["broken tie: " + n for n, _ in pending]

    ctx.coverage = {
        "obligations": pr["obligations"],
        "discharged": pr["discharged"],
        "checker_cmd": "cd lean && lake build SteelVerif.C20.Props && lake env lean SteelVerif/C20/Audit.lean",
        "trusted_base": C.TRUSTED_BASE + [
            "translate/c20_convs.py (regex extraction of macro bodies, invocation lists and impl bodies; prints what it extracted below)",
            "the python specification oracle of this file (spec_from / spec_into / judge_lending)",
        ],
        "translator_extracted": translator[:4000],
        "evaluations": st.evals,
        "distinct_nontrivial": len(st.distinct),
        "rule": "lines = corpus + {MIN, MIN+-1, -1, 0, 1, MAX-1, MAX, MAX+1, 2^31, 2^32, 2^63, 2^64, 2^127, 2^128, 10^40, seeded "
                "values near powers of two} x every integer type x {into, from lit/int/big, roundtrip, expressions evaluated "
                "by the engine} + seeded values of every structured type of the harness menu x {into, roundtrip} + a pool of "
                "script values of every kind x every type (from) + every registered signature shape x every arity 0..n+1 x "
                "pool arguments per position (exhaustive for <= 2 parameters) + a struct with four typed fields registered the "
                "way derive(Steel) does x {right arguments, every arity error, every field x wrong kinds / boundary values, seeded "
                "combinations} (constructor then every getter) + the REAL #[derive(Steel)] on {tuple struct, named struct, tuple "
                "enum variant, named enum variant} x all 16 #[steel(ignore)] patterns over four typed fields (none / first / middle / "
                "last / several / all) x {right arguments, seeded wrong kinds / boundary values / arity errors}: constructor, then "
                "the accessor name of every declared position (must exist iff not ignored and return that field) + arities 2..16 of both wrapper macros with a "
                "wrong kind at every position + f32 bit patterns (zeros, subnormals, f32::MAX, infinities, quiet NaN, seeded) and "
                "f64 numbers around the f32 range (1e300, f32::MAX, the rounding boundary to +inf, subnormal boundaries) + seeded "
                "lending scripts from the grammar lend/copy-to-place/drop/get/getro/set/derive/end with uses after the end and "
                "in a later call, every copy drawn from the 15 duplication paths (global, closure, list, vector, mvector, hashmap, "
                "hashset, box, struct, nested, promise, param, restargs, thread, cont) + the slice-wrapper family (Engine / "
                "BuiltInModule x 0..3 arguments x right / wrong kinds x direct / stashed copy x during / after the call); "
                "non-trivial = not a plain in-isize integer injection; distinct = different lines / scripts",
        "by_operation": st.by_kind,
        "duplication_paths_exercised": places_seen,
        "real_outcomes": st.outcomes,
        "lines_agreeing_with_model": st.agree,
        "lines_disagreeing_with_model": len(st.disagree),
        "finding_classes_seen": {k: v[0] for k, v in st.classes.items()},
        "samples": st.samples,
        "axioms": pr.get("axioms", {}),
        "proof_failures": ["%s: %s" % f for f in pr["failed"]],
    }
    ctx.assumptions = ["64-bit target (isize = i64)", "uses of a lent reference are atomic; the only cross-thread use is a host "
                       "function of another thread running on a handle", "map/set insertion of distinct keys is entry-wise",
                       "f32 <-> f64 casts are IEEE-754 round-to-nearest-even with x86-64 NaN quieting"]
    return ctx.finish("proof")


def replay(ctx, path):
    lines = [l.strip() for l in open(path) if l.strip() and not l.startswith("#")]
    C.build_harness(ctx, ["c20"])
    is_script = any(l.split()[0] in LEND_OPS for l in lines)
    if is_script and lines[0] != "reset":
        lines = ["reset"] + lines
    rrc, real = run_real(lines)
    mrc, model, full = run_model(lines)
    print("--- input | real (rc=%d) | model" % rrc)
    for i, l in enumerate(lines):
        print("%-50s | %-28s | %s" % (l, real[i] if i < len(real) else "<none>", full[i] if i < len(full) else "<none>"))
    print("--- specification verdict on the real trace")
    bad = 0
    if is_script:
        for i, kind, msg in judge_lending(lines, real):
            print("VIOLATED (%s) at line %d: %s" % (kind, i + 1, msg))
            bad += 1
    else:
        for l, r in zip(lines, real):
            c = parse_corpus_line(l)
            v = c.judge(r) if c.judge else None
            if v:
                print("VIOLATED (%s): %s -> %s" % (v[0], l, v[2]))
                bad += 1
    if not bad:
        print("property holds on this input")
    return 1 if bad else 0
