"""C13 — syntax-rules macros are hygienic and referentially transparent.

prove      : lake build SteelVerif.C13.Props (+ axiom audit): matcher/instantiator round trip (`match_exact`),
             literal matching, matcher => collector completeness, fuel monotonicity of the expander, the hygiene
             statement for the proved fragment and its negation witnesses (D8) by `decide`.
correspond : (unit) the REAL `SteelMacro` (pattern compilation, match_case, collect_bindings, replace_identifiers,
             re-expansion) on pattern/form pairs vs the model M (exact expansion text) and vs the R7RS
             specification S; (program) generated programs on a real Engine vs M and S (values), every binder
             bound to a distinct tag so that the value shows which binding each identifier resolved to.
oracle     : S (R7RS matching with binding trees + an expander that stamps every template-introduced identifier
             with the expansion step).  real != S is a violation unless the program is outside the guard G
             (class computed by the driver, mirrored here) AND real == M AND the class is an open finding.
"""
import os
import random
import re

from . import common as C

PID = "C13"
META = {
    "ready": True,
    "category": "proof",
    "technique": "Lean 4 model of steel's syntax-rules machinery (pattern compilation, match_list_pattern, collect_bindings, definition-time ## renaming, ReplaceExpressions, Expander) + R7RS/Kohlbecker specification; theorems about matching/instantiation (incl. agreement of steel's matcher and instantiator with the R7RS ones), positive binder-hygiene, scoping and referential-transparency theorems by induction over the model's own functions, the guarded hygiene statement with decided negation witnesses; differential runs real SteelMacro / real Engine vs model vs specification (single programs, multi-evaluation histories on one engine that continue after failing expansions, module chains x multi-unit histories), with the guard G evaluated by the driver on every program; translator obligation bindings_cleared_before_match (translate/c13_clears.py: the three thread-local binding maps are cleared before collect_bindings, as the model assumes)",
    "level_text": "Proved for all patterns / forms / programs (SteelVerif/C13/Props.lean, induction, no bounds): match_exact, match_complete, match_literal, expand_fuel_mono. Positive hygiene: introduced_binders_fresh (every binder position of a stored template is spelled ##..., distinct from every identifier of a macro use); the hypothesis that source identifiers never begin with ## is checked on the REAL reader on every run (generated ## stream; the lemma reader_rejects_double_hash on the C12 lexer model lives in C13/ReaderHash.lean, outside the audited set, so that C13 does not depend on the state of C12's sources); expansion_names (one expansion step only produces identifiers of the use's arguments, non-binder atoms of the stored template, or ##-names; also evaluated on the REAL expansion of every unit case); hygiene_user_binders / hygiene_user_binders_src (the same invariant for whole programs: nested uses, recursion, expansion to fixed point, NO guard); user_forms_not_captured and user_form_meaning_unchanged (the resolution of a user identifier and the canonical form of a user sub-form do not depend on the ##-binders in scope); template_free_ids_resolve_globally (under G.a a template's free identifier resolves to the definition-site global); scoping_under_Gd (when flag d is not raised, every ##-name that occurs in a stored template outside the lexical scope of every binder of its spelling is a mangled pattern variable: template-introduced ##x only occur in the scope of a binder ##x - alignment of the renaming's single unscoped state with lexical scoping, all templates). Agreement with R7RS: match_spec (for EVERY well-formed pattern list - nesting, literals, constants, one ellipsis per list over any sub-pattern, dotted tails - steel's match_list_pattern + collect_bindings succeeding implies the R7RS matcher succeeds with the same bindings, steel's nested lists being the flattening of the binding trees); instantiate_agree / instantiate_spec_partial / instantiate_total (on templates in which every ellipsis follows an identifier, at most one per list, any nesting and improper lists, steel's ReplaceExpressions and the R7RS instantiator agree up to the expander flags; success direction: if steel's succeeds and the variables are used at the depth of their binding trees, the R7RS one succeeds with the specification's fuel). canon_of_related / alpha_of_related (the hygienic-renaming relation FR between what steel's expander and the ideal expander produce - user identifiers equal, ##s related to s%k by the INNERMOST ##s binder in scope so that several template instances of one spelling are covered, flagged free identifiers related to s%k when nothing captures them, lambda and let binders pairwise - implies equal canonical forms, hence alphaEq; what remains for single-level and nested hygiene is to show that the two expansions ARE related). Towards that, for ellipsis-free templates: stored_vs_stamped_template (the stored template of a compiled case is related to the written template stamped with the step number: ##a ~ a for pattern variables, ##s ~ s%k, flagged s ~ s%k), instantiate_stored_vs_stamped_flat (instantiating related templates with agreeing bindings gives related forms: user forms equal up to flags, ##s opposite s%k, same structure) and single_step_flat (both assembled for one expansion step of a case with a flat pattern (_ a1 ... an): the R7RS matcher succeeds and the results are related); the target HygieneSingleLevelFlat is kept as a statement - missing are the passage from that relation to FR (user binding forms well formed, every ##s under its binder in canon's scoping - scoping_under_Gd gives it for lexical scoping of the stored template -, NoCapture from G.a/G.d) and the program-level traversal. G_iff (G = conjunction of the seven negated class predicates K13a,b,c,d,f,g,j); not_hygiene_a..d,j: the full statement is false, one decided witness per violated conjunct (j: a template list with two ellipses - found through the case split of instantiate_agree, replayed on the real engine). STILL NOT proved: hygiene_partial (G prog -> M expansion alpha-equivalent to the ideal expansion S; kept as HygienePartial) and the full InstantiateSpec: missing are the instantiator agreement for sub-templates followed by an ellipsis and the success direction, the correspondence stored template (##-names, flags) vs stamped template together with the canon simulation for one instance (single-level hygiene), and the simulation between the ##-names of several instances and S's per-step stamps under G.b. Inside G the full statement rests on the differential run: real SteelMacro vs model (exact expansion text) and vs R7RS specification on generated pattern/form pairs, real Engine vs model vs specification (values that reveal which binding each identifier resolved to) on generated programs; any real != S inside G is a VIOLATION.",
    "level_note": "Trusted: Lean kernel, harness/driver/comparison, hand-written model (tied to /repo by the unit- and program-level correspondence on every run). The guard that decides is the Lean one (classify, printed by the driver per program); the python mirror is a static over-approximation, checked to contain the driver's class on every program, and is never used to excuse a disagreement. Modules, kernel (defmacro) macros, vectors/strings/quote patterns, set! and syntax-case are not modelled; canonRef (resolution after expansion, incl. the lost `unresolved` flag of the spelling `list`) is a model of compiler/passes/shadow.rs observed on the engine, not translated from it - K13k (findings/C13-K13k.txt: after inlining, the shadow pass skips the template's still-`unresolved` occurrence of a renamed parameter, which then refers to the caller's binder) is the one place where the real engine and this model differ: such programs are attributed to K13k by the class predicate (class a + a define whose parameter is spelled like a template free identifier + a binder of that spelling) AND the observed failure shape (the real value is the model's value with the tag of one such binder for another); a second, narrower attribution by failure shape: where the real engine rejects at compile time (inside procedure bodies) what the model's lazy value function only meets when it is evaluated - a leftover ellipsis token (K13j) or a template identifier renamed to a free ##x (K13a) - the driver reports the static defect of M's own expansion (`staticM`) and the case is attributed only if the class holds, staticM names that defect and the real engine raised an error. The module family `laterbody-*` (K13l, fixed in c3d59a73) must pass as real == S.",
}

FINDING_CLASSES = {
    "a": ("K13a", "use_site_binder_shadows_template_free_identifier"),
    "b": ("K13b", "nested_templates_same_spelling_exchange_identifiers"),
    "c": ("K13c", "literal_shadowed_at_use_site"),
    "d": ("K13d", "template_binder_spelling_also_free_in_same_template"),
    "f": ("K13f", "pattern_variable_under_extra_ellipsis_depth"),
    "g": ("K13g", "macro_defining_macro"),
    "j": ("K13j", "template_list_with_two_ellipses"),
    # module cases only (M does not model modules): class predicate computed from the generated module graph
    "i": ("K13i", "module_macro_refers_to_only_in_or_prefix_in_import"),
    "l": ("K13l", "module_let_later_body_imported_macro_not_expanded"),
}

# ------------------------------------------------------------------------------------------------
# S-expression reader / printer (python mirror of the class predicates works on these trees)

KEYWORDS = {"if", "let", "define", "begin", "lambda", "quote", "set!", "define-syntax", "syntax-rules", "..."}


def tokenize(s):
    return re.findall(r"[()\[\]']|[^\s()\[\]']+", s)


def parse(tokens, i=0):
    t = tokens[i]
    if t in "([":
        out = []
        i += 1
        while tokens[i] not in ")]":
            e, i = parse(tokens, i)
            out.append(e)
        return out, i + 1
    if t == "'":
        e, i = parse(tokens, i + 1)
        return ["quote", e], i
    return t, i + 1


def read_all(s):
    toks = tokenize(s)
    i, out = 0, []
    while i < len(toks):
        e, i = parse(toks, i)
        out.append(e)
    return out


def norm_tree(e):
    """Normalise printed trees so that real and model texts compare: #t/#true, quote forms."""
    if isinstance(e, list):
        return [norm_tree(x) for x in e]
    return {"#t": "#true", "#f": "#false"}.get(e, e)


def same_text(a, b):
    try:
        return norm_tree(read_all(a)) == norm_tree(read_all(b))
    except Exception:
        return a.strip() == b.strip()


def is_id(e):
    return isinstance(e, str) and e not in KEYWORDS and not re.fullmatch(r"-?\d+|#t|#f|#true|#false|\.", e)


def atoms(e):
    if isinstance(e, list):
        for x in e:
            yield from atoms(x)
    else:
        yield e


# ---- python mirror of the guard conjuncts (static over-approximation of the driver's flags) -------

def pattern_vars(pat, lits, top=True):
    out = set()
    items = pat[1:] if top else pat
    for x in items:
        if isinstance(x, list):
            out |= pattern_vars(x, lits, False)
        elif is_id(x) and x not in lits and x != "_":
            out.add(x)
    return out


def template_binders(t, pv):
    """Spellings the definition-time renaming treats as introduced binders (traversal of rename_idents.rs)."""
    out = set()
    if not isinstance(t, list) or not t:
        return out
    h = t[0]
    if h in ("define", "lambda") and len(t) > 1:
        a1 = t[1]
        for x in (a1 if isinstance(a1, list) else [a1]):
            if is_id(x) and x not in pv:
                out.add(x)
        for x in t[2:]:
            out |= template_binders(x, pv)
        return out
    if h == "let" and len(t) > 1:
        a1 = t[1]
        pairs = a1 if isinstance(a1, list) else (t[2] if len(t) > 2 and isinstance(t[2], list) else [])
        if not isinstance(a1, list) and is_id(a1) and a1 not in pv:
            out.add(a1)
        for p in pairs:
            if isinstance(p, list) and p:
                if is_id(p[0]) and p[0] not in pv:
                    out.add(p[0])
                if len(p) > 1:
                    out |= template_binders(p[1], pv)
        for x in t[2:]:
            out |= template_binders(x, pv)
        return out
    for x in t:
        out |= template_binders(x, pv)
    return out


def binder_position_vars(t, pv):
    out = set()
    if not isinstance(t, list) or not t:
        return out
    h = t[0]
    if h in ("define", "lambda") and len(t) > 1:
        a1 = t[1]
        for x in (a1 if isinstance(a1, list) else [a1]):
            if x in pv:
                out.add(x)
    if h == "let" and len(t) > 1 and isinstance(t[1], list):
        for p in t[1]:
            if isinstance(p, list) and p and p[0] in pv:
                out.add(p[0])
    for x in t:
        out |= binder_position_vars(x, pv)
    return out


def free_occ(t, bound):
    """identifiers occurring outside the scope of every template binder of that spelling"""
    if not isinstance(t, list):
        return {t} if is_id(t) and t not in bound else set()
    if not t:
        return set()
    h = t[0]
    if h == "lambda" and len(t) > 1:
        ps = {x for x in (t[1] if isinstance(t[1], list) else [t[1]]) if is_id(x)}
        return set().union(*[free_occ(x, bound | ps) for x in t[2:]] or [set()])
    if h == "let" and len(t) > 1 and isinstance(t[1], list):
        bs = {p[0] for p in t[1] if isinstance(p, list) and p and is_id(p[0])}
        out = set()
        for p in t[1]:
            if isinstance(p, list) and len(p) > 1:
                out |= free_occ(p[1], bound)
        for x in t[2:]:
            out |= free_occ(x, bound | bs)
        return out
    if h == "let" and len(t) > 2 and is_id(t[1]) and isinstance(t[2], list):
        bs = {p[0] for p in t[2] if isinstance(p, list) and p and is_id(p[0])} | {t[1]}
        out = set()
        for p in t[2]:
            if isinstance(p, list) and len(p) > 1:
                out |= free_occ(p[1], bound)
        for x in t[3:]:
            out |= free_occ(x, bound | bs)
        return out
    if h == "define" and len(t) > 1:
        if isinstance(t[1], list):
            ps = {x for x in t[1] if is_id(x)}
            return set().union(*[free_occ(x, bound | ps) for x in t[2:]] or [set()])
        return set().union(*[free_occ(x, bound | {t[1]}) for x in t[2:]] or [set()])
    out = set()
    for x in t:
        out |= free_occ(x, bound)
    return out


def ell_depths(t, d, acc):
    """occurrences of identifiers with the number of ellipses they are under"""
    if not isinstance(t, list):
        if is_id(t):
            acc.append((t, d))
        return
    i = 0
    while i < len(t):
        if i + 1 < len(t) and t[i + 1] == "...":
            ell_depths(t[i], d + 1, acc)
            i += 2
        else:
            ell_depths(t[i], d, acc)
            i += 1


def pat_depths(p, d, acc, lits):
    if not isinstance(p, list):
        if is_id(p) and p not in lits:
            acc[p] = d
        return
    i = 0
    while i < len(p):
        if p[i] == ".":
            i += 1
            continue
        if i + 1 < len(p) and p[i + 1] == "...":
            pat_depths(p[i], d + 1, acc, lits)
            i += 2
        else:
            pat_depths(p[i], d, acc, lits)
            i += 1


def pat_ell_rest(p):
    if not isinstance(p, list):
        return False
    if "..." in p and "." in p:
        return True
    return any(pat_ell_rest(x) for x in p)


def two_ell(t):
    """some list of the template contains two ellipsis tokens"""
    if not isinstance(t, list):
        return False
    return sum(1 for x in t if x == "...") >= 2 or any(two_ell(x) for x in t)


def user_binders(e, out):
    if not isinstance(e, list) or not e:
        return
    h = e[0]
    if h == "lambda" and len(e) > 1:
        for x in (e[1] if isinstance(e[1], list) else [e[1]]):
            if is_id(x):
                out.add(x)
    if h == "let" and len(e) > 1 and isinstance(e[1], list):
        for p in e[1]:
            if isinstance(p, list) and p and is_id(p[0]):
                out.add(p[0])
    if h == "define" and len(e) > 1 and isinstance(e[1], list):
        for x in e[1][1:]:
            if is_id(x):
                out.add(x)
    if h == "quote":
        return
    for x in e:
        user_binders(x, out)


def mirror_flags(text):
    """Static over-approximation of the driver's class flags for a program text."""
    try:
        forms = read_all(text.replace(" ;;;--- ", " "))
    except Exception:
        return set("abcdfgj")
    macros = {}
    body = []
    for f in forms:
        if isinstance(f, list) and f and f[0] == "define-syntax" and len(f) == 3 and isinstance(f[2], list):
            sr = f[2]
            lits = set(x for x in sr[1] if isinstance(x, str)) if len(sr) > 1 and isinstance(sr[1], list) else set()
            cases = [c for c in sr[2:] if isinstance(c, list) and len(c) == 2]
            macros[f[1]] = (lits, cases)
        else:
            body.append(f)
    flags = set()
    all_lits = set().union(*[m[0] for m in macros.values()]) if macros else set()
    ub = set()
    for f in body:
        user_binders(f, ub)
    # identifiers that macros can put in binder position (my-let style) make any argument a potential binder
    info = {}
    for name, (lits, cases) in macros.items():
        for (pat, tmpl) in cases:
            pv = pattern_vars(pat, lits | {name}) if isinstance(pat, list) else set()
            intro = template_binders(tmpl, pv)
            ids_t = {x for x in atoms(tmpl) if is_id(x)}
            free = ids_t - pv - lits
            info.setdefault(name, []).append((pv, intro, free, tmpl, pat, lits))
    any_binder_pv = any(binder_position_vars(t, pv) for cs in info.values() for (pv, _, _, t, _, _) in cs)
    for name, cs in info.items():
        for (pv, intro, free, tmpl, pat, lits) in cs:
            fo = free_occ(tmpl, set())
            cand = set(ub)
            if any_binder_pv:
                for f in body:
                    cand |= {x for x in atoms(f) if is_id(x)}
                for cs2 in info.values():
                    for (_, _, free2, _, _, _) in cs2:
                        cand |= free2
            if (free - intro | (fo & free)) & cand - all_lits:
                flags.add("a")
            if free & cand & all_lits:
                flags.add("c")
            if intro & fo:
                flags.add("d")
            pd = {}
            pat_depths(pat[1:] if isinstance(pat, list) else pat, 0, pd, lits | {name})
            occ = []
            ell_depths(tmpl, 0, occ)
            if any(x in pd and pd[x] != d for (x, d) in occ):
                flags.add("f")
            if "define-syntax" in list(atoms(tmpl)):
                flags.add("g")
            if two_ell(tmpl):
                flags.add("j")
            # b: the template uses another macro (or itself) …
            used = {x for x in atoms(tmpl) if x in macros}
            for u in used:
                for (pv2, intro2, free2, tmpl2, _, _) in info.get(u, []):
                    if intro & intro2 or intro & pv2 or binder_position_vars(tmpl2, pv2):
                        flags.add("b")
    # a use-site binder (let / lambda / define parameter) spelled like a literal of some macro
    if ub & all_lits:
        flags.add("c")
    # user code written with ## names can collide with anything
    if any(isinstance(x, str) and x.startswith("##") for f in forms for x in atoms(f)):
        flags.add("b")
    return flags


# ------------------------------------------------------------------------------------------------
# generators

TAGS = iter(range(100, 10 ** 9))


class Gen:
    def __init__(self, rng, max_macros, max_depth, thorough):
        self.rng = rng
        self.max_macros = max_macros
        self.max_depth = max_depth
        self.thorough = thorough
        self.tag = 100

    def fresh(self):
        self.tag += 1
        return self.tag

    BINDER_POOL = ["tmp", "t", "x", "v"]
    FREE_POOL = ["list", "g1", "g2"]
    USER_POOL = ["u1", "u2", "u3"]

    def make_macros(self, stream):
        """returns (definitions text list, macro table name -> dict(arity, kind, …), global definitions)"""
        rng = self.rng
        n = rng.randint(1, self.max_macros)
        macros, defs = {}, []
        globs = ["(define (g1 . args) (cons 'g1 args))", "(define (g2 . args) (cons 'g2 args))"]
        kinds = ["or2", "wrap", "lam", "rec", "ell2", "lit", "dot", "wild", "wildell"]
        if stream in ("b", "mixed"):
            kinds += ["nest", "nest", "mylet"]
        if stream in ("c", "mixed"):
            kinds += ["litpass"]
        if self.max_depth >= 3:
            kinds += ["ell3"]
        if getattr(self, "enable_twoell", False):
            kinds += ["twoell"]
        for i in range(n):
            name = "m%d" % i
            kind = rng.choice(kinds)
            T = rng.choice(self.BINDER_POOL)
            F = rng.choice(self.FREE_POOL)
            if stream == "main":
                # distinct spellings everywhere, nothing a use site can shadow
                T = "%s_%d" % (T, i)
            if kind == "or2":
                defs.append("(define-syntax %s (syntax-rules () [(_ a b) (let ((%s a)) (if %s %s b))]))" % (name, T, T, T))
                macros[name] = dict(arity=2, kind=kind, binder=T)
            elif kind == "wrap":
                defs.append("(define-syntax %s (syntax-rules () [(_ a ...) (%s a ...)]))" % (name, F))
                macros[name] = dict(arity=rng.randint(1, 3), kind=kind, free=F)
            elif kind == "lam":
                defs.append("(define-syntax %s (syntax-rules () [(_ a b) ((lambda (%s) (%s %s b)) a)]))" % (name, T, F, T))
                macros[name] = dict(arity=2, kind=kind, binder=T)
            elif kind == "rec":
                defs.append("(define-syntax %s (syntax-rules () [(_) #f] [(_ a) a] [(_ a b ...) (let ((%s a)) (if %s %s (%s b ...)))]))" % (name, T, T, T, name))
                macros[name] = dict(arity=rng.randint(0, 3), kind=kind, binder=T)
            elif kind == "ell2":
                defs.append("(define-syntax %s (syntax-rules () [(_ (k v ...) ...) (list (list k (list v ...)) ...)]))" % name)
                macros[name] = dict(arity=-2, kind=kind)
            elif kind == "ell3":
                defs.append("(define-syntax %s (syntax-rules () [(_ (k (w v ...) ...) ...) (list (list k (list w (list v ...)) ...) ...)]))" % name)
                macros[name] = dict(arity=-3, kind=kind)
            elif kind == "twoell":
                # two (or three) ellipses in ONE list of the template, with and without forms between them
                mid = rng.choice(["", "0 ", "(%s a ...) " % F])
                third = rng.choice(["", " a ..."])
                defs.append("(define-syntax %s (syntax-rules () [(_ (a ...) (b ...)) (%s a ... %sb ...%s)]))" % (name, F, mid, third))
                macros[name] = dict(arity=-5, kind=kind)
            elif kind == "lit":
                L = rng.choice(["then", "=>", "else"])
                defs.append("(define-syntax %s (syntax-rules (%s) [(_ c %s a) (if c a 'no)] [(_ c x a) 'nolit]))" % (name, L, L))
                macros[name] = dict(arity=3, kind=kind, lit=L)
            elif kind == "dot":
                if stream in ("e", "mixed") and rng.random() < 0.6:
                    defs.append("(define-syntax %s (syntax-rules () [(_ a b ... . r) (list a (list b ...) (quote r))]))" % name)
                    macros[name] = dict(arity=rng.randint(1, 3), kind="dotell")
                else:
                    defs.append("(define-syntax %s (syntax-rules () [(_ a . r) (list a (quote r))]))" % name)
                    macros[name] = dict(arity=rng.randint(1, 3), kind=kind)
            elif kind == "wild":
                # `_` in non-head pattern positions; `_` in the template: quoted, as a lambda binder, handed on
                defs.append("(define-syntax %s (syntax-rules () [(_ _ x _) (list x '_ ((lambda (_) '(_)) 0))]))" % name)
                macros[name] = dict(arity=3, kind=kind)
            elif kind == "wildell":
                defs.append("(define-syntax %s (syntax-rules () [(_ (_ k) ... . _) (list (quote (k ... _)) (%s '_ k ...))]))" % (name, F))
                macros[name] = dict(arity=-4, kind=kind)
            elif kind == "nest":
                inner = [k for k, v in macros.items() if v["kind"] in ("or2", "lam")]
                if not inner:
                    defs.append("(define-syntax %s (syntax-rules () [(_ a b) (let ((%s a)) (if %s %s b))]))" % (name, T, T, T))
                    macros[name] = dict(arity=2, kind="or2", binder=T)
                else:
                    inn = rng.choice(inner)
                    defs.append("(define-syntax %s (syntax-rules () [(_ a) (let ((%s %d)) (%s a %s))]))" % (name, T, self.fresh(), inn, T))
                    macros[name] = dict(arity=1, kind=kind, binder=T)
            elif kind == "mylet":
                defs.append("(define-syntax %s (syntax-rules () [(_ x v body) (let ((x v)) body)]))" % name)
                macros[name] = dict(arity=3, kind=kind)
                name2 = name + "o"
                defs.append("(define-syntax %s (syntax-rules () [(_ a b) (%s %s a (if %s %s b))]))" % (name2, name, T, T, T))
                macros[name2] = dict(arity=2, kind="or2", binder=T)
            elif kind == "litpass":
                lits = [k for k, v in macros.items() if v["kind"] == "lit"]
                if not lits:
                    L = "then"
                    defs.append("(define-syntax %s (syntax-rules (%s) [(_ c %s a) (if c a 'no)] [(_ c x a) 'nolit]))" % (name, L, L))
                    macros[name] = dict(arity=3, kind="lit", lit=L)
                else:
                    lm = rng.choice(lits)
                    defs.append("(define-syntax %s (syntax-rules () [(_ c) (%s c %s %d)]))" % (name, lm, macros[lm]["lit"], self.fresh()))
                    macros[name] = dict(arity=1, kind=kind, lit=macros[lm]["lit"])
        return defs, macros, globs

    def expr(self, macros, scope, depth):
        rng = self.rng
        r = rng.random()
        if depth <= 0 or r < 0.25:
            if scope and rng.random() < 0.6:
                return rng.choice(scope)
            return str(self.fresh()) if rng.random() < 0.8 else "#f"
        name = rng.choice(list(macros))
        return self.use(name, macros, scope, depth)

    def use(self, name, macros, scope, depth):
        rng = self.rng
        m = macros[name]
        k = m["kind"]
        if k == "ell2":
            groups = []
            for _ in range(rng.randint(0, 3)):
                groups.append("(%s %s)" % (self.expr(macros, scope, 0), " ".join(self.expr(macros, scope, depth - 1) for _ in range(rng.randint(0, 3)))))
            return "(%s %s)" % (name, " ".join(groups))
        if k == "ell3":
            groups = []
            for _ in range(rng.randint(0, 2)):
                inner = []
                for _ in range(rng.randint(0, 2)):
                    inner.append("(%s %s)" % (self.expr(macros, scope, 0), " ".join(self.expr(macros, scope, 0) for _ in range(rng.randint(0, 2)))))
                groups.append("(%s %s)" % (self.expr(macros, scope, 0), " ".join(inner)))
            return "(%s %s)" % (name, " ".join(groups))
        if k == "twoell":
            g1 = " ".join(self.expr(macros, scope, depth - 1) for _ in range(rng.randint(0, 3)))
            g2 = " ".join(self.expr(macros, scope, depth - 1) for _ in range(rng.randint(0, 3)))
            return "(%s (%s) (%s))" % (name, g1, g2)
        if k == "wildell":
            groups = ["(%s %s)" % (self.expr(macros, scope, 0), self.expr(macros, scope, depth - 1)) for _ in range(rng.randint(0, 3))]
            return "(%s %s)" % (name, " ".join(groups))
        if k == "lit":
            mid = m["lit"] if rng.random() < 0.6 else self.expr(macros, scope, 0)
            return "(%s %s %s %s)" % (name, rng.choice(["#t", "#f", str(self.fresh())]), mid, self.expr(macros, scope, depth - 1))
        if k == "litpass":
            return "(%s %s)" % (name, rng.choice(["#t", "#f", str(self.fresh())]))
        if k == "mylet":
            v = rng.choice(self.USER_POOL + self.BINDER_POOL)
            return "(%s %s %s %s)" % (name, v, self.expr(macros, scope, depth - 1), self.expr(macros, scope + [v], depth - 1))
        if k in ("dot", "dotell"):
            args = [self.expr(macros, scope, depth - 1) for _ in range(m["arity"])]
            return "(%s %s)" % (name, " ".join(args))
        args = [self.expr(macros, scope, depth - 1) for _ in range(m["arity"])]
        if k in ("or2", "rec") and args and rng.random() < 0.5:
            args[0] = "#f"
        return "(%s %s)" % (name, " ".join(args)) if args else "(%s)" % name

    def wrapped(self, macros, stream, scope):
        """a use under local scopes that do / do not shadow template identifiers"""
        rng = self.rng
        pool = list(self.USER_POOL)
        if stream != "main":
            pool += self.BINDER_POOL                     # user variables spelled like template binders (legal, must work)
        if stream in ("a", "mixed"):
            pool += self.FREE_POOL                       # … like template free identifiers (K13a)
        if stream in ("c", "mixed"):
            pool += ["then", "=>", "else"]
        r = rng.random()
        if r < 0.25:
            return self.expr(macros, scope, 2)
        v = rng.choice(pool)
        val = str(self.fresh())
        if v in self.FREE_POOL:
            val = "(lambda args (cons %s args))" % self.fresh()
        inner = scope + ([v] if v not in self.FREE_POOL else [])
        if r < 0.55:
            return "(let ((%s %s)) %s)" % (v, val, self.wrapped(macros, stream, inner) if rng.random() < 0.3 else self.expr(macros, inner, 2))
        if r < 0.8:
            return "((lambda (%s) %s) %s)" % (v, self.expr(macros, inner, 2), val)
        f = "f%d" % self.fresh()
        self.pending_defs.append("(define (%s %s) %s)" % (f, v, self.expr(macros, [v] if v not in self.FREE_POOL else [], 2)))
        return "(%s %s)" % (f, val)

    def program(self, stream):
        self.pending_defs = []
        defs, macros, globs = self.make_macros(stream)
        uses = [self.wrapped(macros, stream, []) for _ in range(self.rng.randint(1, 3))]
        return " ".join(defs + globs + self.pending_defs + ["(list %s)" % " ".join(uses)])


# ---- unit level: pattern / form pairs -----------------------------------------------------------

class UnitGen:
    def __init__(self, rng, max_depth):
        self.rng = rng
        self.max_depth = max_depth
        self.n = 0

    def var(self):
        self.n += 1
        return "p%d" % self.n

    def pattern(self, depth, ell_budget, allow_dot=True):
        """returns a pattern list (python tree with '...' and '.' markers), vars with depth"""
        rng = self.rng
        items, used_ell = [], False
        for _ in range(rng.randint(0, 3)):
            r = rng.random()
            if r < 0.12:
                items.append("_")                      # wildcard: matches anything, binds nothing
            elif r < 0.5 or depth <= 0:
                items.append(self.var())
            elif r < 0.6:
                items.append(rng.choice(["1", "#t", "kw"]))
            else:
                items.append(self.pattern(depth - 1, ell_budget - 1, allow_dot))
            if not used_ell and ell_budget > 0 and rng.random() < 0.4 and items[-1] not in ("1", "#t", "kw"):
                items.append("...")
                used_ell = True
        if allow_dot and items and items[-1] != "..." and rng.random() < 0.2:
            items = items[:-1] + [".", items[-1]] if len(items) > 1 and items[-2] != "..." or len(items) == 1 else items
            if items[0] == ".":
                items = items[1:]
        return items

    def show(self, p):
        if isinstance(p, list):
            return "(" + " ".join(self.show(x) for x in p) + ")"
        return p

    def datum(self, d):
        rng = self.rng
        r = rng.random()
        if d <= 0 or r < 0.6:
            return rng.choice([str(rng.randint(0, 99)), "x%d" % rng.randint(0, 5), "#t", "kw", "1"])
        return "(" + " ".join(self.datum(d - 1) for _ in range(rng.randint(0, 3))) + ")"

    def instance(self, p):
        """a form matching pattern p (text)"""
        rng = self.rng
        if not isinstance(p, list):
            if p in ("1", "#t", "kw"):
                return p
            return self.datum(2)
        out, i, tail = [], 0, None
        while i < len(p):
            if p[i] == ".":
                tail = p[i + 1]
                break
            if i + 1 < len(p) and p[i + 1] == "...":
                for _ in range(rng.randint(0, 3)):
                    out.append(self.instance(p[i]))
                i += 2
            else:
                out.append(self.instance(p[i]))
                i += 1
        if tail is not None:
            r = rng.random()
            if isinstance(tail, list) or r < 0.5:
                t = self.instance(tail)
                if t.startswith("("):
                    inner = t[1:-1].strip()
                    return "(" + " ".join(out + ([inner] if inner else [])) + ")"
                return "(" + " ".join(out) + (" . " if out else "") + t + ")" if out else t
            return "(" + " ".join(out) + ")"
        return "(" + " ".join(out) + ")"

    def reveal(self, p, depth, acc):
        """template pieces revealing every variable at its depth"""
        i = 0
        while i < len(p):
            x = p[i]
            if x == ".":
                i += 1
                continue
            d = depth + (1 if i + 1 < len(p) and p[i + 1] == "..." else 0)
            if isinstance(x, list):
                self.reveal(x, d, acc)
            elif x not in ("1", "#t", "kw", "...", "_"):
                t = x
                for _ in range(d):
                    t = "(%s ...)" % t
                acc.append(t)
            i += 2 if d > depth else 1

    def case(self):
        self.n = 0
        p = self.pattern(2, self.max_depth)
        acc = []
        self.reveal(p, 0, acc)
        # the template also contains the identifier `_` (an ordinary symbol there): it must come out untouched
        definition = "(define-syntax m (syntax-rules (kw) [(_ %s) (quote (%s _ (_)))] [(_ . other) (quote nomatch)]))" % (
            " ".join(self.show(x) for x in p), " ".join(acc))
        rng = self.rng
        inst = self.instance(p)
        body = inst[1:-1].strip() if inst.startswith("(") else ". " + inst
        r = rng.random()
        if r < 0.2:                      # mutate: drop or add an element
            toks = read_all("(" + body + ")")[0] if "." not in body.split() else None
            if toks is not None:
                if toks and rng.random() < 0.5:
                    toks.pop(rng.randrange(len(toks)))
                else:
                    toks.insert(rng.randint(0, len(toks)), self.datum(1))
                body = " ".join(show_tree(t) for t in toks)
        form = "(m %s)" % body
        return definition, form


def show_tree(t):
    if isinstance(t, list):
        return "(" + " ".join(show_tree(x) for x in t) + ")"
    return t


# ------------------------------------------------------------------------------------------------

def parse_driver(line):
    d = {}
    for part in line.split(" ## "):
        k, _, v = part.partition("=")
        d[k.strip()] = v.strip()
    return d


def norm_val(s):
    """`ok v` stays, every error / panic / timeout becomes `err` (the property does not fix the message)."""
    s = s.strip()
    if s.startswith("ok"):
        return s
    if s.startswith("panic") or s.startswith("timeout"):
        return "crash"
    return "err"


def norm_m(s):
    s = s.strip()
    if s.startswith("ok"):
        return s
    if "panic" in s:
        return "crash"
    return "err"


def classes_of(cls):
    cls = cls.lstrip("?")
    return [] if cls in ("G", "") else cls.split(",")


class Stats:
    def __init__(self):
        self.programs = 0
        self.units = 0
        self.real_eq_S = 0
        self.real_ne_S = 0
        self.real_ne_M = []
        self.seen = set()
        self.known_hits = {}
        self.by_class = {}
        self.samples = []
        self.mirror_disagree = []
        self.inside_G = 0
        self.inside_G_ne_S = 0
        self.histories = 0
        self.names_checked = 0
        self.hash_prefix = {"programs": 0, "rejected": 0}


def decide(ctx, st, kind, text, real, drv, known, label):
    """kind: 'prog' (values) or 'unit' (expansion texts)."""
    d = parse_driver(drv)
    cls = classes_of(d.get("class", "G"))
    if kind == "prog":
        r, m, s = norm_val(real), norm_m(d.get("valM", "")), norm_m(d.get("valS", ""))
        eq_rs = (r == s) if r.startswith("ok") or s.startswith("ok") else (r != "crash")
        eq_rm = (r == m) if r.startswith("ok") or m.startswith("ok") else ((r == "crash") == (m == "crash"))
    elif kind == "hist":
        rl, ml, sl = norm_hist(real, False), norm_hist(d.get("valM", ""), True), norm_hist(d.get("valS", ""), True)
        eq_rs = len(rl) == len(sl) and all(a.split() == b.split() for a, b in zip(rl, sl))
        eq_rm = len(rl) == len(ml) and all(a.split() == b.split() for a, b in zip(rl, ml))
    else:
        r = real.strip()
        mt, stx = d.get("M", ""), d.get("S", "")
        if r.startswith("ok") and mt.startswith("ok"):
            eq_rm = same_text(r[2:], mt[2:])
        else:
            eq_rm = (not r.startswith("ok")) and (not mt.startswith("ok")) and (("panic" in r) == ("panic" in mt))
        alpha = d.get("alpha", "false")
        # unit property: real expansion = S expansion; M's expansion is alpha-compared with S's by the driver
        eq_rs = eq_rm and alpha in ("true", "err-both")
        if not eq_rm and r.startswith("ok") and stx.startswith("ok"):
            eq_rs = False
    if kind == "unit":
        bad = names_property(text, real)
        st.names_checked += 1 if real.strip().startswith("ok") else 0
        if bad and len(ctx.violations) < 25:
            ctx.violation("C13-names-%s-%d.txt" % (label, len(ctx.violations)),
                          "# the REAL expansion contains an identifier that is neither an identifier of the use, nor written in the macro definition, nor ##-prefixed (theorem expansion_names)\nunit %s\n# real = %s\n# offending = %s\n"
                          % (text, real, " ".join(bad)))
    if not cls:
        st.inside_G += 1
        if not (eq_rs):
            st.inside_G_ne_S += 1
    key = (kind, d.get("valS", d.get("S", "")), tuple(cls))
    st.seen.add(key)
    for c in cls or ["G"]:
        st.by_class[c] = st.by_class.get(c, 0) + 1
    if not eq_rm:
        st.real_ne_M.append("%s %s\n# real=%s\n# model=%s" % (kind, text, real, drv))
    # the python mirror over-approximates the driver's class
    if kind in ("prog", "hist"):
        mf = mirror_flags(text)
        if not set(cls) <= mf:
            st.mirror_disagree.append("%s driver=%s mirror=%s" % (text, cls, sorted(mf)))
    if eq_rs:
        st.real_eq_S += 1
        return
    st.real_ne_S += 1
    fid = None
    if kind == "prog" and not eq_rm and norm_val(real) == "err" and norm_m(d.get("valM", "")).startswith("ok"):
        # the real engine rejects at COMPILE time (in procedure bodies, not in top-level expressions) what the lazy
        # value function of the model only meets when it is evaluated: a leftover ellipsis token (K13j) or a
        # template identifier renamed to a free `##x` (K13a).  Attributed by the class predicate AND that shape:
        # the driver finds the static defect in M's own expansion (`staticM`) and the real engine raises an error.
        sm = d.get("staticM", "none")
        for c_, want in (("j", "BadSyntax"), ("a", "FreeIdentifier")):
            k_ = FINDING_CLASSES[c_][0]
            if c_ in cls and sm == want and k_ in known:
                ctx.known_finding("id=%s class=%s %s" % (k_, FINDING_CLASSES[c_][1], known[k_]))
                st.known_hits[k_] = st.known_hits.get(k_, 0) + 1
                st.real_ne_M_attributed = getattr(st, "real_ne_M_attributed", 0) + 1
                st.real_ne_M.pop()
                return
    if kind == "prog" and "a" in cls and not eq_rm and "K13k" in known and k13k_shape(text, real, d.get("valM", "")):
        # K13k: the inliner makes a template's free identifier inside (define (f p) …) resolve to the binder spelled p
        # in whose extent f is called.  Attributed by the class predicate (class a + such a define + such a binder) AND
        # the observed way of failing: the real value is the model's value with the tag of one p-binder for another
        ctx.known_finding("id=K13k class=%s %s" % (FINDING_CLASSES["a"][1], known["K13k"]))
        st.known_hits["K13k"] = st.known_hits.get("K13k", 0) + 1
        st.real_ne_M_attributed = getattr(st, "real_ne_M_attributed", 0) + 1
        st.real_ne_M.pop()
        return
    if cls and eq_rm:
        for c in cls:
            k = FINDING_CLASSES.get(c)
            if k and k[0] in known:
                fid = k[0]
                break
    if fid:
        ctx.known_finding("id=%s class=%s %s" % (fid, FINDING_CLASSES[[c for c in cls if FINDING_CLASSES[c][0] == fid][0]][1], known[fid]))
        st.known_hits[fid] = st.known_hits.get(fid, 0) + 1
        return
    n = len(ctx.violations)
    if n >= 25:                       # enough replay files; the rest is only counted
        st.more_violations = getattr(st, "more_violations", 0) + 1
        return
    ctx.violation("C13-%s-%d.txt" % (label, n),
                  "# real engine / real SteelMacro disagrees with the specification S\n%s %s\n# real   = %s\n# driver = %s\n# class  = %s (inside G: any disagreement is a violation; outside G only when real != M or the class is not an open finding)\n"
                  % (kind, text, real, drv, ",".join(cls) or "G"))


CORE_ALIASES = {"#%plain-lambda", "λ", "fn", "#%plain-let"}


def names_property(text, real):
    """`expansion_names` evaluated on the REAL expansion of a unit case: every identifier of the expansion is
    an identifier of the use form, an identifier written in the macro definition, or begins with `##`.
    Returns the offending identifiers (empty = holds)."""
    if not real.strip().startswith("ok"):
        return []
    try:
        definition, form = text.split("\t", 1)
        allowed = {x for t in read_all(definition) + read_all(form) for x in atoms(t)}
        out = [x for t in read_all(real.strip()[2:]) for x in atoms(t)]
    except Exception:
        return []
    return sorted({x for x in out if is_id(x) and not x.startswith("##") and x not in allowed and x not in CORE_ALIASES})


def hash_prefix_programs(rng, n):
    """Programs that contain an identifier beginning with the mangling prefix `##` in every syntactic role
    (the hypothesis `noHashList` of the hygiene theorems = the reader never produces such an identifier)."""
    roles = [
        "(define %s 1) %s",
        "(define (f %s) 2) (f 1)",
        "(define (%s y) y) 3",
        "(let ((%s 4)) 5)",
        "((lambda (%s) 6) 7)",
        "(define-syntax m (syntax-rules () [(_ a) (let ((%s a)) 8)])) (m 9)",
        "(define-syntax m (syntax-rules () [(_ %s) 10])) (m 11)",
        "(define-syntax m (syntax-rules () [(_ a) a])) (define tmp 12) (m %s)",
        "(quote %s)",
        "(list 13 '%s)",
    ]
    out = []
    for _ in range(n):
        base = rng.choice(["tmp", "x", "a", "list", "t", "%d" % rng.randint(0, 99), "##" + rng.choice(["x", "tmp"]), ""])
        ident = "##" + base
        role = rng.choice(roles)
        out.append(role.replace("%s", ident))
    return out


def norm_hist(s, model):
    """per-piece normal form of a history result `r1 | r2 | …`"""
    f = norm_m if model else norm_val
    return [f(x) for x in s.split(" | ")]


class HistGen:
    """Multi-evaluation histories on ONE engine: definitions, then uses, some of which FAIL after pattern matching
    (ellipsis variables of different lengths in one sub-template, wrong number of arguments); the pattern variables of
    the failing macros are spelled like the binders other templates introduce, and the arguments of the failing uses
    are the user's variables — whatever a failed expansion leaves behind shows in the later pieces."""

    def __init__(self, rng, gen):
        self.rng = rng
        self.g = gen

    def history(self):
        rng, g = self.rng, self.g
        g.pending_defs = []
        defs, macros, globs = g.make_macros("b")
        pieces = list(defs) + list(globs)
        users = []
        for i in range(rng.randint(1, 3)):
            u = "u%d" % (i + 1)
            users.append(u)
            pieces.append("(define %s %d)" % (u, g.fresh()))
        failing = []
        for i in range(rng.randint(1, 2)):
            T = rng.choice(Gen.BINDER_POOL)
            zn = "z%d" % i
            shape = rng.choice(["zip", "zip3", "nestzip"])
            if shape == "zip":
                pieces.append("(define-syntax %s (syntax-rules () [(_ %s (p ...) (q ...)) (list %s (list p q) ...)]))" % (zn, T, T))
            elif shape == "zip3":
                pieces.append("(define-syntax %s (syntax-rules () [(_ (p ...) %s (q ...)) (list (list p q %s) ...)]))" % (zn, T, T))
            else:
                pieces.append("(define-syntax %s (syntax-rules () [(_ %s ((p ...) (q ...)) ...) (list %s (list (list p q) ...) ...)]))" % (zn, T, T))
            failing.append((zn, shape))
        names = [k for k in macros]
        for _ in range(rng.randint(3, 6)):
            r = rng.random()
            if failing and r < 0.4:
                zn, shape = rng.choice(failing)
                u = rng.choice(users)
                la, lb = rng.choice([(2, 1), (1, 2), (3, 0), (0, 2), (2, 2)])
                A = " ".join(str(g.fresh()) for _ in range(la))
                B = " ".join(str(g.fresh()) for _ in range(lb))
                if shape == "zip":
                    pieces.append("(%s %s (%s) (%s))" % (zn, u, A, B))
                elif shape == "zip3":
                    pieces.append("(%s (%s) %s (%s))" % (zn, A, u, B))
                else:
                    pieces.append("(%s %s ((%s) (%s)) ((1) (2)))" % (zn, u, A, B))
            elif r < 0.5 and names:
                # wrong number of arguments: no case matches
                pieces.append("(%s)" % rng.choice(names) if rng.random() < 0.5 else "(%s 1 2 3 4 5 6)" % rng.choice(names))
            else:
                name = rng.choice(names)
                pieces.append("(list %s)" % g.use(name, macros, list(users), 2))
        pieces = pieces[:len(defs) + len(globs)] + g.pending_defs + pieces[len(defs) + len(globs):]
        return " ;;;--- ".join(pieces)


FREE_SPELLINGS = ("list", "g1", "g2")


def k13k_shape(text, real, model):
    """class predicate + failure shape of K13k (see findings/C13-K13k.txt)"""
    params = set(re.findall(r"\(define \([^\s()]+ (?:[^()]*\s)?(%s)(?:\s[^()]*)?\)" % "|".join(FREE_SPELLINGS), text))
    if not params:
        return False
    binder_tags = set()
    for p_ in params:
        binder_tags |= set(re.findall(r"\(%s \(lambda args \(cons (\d+) args\)\)\)" % re.escape(p_), text))       # let binders
        binder_tags |= set(re.findall(r"\(lambda \(%s\) [^\n]*?\) \(lambda args \(cons (\d+) args\)\)\)" % re.escape(p_), text))
    arg_tags = set(re.findall(r"\(lambda args \(cons (\d+) args\)\)", text))
    if not binder_tags:
        return False
    r, m = norm_val(real), norm_m(model)
    if not (r.startswith("ok") and m.startswith("ok")) or r == m:
        return False
    mask = lambda v: re.sub(r"\b(%s)\b" % "|".join(sorted(arg_tags, key=len, reverse=True)), "T", v)
    # the real value uses a tag of a binder of that spelling where the model has the tag of the argument
    rt = set(re.findall(r"\d+", r)) & binder_tags
    return mask(r) == mask(m) and bool(rt)


def harness_bin():
    """the harness binary; C13_HARNESS_BIN lets a build against a scratch worktree (a proposed fix) be checked"""
    return os.environ.get("C13_HARNESS_BIN") or C.bin_path("c13")


def batch_io(job):
    """run the real code and the driver on one chunk (called from worker threads: only subprocesses here)"""
    kind, texts, label, moddir = job
    inp = "\n".join(texts) + "\n"
    env = {"C13_MODDIR": moddir} if moddir else None
    hmode, dmode = {"prog": ("prog", "prog"), "hist": ("hist", "hist")}.get(kind, ("unit", "match"))
    both = C.pool_map(lambda a: C.run_bin(a[0], inp, timeout=900, env=a[1]),
                      [([harness_bin(), hmode], env), ([C.driver_path("c13driver"), dmode], None)], workers=2)
    return both[0] + both[1]


def run_batches(ctx, st, jobs, known):
    """chunks run concurrently (one harness + one driver process per chunk), decided in order"""
    jobs = [j for j in jobs if j[1]]
    # the harness in program mode is itself a 16-thread supervisor (one child engine per 8 programs): two program
    # chunks at a time; the unit mode and the driver are single-threaded: half the cores
    for kinds, workers in ((("prog", "hist"), 2), (("unit",), max(2, C.NCPU // 2))):
        sel = [j for j in jobs if j[0] in kinds]
        results = C.pool_map(batch_io, [(k, t, l, None) for (k, t, l) in sel], workers=workers)
        for (kind, texts, label), io in zip(sel, results):
            run_batch(ctx, st, kind, texts, known, label, io=io)


def run_batch(ctx, st, kind, texts, known, label, moddir=None, io=None):
    if not texts:
        return
    rrc, rout, rerr, drc, dout, derr = io if io is not None else batch_io((kind, texts, label, moddir))
    rl, dl = rout.splitlines(), dout.splitlines()
    if len(rl) != len(texts) or len(dl) != len(texts):
        ctx.violation("C13-%s-crash.txt" % label, "harness rc=%d lines=%d, driver rc=%d lines=%d, expected %d\n%s\n%s\n"
                      % (rrc, len(rl), drc, len(dl), len(texts), rerr[-1500:], derr[-1500:]), no_input=True)
        return
    for t, r, d in zip(texts, rl, dl):
        if kind in ("prog", "hist"):
            st.programs += 1
            if kind == "hist":
                st.histories += 1
        else:
            st.units += 1
        decide(ctx, st, kind, t, r, d, known, label)
        if len(st.samples) < 4 and st.programs % 37 == 1:
            st.samples.append({"input": t[:400], "real": r[:200], "driver": d[:400]})


def module_cases(ctx):
    """Macros imported from generated modules: (module files, main program, flattened single-file program)."""
    moddir = os.path.join(ctx.scratch, "mods")
    os.makedirs(moddir, exist_ok=True)
    cases = []

    def mod(name, src):
        with open(os.path.join(moddir, name), "w") as f:
            f.write(src)

    mod("c13m1.scm", "(provide mac1 shown)\n(define tag1 'module)\n(define (shown x) (list tag1 x))\n"
        "(define-syntax mac1 (syntax-rules () [(_ a) (list tag1 a)]))\n")
    # the template's free identifier tag1 is private to the module
    cases.append(('(require "c13m1.scm") (define tag1 \'user) (mac1 1)',
                  "(define m1::tag1 'module) (define-syntax mac1 (syntax-rules () [(_ a) (list m1::tag1 a)])) (define tag1 'user) (mac1 1)"))
    cases.append(('(require "c13m1.scm") (mac1 (shown 2))',
                  "(define m1::tag1 'module) (define (shown x) (list m1::tag1 x)) (define-syntax mac1 (syntax-rules () [(_ a) (list m1::tag1 a)])) (mac1 (shown 2))"))
    cases.append(('(require "c13m1.scm") (let ((tag1 \'local)) (mac1 tag1))',
                  "(define m1::tag1 'module) (define-syntax mac1 (syntax-rules () [(_ a) (list m1::tag1 a)])) (let ((tag1 'local)) (mac1 tag1))"))
    mod("c13m2.scm", "(provide or-m)\n(define-syntax or-m (syntax-rules () [(_ a b) (let ((tmp a)) (if tmp tmp b))]))\n")
    cases.append(('(require "c13m2.scm") (let ((tmp 5)) (or-m #f tmp))',
                  "(define-syntax or-m (syntax-rules () [(_ a b) (let ((tmp a)) (if tmp tmp b))])) (let ((tmp 5)) (or-m #f tmp))"))
    cases.append(('(require "c13m2.scm") (define tmp 6) (or-m #f tmp)',
                  "(define-syntax or-m (syntax-rules () [(_ a b) (let ((tmp a)) (if tmp tmp b))])) (define tmp 6) (or-m #f tmp)"))
    # three-module chains C -> B -> user: B's macro refers to a function that B imports from C; every provide
    # form for that function, every require form in B, and a user identifier of the same spelling
    n = 0
    for cprov in ("bare", "contract"):
        for breq in ("plain", "only-in", "prefix-in"):
            for mprov in ("bare", "for-syntax"):
                n += 1
                cn, bn = "c13c%d.scm" % n, "c13b%d.scm" % n
                fn = "scale%d" % n
                prov = fn if cprov == "bare" else "(contract/out %s (->/c number? number?))" % fn
                mod(cn, "(provide %s other%d)\n(define (%s x) (* 100 x))\n(define (other%d x) (* 7 x))\n" % (prov, n, fn, n))
                call = fn
                if breq == "plain":
                    req = '(require "%s")' % cn
                elif breq == "only-in":
                    req = '(require (only-in "%s" %s))' % (cn, fn)
                else:
                    req = '(require (prefix-in c: "%s"))' % cn
                    call = "c:" + fn
                mac = "scaled%d" % n
                mp = mac if mprov == "bare" else "(for-syntax %s)" % mac
                mod(bn, "%s\n(provide %s)\n(define-syntax %s (syntax-rules () [(_ e) (%s e)]))\n" % (req, mp, mac, call))
                flat_defs = "(define (C::%s x) (* 100 x)) (define-syntax %s (syntax-rules () [(_ e) (C::%s e)]))" % (fn, mac, fn)
                for user in ("global", "none", "local"):
                    if user == "global":
                        body = "(define (%s x) (list 'user x)) (define (c:%s x) (list 'user2 x)) (%s 2)" % (fn, fn, mac)
                    elif user == "none":
                        body = "(%s 3)" % mac
                    else:
                        body = "(let ((%s (lambda (x) (list 'local x))) (c:%s (lambda (x) (list 'local2 x)))) (%s 4))" % (fn, fn, mac)
                    cases.append(('(require "%s") %s' % (bn, body), flat_defs + " " + body,
                                  ("i" if breq != "plain" else "", "%s-%s-%s-%s" % (cprov, breq, mprov, user))))
    # an imported macro used in a LATER body expression of a binding form inside MODULE code (ExpanderMany visits
    # only the first body expression of a `let`): body position x binding form; class l = a `let` whose later body
    # expression uses the imported macro
    mod("c13la.scm", "(provide addone)\n(define-syntax addone (syntax-rules () [(_ e) (+ e 1)]))\n")
    lforms = [
        ("let-1st", "", "(let ((x 10)) (addone x))"),
        ("let-2nd", "l", "(let ((x 10)) (list x) (addone x))"),
        ("let-3rd-two-bindings", "l", "(let ((x 10) (y 1)) (list x) (list y) (addone (+ x y)))"),
        ("let-1st-and-2nd", "l", "(let ((x 10)) (addone x) (addone (addone x)))"),
        ("let-nested-2nd", "l", "(let ((x 10)) (list x) (let ((y 2)) (list y) (addone y)))"),
        ("let-in-lambda-2nd", "l", "((lambda (z) (let ((x z)) (list x) (addone x))) 10)"),
        ("lambda-2nd", "", "((lambda (x) (list x) (addone x)) 10)"),
        ("begin-2nd", "", "(begin (list 1) (addone 10))"),
        ("if-branch-begin-2nd", "", "(if (list 1) (begin (list 2) (addone 10)) 0)"),
    ]
    for k, (label, cls, form) in enumerate(lforms):
        bn = "c13lb%d.scm" % k
        mod(bn, '(require "c13la.scm")\n(provide f)\n(define (f) %s)\n' % form)
        cases.append(('(require "%s") (f)' % bn,
                      "(define-syntax addone (syntax-rules () [(_ e) (+ e 1)])) (define (f) %s) (f)" % form,
                      (cls, "laterbody-" + label)))
    return moddir, cases


def module_hist_cases(ctx):
    """Module chains x multi-unit histories on one engine: module L requires module U and reaches U's function only
    through macros (an exported macro that mentions it directly / through a PRIVATE macro / through two private
    macros); the units of the history require L, call a plain function of L, and use the exported macro for the
    first time in the same unit as the require or in a later one.  Returns (main history, flattened history, label)."""
    moddir = os.path.join(ctx.scratch, "mods")
    os.makedirs(moddir, exist_ok=True)

    def mod(name, src):
        with open(os.path.join(moddir, name), "w") as f:
            f.write(src)

    mod("c13hu.scm", "(provide hutil hother)\n(define (hutil x) (list 'util x))\n(define (hother x) (list 'other x))\n")
    variants = {
        "direct": ["(define-syntax use-util (syntax-rules () [(_ x) (hutil x)]))"],
        "private": ["(define-syntax call-util (syntax-rules () [(_ x) (hutil x)]))",
                    "(define-syntax use-util (syntax-rules () [(_ x) (call-util x)]))"],
        "private2": ["(define-syntax call-util (syntax-rules () [(_ x) (hutil x)]))",
                     "(define-syntax call-util2 (syntax-rules () [(_ x) (list (call-util x) (hother x))]))",
                     "(define-syntax use-util (syntax-rules () [(_ x) (call-util2 x)]))"],
    }
    histories = {
        "late": ["(lib-id 1)", "(use-util 3)"],
        "next": ["(use-util 3)"],
        "same+later": ["@(use-util 3)", "(use-util 4)"],
        "twice-late": ["(lib-id 1)", "(lib-id 2)", "(use-util 5)", "(use-util (lib-id 6))"],
    }
    cases = []
    for vn, macs in variants.items():
        ln = "c13hl_%s.scm" % vn
        mod(ln, '(require "c13hu.scm")\n(provide use-util lib-id)\n(define (lib-id x) x)\n' + "\n".join(macs) + "\n")
        flat_defs = "(define (hutil x) (list 'util x)) (define (hother x) (list 'other x)) (define (lib-id x) x) " + " ".join(macs)
        for hn, units in histories.items():
            first_m, first_f = '(require "%s")' % ln, flat_defs
            rest = list(units)
            if rest and rest[0].startswith("@"):
                first_m += " " + rest[0][1:]
                first_f += " " + rest[0][1:]
                rest = rest[1:]
            cases.append((" ;;;--- ".join([first_m] + rest), " ;;;--- ".join([first_f] + rest), "%s-%s" % (vn, hn)))
    return moddir, cases


def load_corpus():
    progs, units = [], []
    cdir = os.path.join(C.VERIF, "corpus", "C13")
    for fn in sorted(os.listdir(cdir)):
        for line in open(os.path.join(cdir, fn)):
            line = line.rstrip("\n")
            if not line.strip() or line.startswith("#"):
                continue
            if fn.endswith(".unit"):
                units.append(line)
            elif fn.endswith(".prog"):
                progs.append(line)
    return progs, units


def known_ids(ctx):
    """open findings of this property: the `finding:` lines of KNOWN_FINDINGS.txt (nothing else)."""
    return {k["id"]: k["text"].split(" ", 5)[-1] for k in ctx.load_known() if "id" in k}


def run(ctx):
    st = Stats()
    known = known_ids(ctx)
    pr = C.prove(ctx, "C13", ["c13driver"])
    ok, log = C.build_harness(ctx, ["c13"])
    if not ok or not os.path.exists(C.driver_path("c13driver")):
        ctx.violation("C13-build.txt", "harness or driver does not build:\n" + log + pr["log"][-2000:], no_input=True)
        ctx.coverage = {"obligations": pr["obligations"], "discharged": pr["discharged"],
                        "checker_cmd": "lake build SteelVerif.C13.Props", "trusted_base": C.TRUSTED_BASE}
        return ctx.finish()

    ctx.log("proved + built")
    rng = random.Random(ctx.seed)
    progs, units = load_corpus()
    run_batch(ctx, st, "prog", progs, known, "corpus")
    run_batch(ctx, st, "unit", units, known, "corpus-unit")
    # modules: real engine on the module version, S on the flattened version
    moddir, mcases = module_cases(ctx)
    mod_results = []
    if mcases:
        inp = "\n".join(c[0] for c in mcases) + "\n"
        rrc, rout, _ = C.run_bin([harness_bin(), "prog"], inp, timeout=300, env={"C13_MODDIR": moddir})
        drc, dout, _ = C.run_bin([C.driver_path("c13driver"), "prog"], "\n".join(c[1] for c in mcases) + "\n", timeout=300)
        rl, dl = rout.splitlines(), dout.splitlines()
        if len(rl) != len(mcases) or len(dl) != len(mcases):
            ctx.violation("C13-module-crash.txt", "module stream: harness lines=%d driver lines=%d expected %d\n" % (len(rl), len(dl), len(mcases)), no_input=True)
        for case, r, d in zip(mcases, rl, dl):
            m, f = case[0], case[1]
            cls, label = case[2] if len(case) > 2 else ("", "basic%d" % len(mod_results))
            dd = parse_driver(d)
            s = norm_m(dd.get("valS", ""))
            rv = norm_val(r)
            if cls == "l" and rv != s and "K13l" not in known:
                # proposed finding (findings/C13-K13l.txt, fix in .build/C13/proposed-expandermany-let-bodies.diff) that
                # is neither listed nor fixed yet: reported as a note, the family is decided again as soon as the
                # entry is listed (KNOWN-FINDING) or the fix is applied (real == S)
                if not any("K13l" in n for n in ctx.notes):
                    ctx.notes.append("proposed finding K13l (module_let_later_body_imported_macro_not_expanded, findings/C13-K13l.txt) reproduced but not listed in KNOWN_FINDINGS.txt: its module cases are not decided")
                mod_results.append({"main": m, "real": r, "S": dd.get("valS", ""), "class": cls, "undecided": True})
                continue
            st.programs += 1
            mod_results.append({"main": m, "real": r, "S": dd.get("valS", ""), "class": cls})
            if rv == s:
                st.real_eq_S += 1
                continue
            st.real_ne_S += 1
            kid = FINDING_CLASSES[cls][0] if cls else None
            if kid and kid in known:
                ctx.known_finding("id=%s class=%s %s" % (kid, FINDING_CLASSES[cls][1], known[kid]))
                st.known_hits[kid] = st.known_hits.get(kid, 0) + 1
                continue
            ctx.violation("C13-module-%s.txt" % label,
                          "# macro imported from a generated module (chain C -> B -> user): real engine != specification\nmodprog %s\n# flattened for S: %s\n# real = %s\n# S = %s\n# class = %s\n" % (m, f, r, dd.get("valS", ""), cls or "G"))

    # module chains x multi-unit histories (real engine on the module version, S on the flattened history)
    hmoddir, hcases = module_hist_cases(ctx)
    if hcases:
        rrc, rout, _ = C.run_bin([harness_bin(), "hist"], "\n".join(c[0] for c in hcases) + "\n", timeout=300, env={"C13_MODDIR": hmoddir})
        drc, dout, _ = C.run_bin([C.driver_path("c13driver"), "hist"], "\n".join(c[1] for c in hcases) + "\n", timeout=300)
        rl, dl = rout.splitlines(), dout.splitlines()
        if len(rl) != len(hcases) or len(dl) != len(hcases):
            ctx.violation("C13-modhist-crash.txt", "module history stream: harness lines=%d driver lines=%d expected %d\n" % (len(rl), len(dl), len(hcases)), no_input=True)
        for (m, f, label), r, d in zip(hcases, rl, dl):
            dd = parse_driver(d)
            rr, ss = norm_hist(r, False), norm_hist(dd.get("valS", ""), True)
            st.programs += 1
            st.histories += 1
            mod_results.append({"main": m, "real": r, "S": dd.get("valS", ""), "class": "hist"})
            if len(rr) == len(ss) and all(a.split() == b.split() for a, b in zip(rr, ss)):
                st.real_eq_S += 1
                continue
            st.real_ne_S += 1
            ctx.violation("C13-modhist-%s.txt" % label,
                          "# module chain x multi-unit history: real engine != specification\nmodhist %s\n# flattened for S: %s\n# real = %s\n# S = %s\n" % (m, f, r, dd.get("valS", "")))
    ctx.log("corpus + module streams done")
    # hypothesis of the hygiene theorems: the reader never produces an identifier beginning with `##`
    hp = hash_prefix_programs(rng, 60 if ctx.quick() else 600)
    hrc, hout, herr = C.run_bin([harness_bin(), "prog"], "\n".join(hp) + "\n", timeout=300)
    hl = hout.splitlines()
    if len(hl) != len(hp):
        ctx.violation("C13-hashprefix-crash.txt", "## stream: harness rc=%d lines=%d expected %d\n%s\n" % (hrc, len(hl), len(hp), herr[-1500:]), no_input=True)
    else:
        for t, r in zip(hp, hl):
            st.hash_prefix["programs"] += 1
            if norm_val(r) == "err":
                st.hash_prefix["rejected"] += 1
            elif len(ctx.violations) < 25:
                ctx.violation("C13-hashprefix-%d.txt" % len(ctx.violations),
                              "# the real reader/engine accepted (or crashed on) a program with an identifier that begins with the mangling prefix ##: the hypothesis noHashList of introduced_binders_fresh / user_forms_not_captured does not hold for source text\nprog %s\n# real = %s\n" % (t, r))

    quick = ctx.quick()
    nprog = 400 if quick else 8000
    nunit = 3000 if quick else 24000
    g = Gen(rng, 3 if quick else 6, 2 if quick else 3, not quick)
    # templates with two ellipses in one list (class j): generated once K13j is listed as an open finding
    # (until then every such program is a VIOLATION by the protocol; the witness is findings/C13-K13j.txt)
    g.enable_twoell = "K13j" in known
    if not g.enable_twoell:
        ctx.notes.append("proposed finding K13j (template_list_with_two_ellipses, findings/C13-K13j.txt) is not listed in KNOWN_FINDINGS.txt: the generator kind `twoell` is switched off")
    streams = [("main", 0.45), ("a", 0.12), ("b", 0.15), ("c", 0.08), ("e", 0.05), ("mixed", 0.15)]
    ctx.log("## stream done")
    jobs = []
    pchunk, uchunk = (200, 400) if quick else (1000, 2000)
    for name, frac in streams:
        texts = [g.program(name) for _ in range(int(nprog * frac))]
        for i in range(0, len(texts), pchunk):
            jobs.append(("prog", texts[i:i + pchunk], "gen-" + name))
    hg = HistGen(rng, Gen(rng, 3, 2, False))
    htexts = [hg.history() for _ in range(120 if quick else 1000)]
    for i in range(0, len(htexts), 60 if quick else 500):
        jobs.append(("hist", htexts[i:i + (60 if quick else 500)], "gen-hist"))
    ug = UnitGen(rng, 2 if quick else 3)
    utexts = ["%s\t%s" % ug.case() for _ in range(nunit)]
    for i in range(0, len(utexts), uchunk):
        jobs.append(("unit", utexts[i:i + uchunk], "gen-unit"))
    ctx.log("generated %d chunks" % len(jobs))
    run_batches(ctx, st, jobs, known)
    ctx.log("generated streams done")

    # translator obligation: the model starts every expansion from empty binding maps
    trc, tout = C.sh(["python3", os.path.join(C.VERIF, "translate", "c13_clears.py")], timeout=60)
    clears = tout.strip().splitlines()[-1] if tout.strip() else "BROKEN no output"
    if trc != 0 and not ctx.violations:
        ctx.violation("C13-translator-clears.txt", "translator obligation bindings_cleared_before_match (translate/c13_clears.py): %s\n# the model M starts every expansion from empty binding maps; no history of this run exhibits a difference\n" % clears, no_input=True)

    for kid in known:
        if kid not in st.known_hits:
            ctx.notes.append("open finding %s was not reproduced by this run" % kid)
    if st.real_ne_M and not ctx.violations:
        # model and real code part ways although no input violates the property: the tie is broken
        ctx.violation("C13-correspondence.txt", "real code and model M disagree (no real != S among them):\n" + "\n".join(st.real_ne_M[:8]) + "\n", no_input=True)
    if st.mirror_disagree and not ctx.violations:
        ctx.violation("C13-mirror.txt", "python mirror of the class predicate does not cover the driver's class:\n" + "\n".join(st.mirror_disagree[:8]) + "\n", no_input=True)
    if not pr["ok"] and not ctx.violations:
        ctx.violation("C13-proof-broken.txt", "proof obligations of SteelVerif.C13.Props that no longer check:\n" +
                      "\n".join("%s: %s" % f for f in pr["failed"]) + "\n", no_input=True)
    ctx.coverage = {
        "obligations": pr["obligations"], "discharged": pr["discharged"],
        "checker_cmd": "cd lean && lake build SteelVerif.C13.Props && lake env lean SteelVerif/C13/Audit.lean",
        "trusted_base": C.TRUSTED_BASE + ["python mirror of the class predicates (static over-approximation, checked against the driver on every program)"],
        "evaluations": st.programs + st.units, "programs": st.programs, "unit_pairs": st.units, "histories": st.histories,
        "translator_bindings_cleared_before_match": clears,
        "distinct_nontrivial": len(st.seen),
        "rule": "programs: 1-%d macros drawn from 12 shapes (or2-like let binder, lambda binder, free-identifier wrapper, recursive, nested user of another macro, my-let + user, literal, literal passing, ellipsis depth 2/3, dotted, ellipsis+dotted) with spellings from small pools so that collisions occur; 1-3 uses at top level / under let / lambda / define parameters that do or do not shadow template binders, template free identifiers and literals; every binder bound to a distinct tag; distinct = distinct (S result, class). unit: random patterns (literals, nested, one ellipsis per list, dotted tails, depth <= %d) with a revealing template, instances of the pattern and mutated instances" % (g.max_macros, g.max_depth),
        "samples": st.samples, "real_eq_S": st.real_eq_S, "real_ne_S": st.real_ne_S, "inside_G": st.inside_G, "inside_G_real_ne_S": st.inside_G_ne_S,
        "expansion_names_checked_on_real": st.names_checked, "hash_prefix_stream": st.hash_prefix,
        "real_ne_M": len(st.real_ne_M), "real_ne_M_attributed_by_failure_shape": getattr(st, "real_ne_M_attributed", 0), "by_class": st.by_class, "known_finding_hits": st.known_hits,
        "violations_not_written": getattr(st, "more_violations", 0),
        "module_cases": mod_results, "mirror_disagreements": len(st.mirror_disagree),
        "axioms": pr.get("axioms", {}), "proof_failures": ["%s: %s" % f for f in pr["failed"]],
    }
    return ctx.finish("proof")


def replay(ctx, path):
    C.build_harness(ctx, ["c13"])
    moddir, _ = module_cases(ctx)
    for line in open(path):
        line = line.rstrip("\n")
        if not line.strip() or line.startswith("#"):
            continue
        kind, _, text = line.partition(" ")
        if kind == "ast":
            r = C.run_bin([C.bin_path("c13"), "ast"], text + "\n", timeout=120)[1]
            print("ast %s\n  real expansion: %s" % (text, r.strip()))
            continue
        if kind == "modhist":
            hm, _ = module_hist_cases(ctx)
            r = C.run_bin([C.bin_path("c13"), "hist"], text + "\n", timeout=120, env={"C13_MODDIR": hm})[1]
            print("real: %s" % r.strip())
            continue
        if kind == "modprog":
            r = C.run_bin([C.bin_path("c13"), "prog"], text + "\n", timeout=120, env={"C13_MODDIR": moddir})[1]
            print("real: %s" % r.strip())
            continue
        hmode, dmode = {"prog": ("prog", "prog"), "hist": ("hist", "hist")}.get(kind, ("unit", "match"))
        r = C.run_bin([C.bin_path("c13"), hmode], text + "\n", timeout=120)[1]
        d = C.run_bin([C.driver_path("c13driver"), dmode], text + "\n", timeout=120)[1]
        print("%s %s\n  real  : %s\n  driver: %s" % (kind, text, r.strip(), d.strip()))
    return 0
