"""C02 — observable behaviour is independent of JIT and optimisation configuration.

translate  : translate/c02_switches.py regenerates lean/SteelVerif/C02/GenSwitches.lean (every environment
             variable steel-core reads by name, with the test applied to it).
prove      : lake build SteelVerif.C02.Props (+ axiom audit): the inlining pass preserves `evalIR`
             (inline_preserves), the two-tier machine is transparent for every schedule IF each native instruction equals the
             interpreter's (tier_transparent_partial: the hypothesis is the untested-by-proof part),
             unit-local inlining is transparent for every history in which no later piece assigns an inlined
             global (inline_history_partial) and NOT in general (inline_history_false: the three-piece witness),
             the configuration sets cover the extracted switches pairwise / exhaustively.
correspond : one child process of harness `c02` per configuration (the switches are read from the process
             environment): directed corpus, whole programs (gen/progs.py), lowered-core programs (gen/frag.py),
             whole-language histories, directed patterns of the finding classes, programs over user modules, self tail calls whose operands are conditionals over the other parameters, globals holding a built-in that are assigned after their callers were compiled (callers invoked first-class), non-local control (return!, call/cc escape, error under a caller-side handler) inside small callees an inliner may copy, n-ary arithmetic on inexact operands of mixed magnitude through apply/map (printed flonums = bit patterns),
             operand-type coverage of the native tier, and model histories (gen/hist02.py).  All configurations
             have to produce the same record (script output, values, error-or-success, error kind) per piece.
             A difference is attributed to an open finding only if the input is in the finding's class AND the
             deviation has the finding's signature (which configurations deviate); anything else is a VIOLATION.
oracle     : agreement between configurations is the property.  The reference semantics S (c02driver) and the
             model (c02driver frag / hist) run as third parties: when all configurations agree with each other
             but not with S the case is logged (`agree_but_differ_from_S`) and left to C01/C06.
"""
import os
import random
import re
import sys
import time

from . import common as C

sys.path.insert(0, C.VERIF)
from gen.progs import gen_program            # noqa: E402
from gen.frag import gen_frag_program        # noqa: E402
from gen.hist02 import (gen_history, gen_model_history, gen_k02a_pattern, gen_k02b_pattern,   # noqa: E402
                        gen_module_program, gen_jitops_program, gen_manyparams_program, gen_sendtwice_program,
                        gen_nested_module_calls, gen_tailcall_operand_conditionals,
                        gen_builtin_alias_history, gen_nonlocal_control_callee, gen_float_nary_program)

PID = "C02"
META = {
    "ready": True,
    "category": "proof",
    "technique": "Lean 4 theorems about the configuration-dependent mechanisms on the lowered core of C01 and about a model of the JIT's late materialisation of operands (inlining pass preserves the reference semantics; two-tier execution is schedule-independent; unit-local inlining across evaluation histories is transparent exactly under a stated guard, with a machine-checked counter-witness outside it; the tested configuration sets cover the switches extracted from the source) + differential execution of generated programs and piecewise histories under a pairwise-covering (quick) / the complete (thorough) set of switch settings, one process per configuration, with the reference semantics as a third party",
    "level_text": "Proved (SteelVerif/C02/Props.lean), for all programs of the lowered core, all stacks, all call depths: inline_preserves (one pass of the inliner with the real legality conditions - known unit-local callee, size below threshold, exact operand count, policy 'defined before the call site and not assigned in the unit' - yields a value iff the original does, and the same one; also with every procedure body of the unit rewritten), inline_twice_preserves (STEEL_INLINE: the pass run again on its own output), fold_preserves / inline_then_fold_preserves (constant folding and dead-branch elimination of what inlining exposes: identical results at identical fuel, errors included), tier_transparent_partial (CONDITIONAL: a machine that hands execution between interpreter and native tier at arbitrary instruction boundaries computes the result of the interpreter, for every schedule, GIVEN that a native instruction does what the interpreter's does on every state - that hypothesis is the JIT part of the property and is not proved; the hand-over state of the real protocol is not modelled) with tier_hypothesis_needed / tier_hypothesis_needed_error (a native call without arity check, and a native primitive that goes on with a placeholder after a type error - the shape of finding K02e - are observable), inline_needs_arity_check (without the operand-count condition - the recursive inliner, finding K02b - the rewrite turns an error into a value), inline_history_partial (pieces evaluated one after another over global cells, each compiled by the unit-local inliner: same observations as without inlining for every history in which no piece assigns a cell an earlier piece could inline) and inline_history_false (the full statement is refuted by the history define f, define g calling f / set! f / call g), switches_covered + quick_pairwise + thorough_complete (decided facts about tables: the configuration sets used by the run cover the five switches found in the source; nothing about program behaviour). The clauses of the property that no theorem carries are listed at the end of Props.lean. NOT proved: that the Cranelift tier implements each op code like the interpreter (the hypothesis of tier_transparent_partial - the differential run showed it to be false for errors raised by specialised primitive op codes, K02e, repaired by 89a126cc, and still shows it false for K02g/K02i), closure lifting, cross-module inlining, the recursive inliner, constant propagation; these are covered only by the differential run, which is a per-program fact. JIT SHADOW STACK (SteelVerif/C02/JitShadow.lean, JitShadowProps.lean, namespace C02J): the part of the native tier that the open miscompilation findings concern - operands kept on a compile-time stack as references to argument slots / SSA values / already-pushed flags and materialised late (cgen.rs MaybeStackValue, shadow_spill, translate_if_else_value) - is modelled as a second semantics of operand code (const, read, moving read, set-local, drop, inline primitives, calls that spill, two-way conditionals with straight-line branches) next to the interpreter's, whose reads/moves/assignments are proved to be C01C.step's (read_is_step, move_is_step, setl_is_step).  Proved for all operand programs, slots and values: shadow_transparent (native code reaches the same slots and operand stack as the interpreter for every program that passes two static guards - no assignment to a slot while a reference to it is pending; both sides of a conditional leave every pending entry in the same state - from every ordered shadow stack), shapes_static (the guards concern compile-time shapes only), shadow_transparent_false (without the guards the statement is false).  jit2/cgen.rs has neither guard: the decided witnesses k02g_witness (set! of a pending reference: 6 instead of 3), k02i_witness (a moving read inside one branch: #<void> operand), k02n_else_spills_witness and lp_then_spills_witness (only one side of a conditional spills: operands never pushed / pushed twice, the self tail call takes shifted arguments and never terminates), both_move_not_compiled (Cranelift's verifier rejects the function) are the operand programs of K02g, K02i, K02n and of the reported lp loop with the values the real engine gives.  This LOCATES the cause of K02n and K02i (one defect: the state after a join is the else branch's) and K02g; the class predicates of K02i/K02n/K02o in this check are now by cause (a variable occurring on some paths only of a later operand; a two-way branch under a pending operand exactly one side of which spills), no longer the syntactic constant-test shape.  Not modelled: let scopes, nested conditionals, errors/deoptimisation, the Cranelift emission.  Open findings reproduced by the run: K02a (inlined global assigned later: stale copies to a configuration-dependent depth), K02c (STEEL_MODULE_INLINE turns value imports into live bindings), K02f (recursive inliner and a procedure that assigns its own parameter), K02g / K02i (native code keeps a local operand as a reference to its slot: a later set! or moving read changes it), K02h (stack-overflow diagnostic prints the instruction listing), K02j (a panic under a native frame aborts instead of unwinding), K02k (null? test on an empty vector). Repaired after being found by this check and now regression inputs of the corpus (a recurrence is a VIOLATION): K02b (afee3c69 recursive inliner ignored the operand count), K02d (e847bfbf stale module AST defeated the set_bang guard), K02e (89a126cc errors inside native library code were lost or aborted the process).",
    "level_note": "Trusted: Lean kernel, the translator regexes, harness/driver/comparison, generator coverage. The model of the inliner is my transcription on the lowered core (absolute stack offsets) of analysis.rs inline_function_calls/inline_handle_define; it is tied to the code only by the differential run (model value = value under every configuration on fragment programs and model histories).",
}

SEP = "\n;;;===\n"
PSEP = "\n;;;---\n"
SWITCH_NAMES = ["STEEL_JIT", "STEEL_INLINE", "STEEL_INLINE_RECURSIVE", "STEEL_CLOSURE_LIFTING", "STEEL_MODULE_INLINE"]


# ---------------------------------------------------------------------------------------------------------
# records

def parse_records(text):
    """-> list (per program) of list (per piece) of dict(out, res)."""
    progs, cur = [], []
    for line in text.split("\n"):
        if line.startswith("\x1eB"):
            progs.append([])
            cur = []
        elif not progs:
            continue
        elif line[:2] in ("\x1eV", "\x1eE", "\x1eP"):
            if line[1] == "V":
                # all values, `#<void>` included: configurations are compared on exactly what was returned
                res = ("ok", tuple(v for v in line[3:].split("\x1f") if v))
            elif line[1] == "E":
                res = ("err", line[3:].split(" | ")[0].strip())
            else:
                res = ("panic", line[3:].strip()[:120])
            progs[-1].append({"out": "\n".join(cur).strip("\n"), "res": res})
            cur = []
        else:
            cur.append(line)
    return progs


def same(a, b, kinds=True):
    if a is None or b is None:
        return a is b
    if a["res"][0] != b["res"][0] or a["out"] != b["out"]:
        return False
    if a["res"][0] == "ok":
        return a["res"][1] == b["res"][1]
    if a["res"][0] == "err" and kinds:
        return a["res"][1] == b["res"][1]
    return True


def novoid(rec):
    if rec is None or rec["res"][0] != "ok":
        return rec
    return {"out": rec["out"], "res": ("ok", tuple(v for v in rec["res"][1] if v != "#<void>"))}


def same_as_spec(r, s):
    """real record vs reference semantics: outcome class, output, non-void values (S has no error kinds; the
    engine returns one more `#<void>` per unit than S)."""
    return same(novoid(r), novoid(s), kinds=False)


def cfg_name(cfg):
    return "".join("1" if b else "0" for b in cfg)


def cfg_env(cfg, values):
    env = {}
    for name, on in zip(SWITCH_NAMES, cfg):
        if on:
            env[name] = values[name]
    return env


def cfg_text(cfg, values):
    e = cfg_env(cfg, values)
    return " ".join("%s=%s" % kv for kv in sorted(e.items())) or "(all switches unset)"


PIECE_LIMIT_MS = {"v": 12000}


def child_env(extra):
    e = {k: v for k, v in os.environ.items() if not k.startswith("STEEL_")}
    e.update(extra)
    # native code that never returns (K02n/K02o: a self tail call with shifted arguments) cannot be interrupted:
    # the harness ends the child when one piece runs longer than this
    e["C02_PIECE_LIMIT_MS"] = str(PIECE_LIMIT_MS["v"])
    return e


def run_chunk(items, idxs, env, results, timeout=150):
    """Run items[idxs] in one child process under `env`; a child that dies (abort, stack overflow, timeout) loses
    only the program it was running: the rest of the chunk is run again in a new child."""
    import subprocess
    todo = list(idxs)
    while todo:
        text = SEP.join(PSEP.join(items[i]) for i in todo) + "\n"
        try:
            p = subprocess.run([C.bin_path("c02")], input=text, stdout=subprocess.PIPE, stderr=subprocess.PIPE,
                               timeout=timeout, text=True, env=child_env(env), errors="replace")
            rc, out, err = p.returncode, p.stdout, p.stderr
        except subprocess.TimeoutExpired as ex:
            out = ex.stdout or ""
            if isinstance(out, bytes):
                out = out.decode(errors="replace")
            rc, err = 124, "timeout"
        recs = parse_records(out)
        k = 0
        for k, i in enumerate(todo):
            if k < len(recs) and len(recs[k]) == len(items[i]):
                results[i] = recs[k]
            else:
                break
        else:
            return
        if rc == 86 and k > 0:
            # the child stopped on purpose after a program in which the engine panicked: the records of the first k
            # programs are complete, the rest runs in a fresh process
            todo = todo[k:]
            continue
        i = todo[k]
        if rc == 87:
            # the harness ended the child because one piece ran longer than the limit.  On a loaded machine a long but
            # finite piece (a 10^7-frame recursion that ends in the stack-overflow error) crosses the limit in one
            # configuration and not in another: the item runs once more, alone, with eight times the limit, and only
            # if it exceeds that too is it recorded as not answering
            e2 = child_env(env)
            e2["C02_PIECE_LIMIT_MS"] = str(PIECE_LIMIT_MS["v"] * 8)
            try:
                p2 = subprocess.run([C.bin_path("c02")], input=PSEP.join(items[i]) + "\n", stdout=subprocess.PIPE, stderr=subprocess.PIPE,
                                    timeout=timeout + PIECE_LIMIT_MS["v"] * 8 // 1000 * len(items[i]), text=True, env=e2, errors="replace")
                r2 = parse_records(p2.stdout)
                if r2 and len(r2[0]) == len(items[i]):
                    results[i] = r2[0]
                    todo = todo[k + 1:]
                    continue
            except subprocess.TimeoutExpired:
                pass
        why = "timeout" if rc == 124 else "exit %d: %s" % (rc, " ".join((err or "").strip().splitlines()[-1:])[:160])
        got = recs[k] if k < len(recs) else []
        crash = {"out": "", "res": ("crash", why)}
        results[i] = got + [crash] + [None] * (len(items[i]) - len(got) - 1)
        todo = todo[k + 1:]


def run_config(items, env, workers, timeout=600):
    """items: list of programs (each a list of piece texts).  Returns list of list of records (None for a piece
    that was not reached because the child died)."""
    n = len(items)
    results = [None] * n
    chunks = [list(range(i, n, workers)) for i in range(workers)]
    C.pool_map(lambda c: run_chunk(items, c, env, results, timeout), [c for c in chunks if c], workers=workers)
    return results


CHUNK = 8


def run_all_configs(items, configs, values):
    """-> dict cfg_name -> results.  One flat list of (configuration, chunk of items) tasks on NCPU workers; the
    chunking is the same for every configuration (an item always shares its child process with the same items)."""
    n = len(items)
    out = {cfg_name(c): [None] * n for c in configs}
    nchunks = max(1, (n + CHUNK - 1) // CHUNK)
    chunks = [list(range(i, n, nchunks)) for i in range(nchunks)]
    tasks = [(c, ch) for ch in chunks if ch for c in configs]
    C.pool_map(lambda t: run_chunk(items, t[1], cfg_env(t[0], values), out[cfg_name(t[0])]), tasks, workers=C.NCPU)
    return out


def run_spec(items, timeout=60):
    """The reference semantics on all items in one driver process; when that does not finish (a generated
    program that does not terminate makes the fuelled evaluator very slow) every item is run on its own with a
    short limit and the ones that still do not finish get the record `timeout` (they are skipped, not judged)."""
    text = SEP.join(PSEP.join(p) for p in items) + "\n"
    rc, out, err = C.run_bin([C.driver_path("c02driver")], text, timeout=timeout)
    recs = parse_records(out)
    if rc == 0 and len(recs) == len(items):
        return recs, rc

    def one(it):
        rc1, out1, _ = C.run_bin([C.driver_path("c02driver")], PSEP.join(it) + "\n", timeout=15)
        r = parse_records(out1)
        if rc1 == 0 and len(r) == 1 and len(r[0]) == len(it):
            return r[0]
        return [{"out": "", "res": ("err", "timeout")} for _ in it]

    return C.pool_map(one, items), 0


def load_switches():
    rc, out, err = C.run_bin([C.driver_path("c02driver"), "switches"], "", timeout=60)
    values, quick, thorough, extracted = {}, [], [], []
    for line in out.splitlines():
        t = line.split()
        if not t:
            continue
        if t[0] == "switch":
            extracted.append(line)
        elif t[0] == "modelled":
            for kv in t[1:]:
                k, v = kv.split("=", 1)
                values[k] = v
        elif t[0] == "quick":
            quick = [tuple(c == "1" for c in w) for w in t[1:]]
        elif t[0] == "thorough":
            thorough = [tuple(c == "1" for c in w) for w in t[1:]]
    return values, quick, thorough, extracted


# ---------------------------------------------------------------------------------------------------------
# comparison of one batch

class Batch:
    def __init__(self, label):
        self.label = label
        self.items = []      # list of list of piece texts (what the real engine sees)
        self.spec = []       # same shape, text for the reference semantics (None = same as items)
        self.cls = []        # per item: list of bool per piece (inside the class of K02a) or None
        self.model = []      # per item: expected values from the Lean model (dict) or None
        self.meta = []
        self.nospec = False  # the reference semantics has no reading of these items (modules)

    def add(self, pieces, spec=None, cls=None, model=None, meta=None):
        self.items.append(list(pieces))
        self.spec.append(list(spec) if spec is not None else list(pieces))
        self.cls.append(cls)
        self.model.append(model)
        self.meta.append(meta)


def first_difference(recs_by_cfg, i, npieces, order):
    """First piece at which some configuration differs from the first one: (piece, cfgA, cfgB) or None."""
    base = order[0]
    for j in range(npieces):
        a = recs_by_cfg[base][i][j] if recs_by_cfg[base][i] else None
        for c in order[1:]:
            b = recs_by_cfg[c][i][j] if recs_by_cfg[c][i] else None
            if not same(a, b):
                return j, base, c
    return None


def shrink(pieces, cfg_a, cfg_b, values, budget_s=45):
    """Greedy line removal while configurations a and b still produce different records."""
    t0 = time.time()

    def differs(ps):
        ra = run_config([ps], cfg_env(cfg_a, values), 1, timeout=60)[0]
        rb = run_config([ps], cfg_env(cfg_b, values), 1, timeout=60)[0]
        if ra is None or rb is None:
            return ra is not rb
        return any(not same(x, y) for x, y in zip(ra, rb))

    cur = [p.split("\n") for p in pieces]
    if not differs(["\n".join(p) for p in cur]):
        return pieces
    changed = True
    while changed and time.time() - t0 < budget_s:
        changed = False
        for pi in range(len(cur) - 1, -1, -1):
            for li in range(len(cur[pi]) - 1, -1, -1):
                if time.time() - t0 > budget_s:
                    break
                cand = [list(p) for p in cur]
                del cand[pi][li]
                cand = [p for p in cand if p]
                if cand and differs(["\n".join(p) for p in cand]):
                    cur = cand
                    changed = True
                    break
            if changed:
                break
    return ["\n".join(p) for p in cur]


def replay_text(pieces, cfg_a, cfg_b, rec_a, rec_b, values, piece_no, note=""):
    lines = ["# C02: two configurations disagree (replay: ./check C02 --replay <this file>)",
             "# config A: %s  [%s]" % (cfg_text(cfg_a, values), cfg_name(cfg_a)),
             "# config B: %s  [%s]" % (cfg_text(cfg_b, values), cfg_name(cfg_b)),
             "# first differing piece: %d" % piece_no,
             "# A: %s output=%r" % (rec_a["res"] if rec_a else None, (rec_a or {}).get("out", "")[:200]),
             "# B: %s output=%r" % (rec_b["res"] if rec_b else None, (rec_b or {}).get("out", "")[:200])]
    if note:
        lines.append("# " + note)
    return "\n".join(lines) + "\n" + PSEP.join(pieces) + "\n"


def own_findings():
    """Findings of this property that are written up under findings/ but not yet listed by the coordinator."""
    out = {}
    d = os.path.join(C.VERIF, "findings")
    for fn in sorted(os.listdir(d)) if os.path.isdir(d) else []:
        m = re.match(r"C02-(K02[a-z])\.(txt|scm)$", fn)
        if m:
            first = open(os.path.join(d, fn)).readline().strip().lstrip("#; ").strip()
            out[m.group(1)] = "class=%s replay=findings/%s %s (not yet in KNOWN_FINDINGS.txt)" % (CLASS_NAMES.get(m.group(1), "?"), fn, first)
    return out


CLASS_NAMES = {
    "K02a": "global_defined_and_used_in_one_unit_assigned_later",
    "K02b": "wrong_operand_count_call_under_recursive_inliner",
    "K02c": "export_assigned_inside_its_module_after_import",
    "K02d": "module_procedure_assigned_inside_its_module",
    "K02e": "primitive_error_inside_jit_compiled_library_or_module_procedure",
    "K02f": "procedure_with_assigned_parameter_under_recursive_inliner",
    "K02g": "local_read_as_operand_then_assigned_by_later_operand_in_native_code",
    "K02h": "stack_overflow_diagnostic_prints_instruction_listing",
    "K02i": "local_read_as_operand_then_moved_by_later_operand_in_native_code",
    "K02j": "panic_inside_native_frame_aborts_instead_of_unwinding",
    "K02k": "null_test_on_empty_vector",
    "K02l": "computed_operator_with_nine_or_more_operands_in_native_code",
    "K02m": "list_of_nine_or_more_operands_nested_as_later_operand_in_native_code",
    "K02n": "conditional_with_constant_test_as_operand_in_recursive_module_procedure",
    "K02o": "conditional_as_later_operand_whose_branches_differ_in_spilling_the_pending_operands",
    "K02p": "return_bang_before_the_end_of_a_natively_compiled_procedure",
}
CLASS_ALIASES = {"K02a": ("global_defined_and_read_in_one_unit_assigned_later",)}   # K06a: the same defect seen by C06
IDX_INLINE_RECURSIVE = SWITCH_NAMES.index("STEEL_INLINE_RECURSIVE")
IDX_MODULE_INLINE = SWITCH_NAMES.index("STEEL_MODULE_INLINE")
IDX_INLINE = SWITCH_NAMES.index("STEEL_INLINE")
IDX_JIT = SWITCH_NAMES.index("STEEL_JIT")


def k02e_signature(r_on, r_off):
    """The native configuration deviates from the interpreter only where the interpreter reports an error:
    the whole piece fails / the process dies, or - value by value - every differing position is an error
    marker on the interpreter's side."""
    if r_on is None or r_off is None:
        return False
    if same(r_on, r_off):
        return False
    if r_off["res"][0] != "ok" or r_on["res"][0] != "ok":
        return True                      # shows_error(r_off) is checked by the caller
    a, b = r_on["res"][1], r_off["res"][1]
    if len(a) != len(b):
        return False
    vals_ok = all(x == y or re.search(r"\berr\b", y) for x, y in zip(a, b))
    lon, loff = r_on["out"].split("\n"), r_off["out"].split("\n")
    out_ok = r_on["out"] == r_off["out"] or (
        len(lon) == len(loff) and all(x == y or re.search(r"\berr\b", y) for x, y in zip(lon, loff)))
    return vals_ok and out_ok


SPECIAL = {"define", "lambda", "let", "let*", "letrec", "letrec*", "if", "cond", "begin", "set!", "quote", "when", "unless",
           "and", "or", "with-handler", "require", "provide", "case"}


def _contains(x, pred):
    if pred(x):
        return True
    return isinstance(x, list) and any(_contains(y, pred) for y in x)


def _applications(forms):
    """All lists that are procedure applications (head is not a special form), at any depth."""
    out = []

    def walk(x):
        if not isinstance(x, list) or not x:
            return
        if x[0] == "quote":
            return
        if isinstance(x[0], str) and x[0] == "let" and len(x) > 2 and isinstance(x[1], list):
            for b in x[1]:
                if isinstance(b, list) and len(b) == 2:
                    walk(b[1])
            for y in x[2:]:
                walk(y)
            return
        if not (isinstance(x[0], str) and x[0] in SPECIAL):
            out.append(x)
        for y in x:
            walk(y)

    for f in forms:
        walk(f)
    return out


def operand_assigned_later(text):
    """K02g: an application has a bare variable as an operand and a LATER operand that assigns that variable."""
    for app in _applications(read_sexps(text)):
        for i, a in enumerate(app[1:], 1):
            if isinstance(a, str) and re.match(r"[A-Za-z]", a):
                for b in app[i + 1:]:
                    if _contains(b, lambda y, a=a: isinstance(y, list) and len(y) >= 2 and y[0] == "set!" and y[1] == a):
                        return True
    return False


CONDITIONALS = ("if", "cond", "and", "or", "when", "unless", "case")


def _occurs(x, v):
    return _contains(x, lambda y: y == v)


def _occurs_in_branches(y, v):
    """v occurs in a part of the conditional form y that only some paths through y evaluate."""
    if not isinstance(y, list) or not y or y[0] not in CONDITIONALS:
        return False
    if y[0] in ("if", "when", "unless"):
        return any(_occurs(b, v) for b in y[2:])
    if y[0] in ("and", "or"):
        return any(_occurs(b, v) for b in y[2:])
    if y[0] == "cond":
        cl = [c for c in y[1:] if isinstance(c, list) and c]
        return any(_occurs(c[1:], v) for c in cl[:1]) or any(_occurs(c, v) for c in cl[1:])
    return any(_occurs(b, v) for b in y[2:])          # case: the clauses


def operand_moved_later(text):
    """K02i (by cause): an application has a bare variable v as an operand - native code keeps it as a reference to
    v's slot - and a LATER operand contains a conditional in which v occurs on some paths only.  v's last read is a
    moving read; inside a branch it materialises the pending reference on that path only, and the state after the
    join is the else branch's (cgen.rs translate_if_else_value)."""
    for app in _applications(read_sexps(text)):
        for i, a in enumerate(app[1:], 1):
            if isinstance(a, str) and re.match(r"[A-Za-z]", a):
                for b in app[i + 1:]:
                    if _contains(b, lambda y, a=a: _occurs_in_branches(y, a)):
                        return True
    return False


# op codes the native tier translates without spilling the pending operands (cgen.rs op_to_name_payload); in module
# code the primitives of these names compile to them, every other call goes through call_global_function /
# call_function, which spill the shadow stack first.  At top level every call is a CALLGLOBAL.
NO_SPILL_PRIMS = {"+", "-", "*", "/", "<", "<=", ">", ">=", "=", "equal?", "car", "cdr", "cons", "not", "null?", "box",
                  "unbox", "set-box!", "list-ref", "vector-ref"}
LET_FORMS = ("let", "let*", "letrec", "letrec*", "or", "case", "do")


def _spills(x, module_mode):
    """x contains (outside lambdas) something that makes native code spill the pending operands: a call that is
    not translated inline, or a let scope (BEGINSCOPE)."""
    if not isinstance(x, list) or not x:
        return False
    if x[0] in ("quote", "lambda"):
        return False
    if x[0] in LET_FORMS:
        return True
    if x[0] == "cond":
        return any(_spills(e, module_mode) for c in x[1:] if isinstance(c, list) for e in c)
    if isinstance(x[0], list):
        return True
    if isinstance(x[0], str) and x[0] not in SPECIAL:
        if not (module_mode and x[0] in NO_SPILL_PRIMS and len(x) - 1 <= 2):
            return True
    return any(_spills(y, module_mode) for y in x[1:])


def _desugar_conditional(y):
    """-> (test, then, else) of the outermost two-way branch of a conditional form, or None."""
    if y[0] == "if" and len(y) >= 3:
        return y[1], y[2], (y[3] if len(y) > 3 else "#<void>")
    if y[0] == "when" and len(y) >= 2:
        return y[1], ["begin"] + y[2:], "#<void>"
    if y[0] == "unless" and len(y) >= 2:
        return y[1], "#<void>", ["begin"] + y[2:]
    if y[0] == "and" and len(y) >= 3:
        return y[1], (["and"] + y[2:] if len(y) > 3 else y[2]), "#f"
    if y[0] == "cond" and len(y) >= 2 and isinstance(y[1], list) and y[1]:
        c = y[1]
        rest = ["cond"] + y[2:] if len(y) > 2 else "#<void>"
        if c[0] == "else":
            return None
        return c[0], (["begin"] + c[1:] if len(c) > 1 else c[0]), rest
    return None


def branch_spill_asymmetry(text):
    """K02n / K02o (by cause): a two-way branch is evaluated while an operand of an enclosing application is still
    pending on the native code generator's shadow stack, and exactly one of its two sides contains something that
    spills the pending operands (a call that is not translated inline, a let scope).  The state after the join is
    the else side's (cgen.rs translate_if_else_value): on the then path the pending operands are then pushed twice
    or not at all."""
    module_mode = "(require " in text
    hit = []

    def walk(x, pending):
        if hit or not isinstance(x, list) or not x:
            return
        h = x[0]
        if h == "quote":
            return
        if h == "lambda":
            for y in x[2:]:
                walk(y, False)
            return
        if h == "define":
            for y in x[2:]:
                walk(y, False)
            return
        if h in ("let", "let*", "letrec", "letrec*", "do"):
            # BEGINSCOPE spills everything that is pending: nothing is pending inside
            for y in x[1:]:
                if isinstance(y, list):
                    for z in (y if (y and isinstance(y[0], list)) else [y]):
                        walk(z if not (isinstance(z, list) and len(z) == 2 and isinstance(z[0], str)) else z[1], False)
            return
        if h in ("or", "case"):
            for y in x[1:]:
                walk(y, False)
            return
        if h in ("begin", "set!"):
            for y in x[1:]:
                walk(y, pending)
            return
        if h in ("if", "when", "unless", "and", "cond"):
            d = _desugar_conditional(x)
            if d is None:
                for y in x[1:]:
                    walk(y, pending)
                return
            t, a, b = d
            if pending and _spills(a, module_mode) != _spills(b, module_mode):
                hit.append(x)
                return
            walk(t, pending)
            walk(a, pending)
            walk(b, pending)
            return
        if h == "with-handler":
            for y in x[1:]:
                walk(y, False)
            return
        # an application: operand i is evaluated while operands 1..i-1 (and whatever was pending outside) wait
        if isinstance(h, list):
            walk(h, pending or len(x) > 1)
        for i, y in enumerate(x[1:], 1):
            walk(y, pending or i >= 2)

    for f in read_sexps(text):
        walk(f, False)
    return bool(hit)


def computed_call_many_operands(text):
    """K02l: an application whose operator is itself an application (a computed procedure value) or which passes
    9 or more operands to a variable that is a parameter of the enclosing procedure - approximated by: any
    application with >= 9 operands whose operator is a list, or a symbol bound as a parameter somewhere in the text."""
    forms = read_sexps(text)
    params = set()

    def collect(x):
        if isinstance(x, list) and x:
            if x[0] == "define" and len(x) > 1 and isinstance(x[1], list):
                params.update(p for p in x[1][1:] if isinstance(p, str))
            if x[0] == "lambda" and len(x) > 1 and isinstance(x[1], list):
                params.update(p for p in x[1] if isinstance(p, str))
            for y in x:
                collect(y)

    collect(forms)
    for app in _applications(forms):
        if len(app) - 1 >= 9 and (isinstance(app[0], list) or app[0] in params):
            return True
    return False


def long_list_as_later_operand(text):
    """K02m: an application has, after its first operand, an operand of the form (list e1 ... en) with n >= 9."""
    for app in _applications(read_sexps(text)):
        for b in app[2:]:
            if isinstance(b, list) and b and b[0] == "list" and len(b) - 1 >= 9:
                return True
    return False


def const_test_if_operand(text):
    """K02n: some application has an operand that is or contains a conditional whose test is a constant:
    (if <literal> ...), (if (<cmp> <literal> <literal>) ...), or a cond clause with such a test."""
    lit = lambda y: isinstance(y, str) and re.fullmatch(r"-?\d+|#t|#f|#true|#false", y) is not None
    const_test = lambda t: lit(t) or (isinstance(t, list) and len(t) == 3 and isinstance(t[0], str) and all(lit(z) for z in t[1:]))

    def const_cond(y):
        if not isinstance(y, list) or len(y) < 3:
            return False
        if y[0] == "if":
            return const_test(y[1])
        if y[0] == "cond":
            return any(isinstance(c, list) and c and const_test(c[0]) for c in y[1:])
        return False

    for app in _applications(read_sexps(text)):
        if any(_contains(b, const_cond) for b in app[1:]):
            return True
    return False


def assigned_parameter_called(pieces):
    """K02f: a piece defines a procedure that assigns one of its own parameters and also calls that procedure."""
    for piece in pieces:
        forms = read_sexps(piece)
        names = []
        for f in forms:
            if isinstance(f, list) and len(f) >= 3 and f[0] == "define" and isinstance(f[1], list) and f[1] and \
                    all(isinstance(x, str) for x in f[1]):
                params = f[1][1:]
                if any(_contains(f[2:], lambda y, p=p: isinstance(y, list) and len(y) >= 2 and y[0] == "set!" and y[1] == p) for p in params):
                    names.append(f[1][0])
        for n in names:
            cnt = sum(1 for a in _applications(forms) if a[0] == n)
            if cnt >= 1:
                return True
    return False


DUMP_LINE = re.compile(r"^\s*\d+\s+[A-Za-z0-9]+\s+:\s+\d+\s*$")


def only_dump_differs(ra, rb):
    """K02h: both fail the same way and the outputs are equal once the lines of the instruction listing are removed."""
    if ra is None or rb is None or ra["res"] != rb["res"] or ra["res"][0] != "err":
        return False
    strip = lambda o: [l for l in o.split("\n") if not DUMP_LINE.match(l)]
    return ra["out"] != rb["out"] and strip(ra["out"]) == strip(rb["out"])


def item_text(batch, i):
    cls = batch.cls[i]
    extra = cls.get("text", "") if isinstance(cls, dict) else ""
    return "\n".join(batch.items[i]) + "\n" + extra


def shows_error(rec):
    """The record of a piece under the interpreter shows that an error was raised: the piece failed, or a
    handler of the generated programs returned its marker (`err`, or the constant 42 of the arity pieces)."""
    if rec is None:
        return False
    if rec["res"][0] != "ok":
        return True
    return any(re.search(r"\berr\b", v) for v in rec["res"][1]) or bool(re.search(r"\berr\b", rec["out"]))


def in_class(cls, kid, j):
    """cls: None | list of bool (K02a per piece) | dict kid -> bool / list of bool."""
    if cls is None:
        return False
    if isinstance(cls, list):
        cls = {"K02a": cls}
    v = cls.get(kid)
    if isinstance(v, list):
        return bool(j < len(v) and v[j])
    return bool(v)


def read_sexps(text):
    """A small reader: nested lists of atoms (strings); quotes, strings and comments handled approximately."""
    toks = re.findall(r'"(?:\\.|[^"\\])*"|;[^\n]*|[()\[\]]|[^\s()\[\]]+', text)
    stack = [[]]
    for t in toks:
        if t.startswith(";"):
            continue
        if t in "([":
            stack.append([])
        elif t in ")]":
            if len(stack) > 1:
                x = stack.pop()
                stack[-1].append(x)
        else:
            stack[-1].append(t)
    while len(stack) > 1:
        x = stack.pop()
        stack[-1].append(x)
    return stack[0]


def wrong_arity_call(pieces):
    """Class predicate of K02b: some call `(f a1 … ak)` names a procedure defined by `(define (f p1 … pn) …)`
    without rest parameter, in the same piece, with k != n."""
    for piece in pieces:
        forms = read_sexps(piece)
        ar = {}
        for f in forms:
            if isinstance(f, list) and len(f) >= 2 and f[0] == "define" and isinstance(f[1], list) and f[1] \
                    and all(isinstance(x, str) for x in f[1]) and "." not in f[1]:
                ar.setdefault(f[1][0], set()).add(len(f[1]) - 1)
        hit = []

        def walk(x, top):
            if not isinstance(x, list) or not x:
                return
            if x[0] == "quote":
                return
            if x[0] == "define" and len(x) >= 2 and isinstance(x[1], list):
                for y in x[2:]:
                    walk(y, False)
                return
            if x[0] == "lambda" and len(x) >= 2:
                for y in x[2:]:
                    walk(y, False)
                return
            if isinstance(x[0], str) and x[0] in ar and (len(x) - 1) not in ar[x[0]]:
                hit.append(x[0])
            for y in x:
                walk(y, False)

        for f in forms:
            walk(f, True)
        if hit:
            return True
    return False


def process_many(ctx, batches, configs, values, stats, known):
    """All batches in one pool (no barrier between batches), then the verdicts batch by batch."""
    batches = [b for b in batches if b.items]
    items = [it for b in batches for it in b.items]
    t = time.time()
    allrecs = run_all_configs(items, configs, values)
    ctx.log("%d items x %d configurations in %.0fs (%s)" % (len(items), len(configs), time.time() - t,
                                                           ", ".join("%s %d" % (b.label, len(b.items)) for b in batches)))
    off = 0
    for b in batches:
        recs = {name: r[off: off + len(b.items)] for name, r in allrecs.items()}
        off += len(b.items)
        t1 = time.time()
        process(ctx, b, configs, values, stats, known, recs)
        if time.time() - t1 > 5:
            ctx.log("verdicts of %s took %.0fs" % (b.label, time.time() - t1))


def process(ctx, batch, configs, values, stats, known, recs=None):
    if not batch.items:
        return
    t = time.time()
    names = [cfg_name(c) for c in configs]
    by_name = dict(zip(names, configs))
    if recs is None:
        recs = run_all_configs(batch.items, configs, values)
        ctx.log("%s: %d items x %d configurations in %.0fs" % (batch.label, len(batch.items), len(configs), time.time() - t))
    def skip_spec(i):
        cls = batch.cls[i]
        return (isinstance(cls, dict) and cls.get("nospec")) or any("(require " in p or "#%prim." in p for p in batch.items[i])

    # items the reference semantics has no reading of (modules, qualified builtins) or cannot finish are replaced by `0`
    spec, src = ([None] * len(batch.items), 0) if batch.nospec else \
        run_spec([["0"] if skip_spec(i) else sp for i, sp in enumerate(batch.spec)])
    if src != 0 or len(spec) != len(batch.items):
        ctx.notes.append("%s: reference evaluator returned %d of %d items (rc=%d)" % (batch.label, len(spec), len(batch.items), src))
        spec = spec + [None] * (len(batch.items) - len(spec))
    for i, pieces in enumerate(batch.items):
        stats["items"] += 1
        stats["pieces"] += len(pieces)
        stats["evaluations"] += len(pieces) * len(configs)
        stats["seen"].add(PSEP.join(pieces))
        base = recs[names[0]][i]
        for r in base or []:
            if r is not None:
                stats["outcomes"][r["res"][0]] = stats["outcomes"].get(r["res"][0], 0) + 1
        d = first_difference(recs, i, len(pieces), names)
        if d is not None:
            j, ca, cb = d
            ra = recs[ca][i][j] if recs[ca][i] else None
            rb = recs[cb][i][j] if recs[cb][i] else None
            stats["config_differences"] += 1
            k02a = in_class(batch.cls[i], "K02a", j)
            note = ""
            if batch.model[i] is not None:
                note = "model: %s" % batch.model[i].get("text", "")
            attributed = None
            if k02a and "K02a" in known:
                # class predicate holds; on model histories additionally: the default configuration does what the
                # faithful model of the unit-local inliner (one pass, threshold 50) predicts
                attributed = "K02a"
                mod = batch.model[i]
                if mod is not None and j < len(mod["expect"]) and mod["expect"][j] is not None and ra is not None:
                    got = [v for v in ra["res"][1] if not v.startswith("#<")] if ra["res"][0] == "ok" else None
                    stats["model_compared"] += 1
                    if got != mod["expect"][j]:
                        attributed = None
                        stats["model_vs_real"] += 1
                        note += " ; default configuration %s but the model of the inliner predicts %s" % (got, mod["expect"][j])
            elif "K02b" in known and wrong_arity_call(pieces[: j + 1]) and \
                    first_difference(recs, i, j + 1, [n for n in names if n[IDX_INLINE_RECURSIVE] == "0"]) is None:
                # only the configurations with STEEL_INLINE_RECURSIVE deviate
                attributed = "K02b"
            elif "K02c" in known and in_class(batch.cls[i], "K02c", j) and \
                    first_difference(recs, i, j + 1, [n for n in names if n[IDX_MODULE_INLINE] == "0"]) is None and \
                    first_difference(recs, i, j + 1, [n for n in names if n[IDX_MODULE_INLINE] == "1"]) is None:
                # the configurations split exactly along STEEL_MODULE_INLINE
                attributed = "K02c"
            elif "K02d" in known and in_class(batch.cls[i], "K02c", j) and \
                    first_difference(recs, i, j + 1, [n for n in names if n[IDX_MODULE_INLINE] == "0" and n[IDX_INLINE] == "0"]) is None:
                # a module that assigns its own procedure; only configurations with STEEL_INLINE or
                # STEEL_MODULE_INLINE deviate from the default
                attributed = "K02d"
            off = [n for n in names if n[IDX_JIT] == "1"]     # bit set = STEEL_JIT=false
            on = [n for n in names if n[IDX_JIT] == "0"]
            jit_split = bool(off and on) and first_difference(recs, i, j + 1, off) is None
            if attributed is None and "K02j" in known and jit_split and off:
                r_off = recs[off[0]][i][j] if recs[off[0]][i] else None
                if r_off is not None and r_off["res"][0] == "panic" and \
                        all((recs[n][i][j] if recs[n][i] else None) is not None and recs[n][i][j]["res"][0] in ("crash", "panic") for n in on):
                    # the engine panics in every configuration (that is C07's subject); under the interpreter the
                    # host can catch the unwind, inside a native frame the panic cannot unwind and the process aborts
                    attributed = "K02j"
            if attributed is None and "K02l" in known and jit_split and computed_call_many_operands(item_text(batch, i)):
                r_off = recs[off[0]][i][j] if recs[off[0]][i] else None
                if r_off is not None and all((recs[n][i][j] if recs[n][i] else None) is not None and
                                             recs[n][i][j]["res"][0] in ("panic", "crash") for n in on):
                    attributed = "K02l"
            if attributed is None and "K02m" in known and jit_split and long_list_as_later_operand(item_text(batch, i)):
                attributed = "K02m"
            if attributed is None and jit_split and ("K02n" in known or "K02o" in known) and \
                    branch_spill_asymmetry(item_text(batch, i)):
                # the located cause (the state of the pending operands is not merged at a join); K02n is the listing
                # of its module-level instances with a constant test, K02o of all others
                if "K02o" in known and ("K02n" not in known or not const_test_if_operand(item_text(batch, i))):
                    attributed = "K02o"
                elif "K02n" in known:
                    attributed = "K02n"
            if attributed is None and "K02p" in known and jit_split and "(return! " in item_text(batch, i):
                # a POPPURE that is not the last instruction of the body (return!) does not leave native code
                attributed = "K02p"
            if attributed is None and "K02h" in known and only_dump_differs(ra, rb):
                attributed = "K02h"
            if attributed is None and "K02f" in known and assigned_parameter_called(pieces[: j + 1]) and \
                    first_difference(recs, i, j + 1, [n for n in names if n[IDX_INLINE_RECURSIVE] == "0" and n[IDX_INLINE] == "0"]) is None:
                # only the extra inlining passes (STEEL_INLINE: second pass, STEEL_INLINE_RECURSIVE) change the result
                attributed = "K02f"
            if attributed is None and jit_split and "K02g" in known and operand_assigned_later(item_text(batch, i)):
                attributed = "K02g"
            if attributed is None and jit_split and "K02i" in known and operand_moved_later(item_text(batch, i)):
                attributed = "K02i"
            if attributed is None and jit_split and "K02k" in known and "(vector)" in item_text(batch, i) and \
                    re.search(r"null\?|foldl|foldr|reduce|filter|\(map ", item_text(batch, i)):
                # an (empty) vector reaches a (if (null? l) ...) test, directly or inside a list-library procedure
                attributed = "K02k"
            if attributed is None and "K02e" in known:
                off = [n for n in names if n[IDX_JIT] == "1"]     # bit set = STEEL_JIT=false
                on = [n for n in names if n[IDX_JIT] == "0"]
                r_off = recs[off[0]][i][j] if off and recs[off[0]][i] else None
                # the interpreter configurations agree with each other and report an error at this piece; every
                # native configuration deviates from them
                if off and on and first_difference(recs, i, j + 1, off) is None and shows_error(r_off) and \
                        all(k02e_signature(recs[n][i][j] if recs[n][i] else None, r_off) for n in on):
                    attributed = "K02e"
            if attributed:
                ctx.known_finding("id=%s %s" % (attributed, known[attributed]))
                stats["known_hits"][attributed] = stats["known_hits"].get(attributed, 0) + 1
                if sum(1 for x in stats["known_samples"] if x["id"] == attributed) < 2:
                    stats["known_samples"].append({"id": attributed, "pieces": pieces[: j + 1], "A": cfg_text(by_name[ca], values),
                                                   "B": cfg_text(by_name[cb], values),
                                                   "A_result": str(ra["res"]) if ra else None, "B_result": str(rb["res"]) if rb else None})
                continue
            small = pieces[: j + 1]
            if stats["shrunk"] < 3:
                small = shrink(small, by_name[ca], by_name[cb], values)
                stats["shrunk"] += 1
            if isinstance(batch.meta[i], str) and batch.meta[i].startswith("("):
                note += " ; module source: " + batch.meta[i].replace("\n", " ")[:1500]
            ctx.violation("C02-%s-%d.txt" % (batch.label, i),
                          replay_text(small, by_name[ca], by_name[cb], ra, rb, values, j,
                                      note + (" (original history had %d pieces; in class K02a: %s)" % (len(pieces), k02a))))
            continue
        # all configurations agree: compare with the reference semantics / the model (third parties)
        s = spec[i]
        if base is None or s is None or batch.nospec:
            continue
        if skip_spec(i):
            continue                      # the reference semantics has neither modules nor qualified builtins
        for j, (r, m) in enumerate(zip(base, s)):
            if r is None or m is None:
                break
            if m["res"][0] == "err" and m["res"][1].startswith("timeout"):
                stats["spec_timeouts"] += 1
                break
            if not same_as_spec(r, m):
                stats["agree_but_differ_from_S"] += 1
                inc = in_class(batch.cls[i], "K02a", j)
                key = "in_class_K02a" if inc else "other"
                stats["agree_but_differ_classes"][key] = stats["agree_but_differ_classes"].get(key, 0) + 1
                if len(stats["abd_samples"]) < 4 and not inc:
                    stats["abd_samples"].append({"batch": batch.label, "pieces": pieces[: j + 1], "real(all configs)": str(r["res"]), "S": str(m["res"]),
                                                 "real_out": r["out"][:100], "S_out": m["out"][:100]})
                break
        # model values (fragment programs / model histories)
        mod = batch.model[i]
        if mod is not None and base is not None:
            check_model(ctx, batch, i, base, mod, stats)


def last_values(recs):
    out = []
    for r in recs:
        if r is None:
            out.append("?")
        elif r["res"][0] == "ok":
            out.append(list(r["res"][1]))
        else:
            out.append(r["res"][0])
    return out


def check_model(ctx, batch, i, base, mod, stats):
    """mod['expect']: per piece, the list of values the model predicts (or None = no prediction)."""
    for j, (r, exp) in enumerate(zip(base, mod["expect"])):
        if exp is None or r is None:
            continue
        stats["model_compared"] += 1
        got = [v for v in r["res"][1] if not v.startswith("#<")] if r["res"][0] == "ok" else None   # voids, closures
        if got != exp:
            stats["model_vs_real"] += 1
            if len(stats["model_samples"]) < 4:
                stats["model_samples"].append({"batch": batch.label, "pieces": batch.items[i][: j + 1], "model": exp, "real": str(r["res"])})
            return


# ---------------------------------------------------------------------------------------------------------

def corpus_items():
    out = []
    cdir = os.path.join(C.VERIF, "corpus", "C02")
    for fn in sorted(os.listdir(cdir)) if os.path.isdir(cdir) else []:
        if not os.path.isfile(os.path.join(cdir, fn)):
            continue
        text = "\n".join(l for l in open(os.path.join(cdir, fn)).read().split("\n") if not l.startswith("#"))
        cls = {"K02a": fn.startswith("k02a"), "K02c": fn.startswith("k02c") or fn.startswith("k02d"),
               "nospec": fn.startswith("k02h")}      # unbounded recursion: the reference evaluator would run out its fuel
        for p in text.split(SEP):
            if p.strip():
                pieces = [x.strip("\n") for x in p.strip("\n").split(PSEP)]
                c = dict(cls)
                # the class predicates look at the source of the required corpus modules too
                mods = re.findall(r'\(require "(/verif/corpus/C02/mods/[^"]+)"\)', p)
                c["text"] = "\n".join(open(m).read() for m in mods if os.path.exists(m))
                out.append((fn, pieces, c))
    return out


def frag_batch(rng, n, stats, ctx):
    b = Batch("frag")
    frags = [gen_frag_program(rng, 3) for _ in range(n)]
    rc, mout, _ = C.run_bin([C.driver_path("c02driver"), "frag"], "\n".join(f[0] for f in frags) + "\n", timeout=900)
    mlines = mout.splitlines()
    for k, f in enumerate(frags):
        ml = mlines[k] if k < len(mlines) else ""
        m = re.match(r"ref=(\S+) inl50=(\S+) inl75=(\S+) inl50x75=(\S+) inlined=(\S+)", ml)
        expect = None
        if m:
            ref = m.group(1)
            stats["frag_programs"] += 1
            if m.group(5) == "true":
                stats["frag_with_inlining"] += 1
            if not (ref == m.group(2) == m.group(3) == m.group(4)):
                stats["model_inliner_changes_value"] += 1
                ctx.violation("C02-model-inline-%d.txt" % k, "the model's inlining pass changes the value of a lowered-core program "
                              "(inline_preserves would be false):\n%s\n%s\n" % (f[0], ml), no_input=True)
            if ref != "none" and not f[2]:
                # the value of the last top-level form (K01d-class programs excluded: known C01 finding)
                expect = ref
        b.add([f[1]], model=({"expect": [[expect]], "text": ml} if expect is not None else None))
    return b


def model_hist_batch(rng, n, stats, ctx):
    b = Batch("mhist")
    hs = [gen_model_history(rng, rng.randint(3, 6)) for _ in range(n)]
    hs = [h for h in hs if h[1]]
    rc, mout, _ = C.run_bin([C.driver_path("c02driver"), "hist"], "\n".join(h[0] for h in hs) + "\n", timeout=900)
    ml = mout.splitlines()
    for k, h in enumerate(hs):
        chunk = ml[4 * k: 4 * k + 4]
        if len(chunk) < 4:
            b.add(h[1], spec=h[2])
            continue
        plain = chunk[0].split(":", 1)[1].split()
        inl50 = chunk[1].split(":", 1)[1].split()
        inl75 = chunk[2].split(":", 1)[1].split()
        g = re.match(r"guard50=(\w+) guard75=(\w+)", chunk[3])
        guard = g.group(1) == "true" and g.group(2) == "true"
        stats["model_histories"] += 1
        if guard:
            stats["model_histories_in_guard"] += 1
            if not (plain == inl50 == inl75):
                stats["model_inliner_changes_value"] += 1
                ctx.violation("C02-model-hist-%d.txt" % k, "inside the guard the model's inlining changes an observation "
                              "(inline_history_partial would be false):\n%s\n%s\n" % (h[0], "\n".join(chunk)), no_input=True)
        # distribute the predicted values over the pieces: one value per `eval` form, in order
        expect, pos = [], 0
        pred = plain if guard else inl50
        tainted = False
        cls = []
        for piece_lines in piece_forms(h[0]):
            ne = sum(1 for l in piece_lines if l.startswith("eval "))
            vals = pred[pos: pos + ne]
            # outside the guard the prediction is the default configuration's (threshold 50, one pass)
            expect.append([v for v in vals] if "none" not in vals else None)
            pos += ne
            cls.append(not guard)
        b.add(h[1], spec=h[2], cls=cls, model={"expect": expect, "text": " | ".join(chunk), "guard": guard})
    return b


def piece_forms(driver_text):
    pieces, cur = [], None
    for l in driver_text.split("\n"):
        if l == "piece":
            if cur is not None:
                pieces.append(cur)
            cur = []
        elif l == "end":
            break
        elif cur is not None:
            cur.append(l)
    if cur is not None:
        pieces.append(cur)
    return pieces


def run(ctx):
    stats = {"items": 0, "pieces": 0, "evaluations": 0, "seen": set(), "outcomes": {}, "config_differences": 0,
             "known_hits": {}, "known_samples": [], "shrunk": 0, "agree_but_differ_from_S": 0, "agree_but_differ_classes": {},
             "abd_samples": [], "spec_timeouts": 0, "model_compared": 0, "model_vs_real": 0, "model_samples": [],
             "frag_programs": 0, "frag_with_inlining": 0, "model_inliner_changes_value": 0, "model_histories": 0,
             "model_histories_in_guard": 0, "features": {}}
    # open findings: the lines of KNOWN_FINDINGS.txt for this property (matched by id or by class name)
    known = {}
    for k in ctx.load_known():
        for kid, cname in CLASS_NAMES.items():
            if k.get("id") == kid or k.get("class") in (cname,) + CLASS_ALIASES.get(kid, ()):
                known[kid] = k["text"].split(" ", 3)[-1]
    listed = set(known)
    if os.environ.get("C02_ASSUME_LISTED"):
        # development aid only: behave as if the findings written up under findings/C02-K02*.txt were listed
        for kid, text in own_findings().items():
            known.setdefault(kid, text)
    rc, tout = C.sh(["python3", os.path.join(C.VERIF, "translate", "c02_switches.py")], timeout=120)
    translator_ok = rc == 0
    ctx.log("translator: rc=%d %d switches" % (rc, tout.count("switch ")))
    pr = C.prove(ctx, "C02", ["c02driver"])
    recheck = "not run (thorough tier only)"
    if not ctx.quick() and pr["ok"]:
        with C._Lock("lake"):
            rc2, out2 = C.sh(["lake", "env", "leanchecker", "SteelVerif.C02.Props"], cwd=C.LEAN, timeout=1200)
        recheck = "ok" if rc2 == 0 else "FAILED: " + out2[-500:]
        if rc2 != 0:
            ctx.violation("C02-leanchecker.txt", "leanchecker rejects SteelVerif.C02.Props:\n" + out2[-3000:], no_input=True)
    ok, log = C.build_harness(ctx, ["c02"])
    if not ok or not os.path.exists(C.driver_path("c02driver")):
        ctx.violation("C02-build.txt", "harness or driver does not build:\n" + log + pr["log"][-2000:], no_input=True)
        ctx.coverage = {"obligations": pr["obligations"], "discharged": pr["discharged"],
                        "checker_cmd": "lake build SteelVerif.C02.Props", "trusted_base": C.TRUSTED_BASE}
        return ctx.finish()
    values, quick, thorough, extracted = load_switches()
    configs = quick if ctx.quick() else thorough
    if len(values) != 5 or "?" in values.values() or not configs:
        ctx.violation("C02-switches.txt", "the switch table could not be turned into configurations:\n%s\n%s\n" % (values, "\n".join(extracted)),
                      no_input=True)
        ctx.coverage = {"obligations": pr["obligations"], "discharged": pr["discharged"],
                        "checker_cmd": "lake build SteelVerif.C02.Props", "trusted_base": C.TRUSTED_BASE}
        return ctx.finish()
    # the child really sees the configuration
    seen_env = {}
    for cfg in configs[:4]:
        rc2, out2, _ = C.run_bin([C.bin_path("c02"), "env"], "", timeout=30, env=None)
        import subprocess
        p = subprocess.run([C.bin_path("c02"), "env"], stdin=subprocess.DEVNULL, stdout=subprocess.PIPE, text=True,
                           timeout=30, env=child_env(cfg_env(cfg, values)))
        seen_env[cfg_name(cfg)] = " ".join(l for l in p.stdout.splitlines() if "unset" not in l)
        want = " ".join("%s=%s" % (n, values[n]) for n, on in zip(SWITCH_NAMES, cfg) if on)
        if seen_env[cfg_name(cfg)] != want:
            ctx.violation("C02-env.txt", "child process does not see configuration %s: %r vs %r\n" % (cfg_name(cfg), seen_env[cfg_name(cfg)], want),
                          no_input=True)
    rng = random.Random(ctx.seed)
    # thorough sizes: about a third of the first sizing, so that the complete set of 32 configurations finishes in
    # roughly 15-20 minutes on 16 idle cores (the first sizing needed about 90)
    q = ctx.quick()
    PIECE_LIMIT_MS["v"] = 15000 if q else 30000   # no input of the unchanged tree hangs; a 10^7-frame recursion takes 5-6 s

    batches = []

    # 1. directed corpus (first in the verdict order)
    b = Batch("corpus")
    for fn, pieces, cls in corpus_items():
        b.add(pieces, cls=cls, meta=fn)
    batches.append(b)

    # 2. whole programs
    b = Batch("prog")
    for _ in range(60 if q else 100):
        src, feats = gen_program(rng, 3 if q else 4)
        for f in feats:
            stats["features"][f] = stats["features"].get(f, 0) + 1
        b.add([src])
    batches.append(b)

    # 2b. the same kind of programs evaluated as a MODULE (`(require "<file>")`, which is how `steel file.scm` runs
    #     a script): inside a module the builtins are `#%prim.`-qualified and compile to the specialised op codes
    #     that the native tier implements itself, so this stream reaches far more of the native code than top-level
    #     code does.  Values are made observable by printing them.  (All shapes of gen/progs.py: internal define
    #     sequences, vectors and boxes mutated in let bodies, handlers, apply with rest arguments, dead branches.)
    b = Batch("prog-as-module")
    b.nospec = True
    pm_dir = os.path.join(ctx.scratch, "mods")
    os.makedirs(pm_dir, exist_ok=True)
    want, tries = (40 if q else 80), 0
    while len(b.items) < want and tries < want * 6:
        tries += 1
        src, feats = gen_program(rng, 3 if q else 4)
        forms = [f if f.startswith("(define ") else "(displayln %s)" % f for f in src.split("\n")]
        text = "\n".join(forms) + "\n"
        import hashlib
        path = os.path.join(pm_dir, "prog-%s.scm" % hashlib.sha1(text.encode()).hexdigest()[:12])
        with open(path, "w") as fh:
            fh.write(text)
        stats["features"]["program-as-module"] = stats["features"].get("program-as-module", 0) + 1
        b.add(["(require \"%s\")" % path], meta=text, cls={"text": text})
    batches.append(b)

    # 3. lowered-core programs: model value (evalIR, with and without the model's inlining) = value under every configuration
    batches.append(frag_batch(rng, 36 if q else 60, stats, ctx))

    # 4. whole-language histories: main stream (outside the classes of the findings), the K02a stream (random +
    #    directed patterns) and the K02b patterns
    for stream, n in (("main", 40 if q else 70), ("k02a", 12 if q else 24)):
        b = Batch("hist-" + stream)
        for k in range(n):
            if stream == "k02a" and k % 2 == 0:
                h = gen_k02a_pattern(rng)
            else:
                h = gen_history(rng, rng.randint(6, 12) if q else rng.randint(8, 20), stream)
            for f in h["features"]:
                stats["features"][f] = stats["features"].get(f, 0) + 1
            b.add(h["pieces"], spec=h["spec"], cls=h["k02a"])
        batches.append(b)
    b = Batch("k02b")
    for _ in range(6 if q else 12):
        h = gen_k02b_pattern(rng)
        for f in h["features"]:
            stats["features"][f] = stats["features"].get(f, 0) + 1
        b.add(h["pieces"], spec=h["spec"])
    batches.append(b)

    # 4b. programs over user modules (STEEL_MODULE_INLINE); the reference semantics has no modules
    moddir = os.path.join(ctx.scratch, "mods")
    for stream, n in (("main", 14 if q else 30), ("k02c", 6 if q else 12)):
        b = Batch("mod-" + stream)
        b.nospec = True
        for _ in range(n):
            h = gen_module_program(rng, moddir, stream)
            stats["features"]["modules"] = stats["features"].get("modules", 0) + 1
            b.add(h["pieces"], cls={"K02c": h["k02c"], "text": h.get("sources", "")})
        batches.append(b)

    # 4c. operand-type coverage of the native tier (no reference semantics: bignums, floats, rationals)
    b = Batch("jitops")
    b.nospec = True
    for _ in range(20 if q else 40):
        h = gen_jitops_program(rng)
        stats["features"]["jit-operand-types"] = stats["features"].get("jit-operand-types", 0) + 1
        b.add(h["pieces"])
    batches.append(b)

    # 4d. the same operand-type programs as MODULES (every primitive is then a specialised op code in native code)
    b = Batch("jitops-as-module")
    b.nospec = True
    import hashlib
    for _ in range(10 if q else 25):
        h = gen_jitops_program(rng)
        lines = "\n".join(h["pieces"]).split("\n")
        text = "\n".join(l if l.startswith("(define ") else "(displayln %s)" % l for l in lines) + "\n"
        path = os.path.join(pm_dir, "jitops-%s.scm" % hashlib.sha1(text.encode()).hexdigest()[:12])
        with open(path, "w") as fh:
            fh.write(text)
        stats["features"]["jit-operand-types-as-module"] = stats["features"].get("jit-operand-types-as-module", 0) + 1
        b.add(["(require \"%s\")" % path], meta=text, cls={"text": text})
    batches.append(b)

    # 4e. procedures with 5-9 parameters used several times in one expression (plain operand first, last use inside
    #     an inner call), called through apply / map / as values; and the same compiled procedure serialised or
    #     handed to native threads more than once.  Each at top level and as a module.
    for label, gen, n in (("manyparams", gen_manyparams_program, 10 if q else 30),
                          ("sendtwice", gen_sendtwice_program, 5 if q else 24)):
        b = Batch(label)
        b.nospec = True
        bm = Batch(label + "-as-module")
        bm.nospec = True
        for _ in range(n):
            h = gen(rng)
            stats["features"][label] = stats["features"].get(label, 0) + 1
            b.add(h["pieces"], cls={"text": ""})
            path = os.path.join(pm_dir, "%s-%s.scm" % (label, hashlib.sha1(h["module"].encode()).hexdigest()[:12]))
            with open(path, "w") as fh:
                fh.write(h["module"])
            bm.add(["(require \"%s\")" % path], meta=h["module"], cls={"text": h["module"]})
        batches.append(b)
        batches.append(bm)

    # 4f. module-level recursion with dead branches under constant tests, wrappers, calls nested inside handler
    #     lambdas (family of finding K02n).  The stream is certain to hit K02n, so it runs once that finding is listed.
    if True:     # K02n is repaired (f28bc1ca): regression input
        b = Batch("nested-module-calls")
        b.nospec = True
        for _ in range(6 if q else 20):
            h = gen_nested_module_calls(rng)
            path = os.path.join(pm_dir, "nested-%s.scm" % hashlib.sha1(h["module"].encode()).hexdigest()[:12])
            with open(path, "w") as fh:
                fh.write(h["module"])
            stats["features"]["nested-module-calls"] = stats["features"].get("nested-module-calls", 0) + 1
            b.add(["(require \"%s\")" % path], meta=h["module"], cls={"text": h["module"]})
        batches.append(b)
    else:
        ctx.notes.append("stream nested-module-calls not run: finding K02n is not listed in KNOWN_FINDINGS.txt")

    # 4g. self tail calls / applications whose operands are conditionals, and / or / not / cond over the other
    #     parameters after operands that are still pending (what theorem C02J.shadow_transparent's two guards are
    #     about: a branch that spills or materialises pending operands while the other does not, a set! or moving
    #     read of a parameter an earlier operand refers to).  Top level (every call spills) and as a module (inline
    #     primitives do not).  Certain to hit K02g / K02i / K02n: runs once those are listed.
    if True:     # K02n / K02o are repaired (f28bc1ca): the stream is a regression input now
        b = Batch("tailcall-operands")
        b.nospec = True
        bm = Batch("tailcall-operands-as-module")
        bm.nospec = True
        for _ in range(8 if q else 40):
            h = gen_tailcall_operand_conditionals(rng)
            stats["features"]["tailcall-operand-conditionals"] = stats["features"].get("tailcall-operand-conditionals", 0) + 1
            b.add(h["pieces"], cls={"text": ""})
            path = os.path.join(pm_dir, "tco-%s.scm" % hashlib.sha1(h["module"].encode()).hexdigest()[:12])
            with open(path, "w") as fh:
                fh.write(h["module"])
            bm.add(["(require \"%s\")" % path], meta=h["module"], cls={"text": h["module"]})
        batches.append(b)
        batches.append(bm)
    else:
        ctx.notes.append("stream tailcall-operands not run: neither K02n nor K02o is listed in KNOWN_FINDINGS.txt")

    # 4h. globals that hold a BUILT-IN when their callers are compiled, assigned later, the callers invoked
    #     first-class before and after (native code must read the slot at call time); non-local control (return!,
    #     call/cc escape, error under a caller-side handler) inside small callees an inliner may copy into their
    #     caller; n-ary arithmetic (3-6 operands) on inexact operands of mixed magnitude reached through apply/map
    #     (the order in which a native helper folds its operands).  Each at top level and as a module.
    for label, gen, n in (("builtin-alias", gen_builtin_alias_history, 6 if q else 30),
                          ("nonlocal-callee", lambda r: gen_nonlocal_control_callee(r, tail_only="K02p" not in known), 6 if q else 30),
                          ("float-nary", gen_float_nary_program, 5 if q else 30)):
        b = Batch(label)
        b.nospec = True
        bm = Batch(label + "-as-module")
        bm.nospec = True
        for _ in range(n):
            h = gen(rng)
            stats["features"][label] = stats["features"].get(label, 0) + 1
            b.add(h["pieces"], cls={"text": ""})
            path = os.path.join(pm_dir, "%s-%s.scm" % (label, hashlib.sha1(h["module"].encode()).hexdigest()[:12]))
            with open(path, "w") as fh:
                fh.write(h["module"])
            bm.add(["(require \"%s\")" % path], meta=h["module"], cls={"text": h["module"]})
        batches.append(b)
        batches.append(bm)
    if "K02p" not in known:
        ctx.notes.append("return! before the end of a callee not generated: finding K02p is not listed in KNOWN_FINDINGS.txt")

    # 5. model histories (lowered-core): the Lean model predicts the value under every configuration inside the guard
    batches.append(model_hist_batch(rng, 24 if q else 40, stats, ctx))

    process_many(ctx, batches, configs, values, stats, known)

    for kid in known:
        if kid not in stats["known_hits"]:
            ctx.notes.append("open finding %s was not reproduced by this run" % kid)
    if stats["model_vs_real"]:
        ctx.notes.append("model value differs from the (configuration-independent) real value on %d items: see coverage.model_samples" % stats["model_vs_real"])
    if not translator_ok and not ctx.violations:
        ctx.violation("C02-translator.txt", "translate/c02_switches.py failed:\n" + tout, no_input=True)
    if not pr["ok"] and not ctx.violations:
        ctx.violation("C02-proof-broken.txt", "proof obligations of SteelVerif.C02.Props that no longer check:\n" +
                      "\n".join("%s: %s" % f for f in pr["failed"]) + "\n", no_input=True)
    ctx.coverage = {
        "obligations": pr["obligations"], "discharged": pr["discharged"],
        "checker_cmd": "cd lean && lake build SteelVerif.C02.Props && lake env lean SteelVerif/C02/Audit.lean",
        "trusted_base": C.TRUSTED_BASE + ["translate/c02_switches.py (regex extraction of env reads and the test applied)",
                                          "Base/Eval.lean as the third party (never the oracle of a C02 violation)"],
        "leanchecker": recheck,
        "configurations": [cfg_text(c, values) for c in configs], "configuration_count": len(configs),
        "extracted_switches": extracted, "child_env_check": seen_env,
        "items": stats["items"], "pieces": stats["pieces"], "evaluations": stats["evaluations"],
        "distinct_nontrivial": len(stats["seen"]),
        "rule": "item = one program or one piecewise history on a fresh engine; evaluation = one piece under one configuration; distinct = different source text; every item defines procedures and observes calls; histories redefine / set! globals that earlier pieces compiled calls to",
        "outcomes_default_config": stats["outcomes"], "config_differences": stats["config_differences"],
        "known_finding_hits": stats["known_hits"], "known_finding_samples": stats["known_samples"],
        "findings_listed_in_KNOWN_FINDINGS": sorted(listed), "findings_only_under_findings_dir": sorted(set(known) - listed),
        "agree_but_differ_from_S": stats["agree_but_differ_from_S"], "agree_but_differ_from_S_classes": stats["agree_but_differ_classes"],
        "agree_but_differ_from_S_samples": stats["abd_samples"], "spec_timeouts": stats["spec_timeouts"],
        "fragment_programs": stats["frag_programs"], "fragment_programs_changed_by_model_inliner": stats["frag_with_inlining"],
        "model_histories": stats["model_histories"], "model_histories_inside_guard": stats["model_histories_in_guard"],
        "model_predictions_compared": stats["model_compared"], "model_vs_real_differences": stats["model_vs_real"],
        "model_samples": stats["model_samples"], "model_inliner_changes_value": stats["model_inliner_changes_value"],
        "feature_counts": stats["features"], "axioms": pr.get("axioms", {}),
        "proof_failures": ["%s: %s" % f for f in pr["failed"]],
    }
    return ctx.finish("proof")


def replay(ctx, path):
    lines = open(path).read().split("\n")
    text = "\n".join(l for l in lines if not l.startswith("#"))
    items = [[x.strip("\n") for x in p.strip("\n").split(PSEP)] for p in text.split(SEP) if p.strip()]
    C.build_harness(ctx, ["c02"])
    values, quick, thorough, _ = load_switches()
    named = re.findall(r"^# config [AB]: .*\[([01]{5})\]", "\n".join(lines), re.M)
    configs = [tuple(c == "1" for c in w) for w in named] if named else list(quick)
    if (False,) * 5 not in configs:
        configs = [(False,) * 5] + configs
    recs = run_all_configs(items, configs, values)
    spec, _ = run_spec(items)
    rc = 0
    for i, pieces in enumerate(items):
        print(PSEP.join(pieces))
        for c in configs:
            r = recs[cfg_name(c)][i]
            print("  %-60s %s" % (cfg_text(c, values), [(x["res"], x["out"][:60]) if x else None for x in (r or [])]))
        print("  %-60s %s" % ("reference semantics S", [(x["res"], x["out"][:60]) for x in (spec[i] if i < len(spec) else [])]))
        if first_difference(recs, i, len(pieces), [cfg_name(c) for c in configs]) is not None:
            rc = 1
    return rc
