"""C03 — immutable values never change: the in-place update optimisation is unobservable.

translate  : translate/c03_inplace.py regenerates lean/SteelVerif/C03/GenInPlace.lean: every primitive of /repo that
             can write one of its arguments in place (Gc::get_mut / make_mut / try_unwrap / strong_count, `&mut SteelVal`
             parameters, mem::take of arguments), which uniqueness test it uses, whether it is registered, its reviewed
             class and the generator operations that call it.  Obligations (by `decide`): every extracted function is
             classified, every registered fast path is exercised, every fast path tests `has_unique_ref`.
prove      : lake build SteelVerif.C03.Props (+ GenInPlace, driver) and the axiom audit.
correspond : alias-heavy programs (gen/alias03.py): every value is kept by other holders (globals, locals, closure
             captures, container slots, a captured continuation, a second / third thread) and printed again after
             later operations, while the operated-on holder is or is not at its last use.  The real engine (harness
             c03, a fresh Engine per program, STEEL_JIT on and off) against the persistent semantics S computed by the
             compiled Lean driver `c03driver`, which also runs the reference-counting model M next to S and reports
             which path (in place / copy) every update took.
oracle     : S (the driver's expected output).  real != S is a violation unless the program is in the class of an
             open finding.
"""
import json
import os
import random
import re
import sys

from . import common as C

sys.path.insert(0, C.VERIF)
from gen import alias03 as A   # noqa: E402

PID = "C03"
META = {
    "ready": True,
    "category": "proof",
    "technique": "Lean 4 refinement proof: a reference-counted object store with in-place update under a uniqueness test refines the persistent (pure value) semantics for every operation sequence, every sharing pattern and every choice of last uses; tied to /repo by a translator (list of in-place primitives and the test they use) and by differential execution of generated alias-heavy programs (real engine vs the specification computed by the compiled Lean driver)",
    "level_text": "Theorems (lean/SteelVerif/C03/Props.lean): inplace_refines_persistent - for every list of operations new/lit/alias/move(last use)/drop/get(derived value)/update over a store id -> (kind, slots, rc) with nested objects, for every sound uniqueness test (true only when rc = 1; the code's test is has_unique_ref, proved sound in C05) and every choice of which updates try the in-place path, after every step rc o = number of references to o (holders, slots, pending releases) and every holder unfolds in M to exactly the pure tree S gives it (view_eq: as a computed equality; bound_eq); update_is_fresh_copy (the result is the update applied to the old pure value, every other holder keeps its value, on both paths); last_use_move_safe (moving instead of copying at a last use is unobservable); inplace_unsound_if_count_wrong (with a test that ignores the count, or is off by one, an alias observes the update: the hypothesis is needed). The clauses of the property that no theorem carries (that a Steel program is such an operation list, soundness of the real uniqueness test = C05, correctness of the compiler's last-use marks, threads, sharing inside a collection) are listed at the end of Props.lean.  The model is hand-written; it is tied to /repo on every run by translate/c03_inplace.py (which primitives can write in place, that each of them tests Gc::get_mut/make_mut = BiasedRc::has_unique_ref, none decides on strong_count, no weak references) and by running generated programs on the real engine with STEEL_JIT on and off.",
    "level_note": "Trusted: Lean kernel (propext, Classical.choice, Quot.sound only), the translator's regexes and its reviewed classification table, harness/driver/generator/comparison, C05's theorem that has_unique_ref is a sound test. Not modelled (differential run only): the compiler's last-use analysis and the VM's move op codes (any choice of moves is covered by the theorem, that the compiler's choice is a last use is C01's), the JIT, the structural sharing inside im-lists / steel-imbl (their nodes use the same Gc::make_mut; modelled as one object per collection), open continuation marks. The persistent semantics of the Steel primitives themselves (what append, hash-union, ... compute) is the driver's table, compared with the real engine on every run.",
}

HARNESS = "c03"
DRIVER = "c03driver"
SEP = "\n;;;===\n"


# ------------------------------------------------------------------------------------------------
# running programs on the real engine
# ------------------------------------------------------------------------------------------------
def parse_records(text):
    recs, cur = [], None
    for line in text.split("\n"):
        if line.startswith("\x1eB"):
            cur = {"out": [], "res": None}
            recs.append(cur)
        elif cur is None:
            continue
        elif line.startswith("\x1eV"):
            cur["res"] = ("ok", "")
        elif line.startswith("\x1eE"):
            cur["res"] = ("err", line[3:])
        elif line.startswith("\x1eP"):
            cur["res"] = ("panic", line[3:])
        elif line.startswith("\x1eT"):
            cur["res"] = ("timeout", "")
        elif line.startswith("\x1eC"):
            # optional hook output: uniqueness answers per calling file
            cur["uniq"] = dict((m.group(1).split("src/")[-1], (int(m.group(2)), int(m.group(3))))
                               for m in re.finditer(r"(\S+)=(\d+)/(\d+)", line[3:]))
        else:
            cur["out"].append(line)
    for r in recs:
        r["out"] = [l for l in r["out"] if l != ""]
    return recs


def run_real(progs, env=None, timeout=600):
    """Run programs in NCPU child processes; a child that dies / hangs loses only the program it was running."""
    n = len(progs)
    results = [None] * n

    def run_chunk(idxs):
        todo = list(idxs)
        while todo:
            text = SEP.join(progs[i] for i in todo) + "\n"
            rc, out, err = C.run_bin([C.bin_path(HARNESS)], text, timeout=timeout, env=env)
            recs = parse_records(out)
            k = 0
            for k, i in enumerate(todo):
                if k < len(recs) and recs[k]["res"] is not None and recs[k]["res"][0] != "timeout":
                    results[i] = recs[k]
                else:
                    break
            else:
                return
            i = todo[k]
            if k < len(recs) and recs[k]["res"] is not None:
                results[i] = recs[k]
            else:
                why = "timeout" if rc == 124 else "exit %d: %s" % (rc, ((err or "").strip().splitlines() or [""])[-1])
                results[i] = {"out": recs[k]["out"] if k < len(recs) else [], "res": ("crash", why)}
            todo = todo[k + 1:]

    chunks = [list(range(i, n, C.NCPU)) for i in range(C.NCPU)]
    C.pool_map(run_chunk, [c for c in chunks if c])
    return results


def run_driver(texts, timeout=900):
    """abstract programs (serialised) -> list of dict(out=[lines], stats={...}) from the Lean driver"""
    inp = "\n".join(texts) + "\n"
    rc, out, err = C.run_bin([C.driver_path(DRIVER)], inp, timeout=timeout)
    res, cur = [], None
    for line in out.split("\n"):
        if line == "\x1eB":
            cur = {"out": [], "stats": {}, "err": None}
            res.append(cur)
        elif cur is None:
            continue
        elif line.startswith("\x1eS "):
            cur["stats"] = dict((k, int(v)) for k, v in re.findall(r"(\w+)=(\d+)", line))
        elif line.startswith("\x1eX "):
            cur["err"] = line[3:]
        elif line != "":
            cur["out"].append(line)
    return rc, res, err


# ------------------------------------------------------------------------------------------------
# corpus
# ------------------------------------------------------------------------------------------------
def load_corpus():
    cases = []
    cdir = os.path.join(C.VERIF, "corpus", "C03")
    for fn in sorted(os.listdir(cdir)) if os.path.isdir(cdir) else []:
        if not fn.endswith(".scm"):
            continue
        text = open(os.path.join(cdir, fn)).read()
        for k, piece in enumerate(text.split(SEP)):
            lines = piece.split("\n")
            exp = [l[4:] for l in lines if l.startswith(";;= ")]
            known = None
            for l in lines:
                m = re.match(r";;! known=(\w+)", l)
                if m:
                    known = m.group(1)
            src = "\n".join(l for l in lines if not l.startswith(";;"))
            if src.strip():
                cases.append({"name": "%s#%d" % (fn, k + 1), "src": A.PRELUDE + src + "\n", "expect": exp, "known": known})
    return cases


def run_corpus(ctx, stats, known_ids):
    cases = load_corpus()
    for jit in ("true", "false"):
        res = run_real([c["src"] for c in cases], env={"STEEL_JIT": jit})
        for c, r in zip(cases, res):
            stats["corpus_cases"] += 1
            ok = r["res"][0] == "ok" and r["out"] == c["expect"]
            if not ok and r["res"][0] in ("timeout", "crash"):
                r = run_real([c["src"]], env={"STEEL_JIT": jit, "C03_TIMEOUT_S": "150"}, timeout=200)[0]
                ok = r["res"][0] == "ok" and r["out"] == c["expect"]
            if c["known"]:
                if not ok:
                    if c["known"] in known_ids:
                        ctx.known_finding("id=%s reproduced by corpus/C03/%s (STEEL_JIT=%s)" % (c["known"], c["name"], jit))
                        stats["known_hits"][c["known"]] = stats["known_hits"].get(c["known"], 0) + 1
                    else:
                        report(ctx, "corpus-" + c["name"].replace("#", "-").replace(".scm", ""), c["src"], c["expect"], r, jit,
                               "directed case of finding %s, which is not listed as open" % c["known"])
                else:
                    ctx.notes.append("finding %s no longer reproduces on corpus/C03/%s (STEEL_JIT=%s)" % (c["known"], c["name"], jit))
                continue
            if not ok:
                report(ctx, "corpus-" + c["name"].replace("#", "-").replace(".scm", ""), c["src"], c["expect"], r, jit,
                       "directed case corpus/C03/%s" % c["name"])


def first_diff(real, exp):
    for i in range(max(len(real), len(exp))):
        a = real[i] if i < len(real) else "<nothing>"
        b = exp[i] if i < len(exp) else "<nothing>"
        if a != b:
            return i, a, b
    return None


def report(ctx, name, src, exp, r, jit, what, abstract=None):
    d = first_diff(r["out"], exp)
    body = ";; C03 violation: %s (STEEL_JIT=%s)\n" % (what, jit)
    body += ";; outcome of the real engine: %s %s\n" % r["res"]
    if d:
        body += ";; first difference at output line %d\n;;   real engine : %s\n;;   S (expected): %s\n" % (d[0] + 1, d[1], d[2])
    if abstract:
        body += ";; abstract program (input of c03driver):\n" + "".join(";;@ %s\n" % l for l in abstract.splitlines())
    body += ";; expected output:\n" + "".join(";;= %s\n" % l for l in exp)
    body += src
    if len([v for v in ctx.violations if not v[1]]) < 6:
        ctx.violation("C03-%s.scm" % name, body)


# ------------------------------------------------------------------------------------------------
# classes of open findings
# ------------------------------------------------------------------------------------------------
def in_class_k03a(prog):
    """K03a: some `append` is evaluated with an empty first operand (and at least one more operand)"""
    hit = []

    class Ev(A.Eval):
        def apply(self, op, atoms, env):
            if op in ("append", "append3", "tr-ext") and atoms:
                v = self.atom(atoms[0], env)
                if A.kind(v) == "l" and len(v[1]) == 0:
                    hit.append(op)
            return A.Eval.apply(self, op, atoms, env)
    try:
        Ev().run(prog)
    except A.Invalid:
        pass
    return bool(hit)


CLASSES = {"K03a": in_class_k03a}


# ------------------------------------------------------------------------------------------------
def run(ctx):
    stats = {"programs": 0, "runs": 0, "prints": 0, "corpus_cases": 0, "known_hits": {}, "ops": {}, "vias": {}, "layouts": {},
             "threads": 0, "kont": 0, "model": {}, "real_uniqueness_answers": {}, "transient_timeouts": 0, "samples": [], "pending": [], "oracle_mismatch": 0, "distinct": set()}
    known = {k.get("id"): k for k in ctx.load_known()}
    # findings of this check that the coordinator has not listed yet are treated as listed (see the report)
    for fid in CLASSES:
        if os.path.exists(os.path.join(C.VERIF, "findings", "C03-%s.scm" % fid)):
            known.setdefault(fid, {"id": fid, "provisional": True})

    # translate
    rc, tout = C.sh(["python3", os.path.join(C.VERIF, "translate", "c03_inplace.py")], timeout=120)
    extracted = None
    if rc == 0:
        try:
            extracted = json.loads(tout.strip().splitlines()[-1])
        except (ValueError, IndexError):
            rc = 3
    if rc != 0:
        stats["pending"].append(("C03-translator.txt", "# translate/c03_inplace.py no longer understands the sources of /repo:\n# %s\n"
                                 % tout.strip()[-800:]))
    # prove
    pr = C.prove(ctx, "C03", ["SteelVerif.C03.GenInPlace", DRIVER])
    ok, log = C.build_harness(ctx, [HARNESS])
    cov = {"obligations": pr["obligations"], "discharged": pr["discharged"],
           "checker_cmd": "cd lean && lake build SteelVerif.C03.Props SteelVerif.C03.GenInPlace && lake env lean SteelVerif/C03/Audit.lean",
           "trusted_base": C.TRUSTED_BASE + ["translate/c03_inplace.py (regex extraction; reviewed classification table)",
                                             "C05: has_unique_ref answers true only for the sole reference"]}
    if not ok or not os.path.exists(C.driver_path(DRIVER)):
        ctx.violation("C03-build.txt", "harness or driver does not build:\n" + log + pr["log"][-3000:], no_input=True)
        ctx.coverage = cov
        return ctx.finish()

    # corpus first
    run_corpus(ctx, stats, known)

    # generated programs
    quick = ctx.quick()
    rng = random.Random(ctx.seed * 1000003 + 3)
    total = 600 if quick else 40000
    maxops = 25 if quick else 120
    done = 0
    batch = 600 if quick else 1600
    # the thorough tier stops after its wall-clock budget (the evidence reports how many programs were run)
    budget = None if quick else float(os.environ.get("C03_THOROUGH_BUDGET_S", "1500"))
    import time
    t_gen = time.time()
    while done < total and len([v for v in ctx.violations if not v[1]]) < 3:
        if budget is not None and time.time() - t_gen > budget:
            ctx.notes.append("thorough tier: wall-clock budget of %.0f s reached after %d of %d programs" % (budget, done, total))
            break
        n = min(batch, total - done)
        progs = []
        for i in range(n):
            r = rng.random()
            nth = 0 if r < 0.55 else (1 if r < 0.85 else 2)
            nops = rng.randint(3, maxops) if (quick or rng.random() < 0.7) else rng.randint(maxops // 2, maxops)
            p = A.gen_program(rng, nops, nthreads=nth)
            progs.append(p)
        check_batch(ctx, progs, stats, known, "g%d" % done)
        done += n
    ctx.log("programs=%d runs=%d prints compared=%d" % (stats["programs"], stats["runs"], stats["prints"]))

    # the class of every open finding is also run on purpose (a few programs each), so that the KNOWN-FINDING line
    # appears on every run while the finding is open
    kprogs = []
    for _ in range(40 if quick else 400):
        kprogs.append(gen_k03a(rng))
    check_batch(ctx, kprogs, stats, known, "k03a")

    # decide
    if not pr["ok"] and not ctx.violations:
        body = "proof obligations of SteelVerif.C03 that no longer check:\n" + "\n".join("%s: %s" % f for f in pr["failed"]) + "\n"
        if extracted:
            unc = [p["rust"] for p in extracted["prims"] if p["cls"] == "unclassified"]
            unex = [p["rust"] for p in extracted["prims"] if p["cls"] in ("fastPath", "libPath") and p["registered"] and not p["exercisedBy"]]
            body += "unclassified in-place primitives: %s\nregistered fast paths that nothing exercises: %s\n" % (unc, unex)
        ctx.violation("C03-proof-broken.txt", body, no_input=True)
    if stats["pending"] and not ctx.violations:
        name, body = stats["pending"][0]
        ctx.violation(name, body + "# the tie between SteelVerif.C03 and /repo no longer holds (%d items); no property violation "
                      "exhibited\n" % len(stats["pending"]), no_input=True)

    prim_cov = {}
    if extracted:
        for p in extracted["prims"]:
            if p["steel"]:
                prim_cov[p["steel"]] = {"class": p["cls"], "registered": p["registered"], "tests": p["tests"] or p["lib"],
                                        "calls_in_generated_programs": sum(stats["ops"].get(o, 0) for o in p["exercisedBy"] if o != "corpus"),
                                        "in_corpus": "corpus" in p["exercisedBy"]}
    cov.update({
        "evaluations": stats["runs"] + stats["corpus_cases"],
        "distinct_nontrivial": len(stats["distinct"]),
        "rule": "program = random.Random(VERIF_SEED) alias-heavy operation sequence (<= %d operations; layouts: internal "
                "defines / nested lets / top level; call forms: direct, helper function, let alias, immediate lambda, apply, "
                "thunk; keepers: global, closure capture, container slot, continuation re-entry, 1-2 extra threads with "
                "channels), each run with STEEL_JIT=true and false; non-trivial = the model took the in-place path at least "
                "once AND the copy path at least once (an alias was alive at an update); distinct = different abstract "
                "programs" % maxops,
        "samples": stats["samples"],
        "programs": stats["programs"], "runs": stats["runs"], "printed_values_compared": stats["prints"],
        "corpus_cases": stats["corpus_cases"],
        "operations": stats["ops"], "call_forms": stats["vias"], "layouts": stats["layouts"],
        "programs_with_threads": stats["threads"], "programs_with_continuation_reentry": stats["kont"],
        "model_paths": stats["model"],
        "real_uniqueness_answers_per_calling_file(unique,shared; needs the proposed hook, includes the prelude)": stats["real_uniqueness_answers"],
        "python_oracle_vs_lean_S_mismatches": stats["oracle_mismatch"],
        "timeouts_that_passed_when_rerun_alone": stats["transient_timeouts"],
        "in_place_primitives": prim_cov,
        "translator": {k: v for k, v in (extracted or {}).items() if k != "prims"},
        "known_finding_hits": stats["known_hits"],
        "axioms": pr.get("axioms", {}),
        "proof_failures": ["%s: %s" % f for f in pr["failed"]],
    })
    ctx.coverage = cov
    ctx.assumptions = ["has_unique_ref is a sound uniqueness test (C05)", "persistent collection libraries modelled as one object per collection"]
    return ctx.finish("proof")


def gen_k03a(rng):
    """a program of class K03a: like the others, but appends with an empty first operand are allowed and one is forced"""
    for _ in range(200):
        g = A.Gen(rng, rng.randint(4, 12), rng.choice(["defines", "lets", "top"]))
        g.allow_k03a = True
        try:
            g.new_value()
            xs = g.define("list", [("i", 1), ("i", 2), ("i", 3), ("i", 4), ("i", 5), ("i", 6), ("i", 7), ("i", 8)], "direct")
            one = g.define("list", [("i", 1)], "direct")
            ys = g.define("append", [("h", one), ("h", xs)], "direct")
            e = g.define("list", [], "direct")
            g.define("append", [("h", e), ("h", ys)], rng.choice(A.VIAS[:5]))
            g.body()
            g.checkpoint()
            p = {"main": g.stmts, "globals": g.globals, "layout": g.layout, "ops": g.ops_used, "vias": g.vias_used}
            p["expect"] = A.Eval().run(p)
            return p
        except A.Invalid:
            continue
    raise RuntimeError("gen_k03a")


def check_batch(ctx, progs, stats, known, label):
    srcs = [A.render(p) for p in progs]
    sers = [A.serialise(p) for p in progs]
    rc, drv, derr = run_driver(sers)
    if rc != 0 or len(drv) != len(progs):
        stats["pending"].append(("C03-driver-%s.txt" % label, "# c03driver failed on the generated programs: rc=%d answers=%d/%d\n# %s\n"
                                 % (rc, len(drv), len(progs), (derr or "")[-500:])))
        return
    for p, d in zip(progs, drv):
        stats["programs"] += 1
        for o, c in p.get("ops", {}).items():
            stats["ops"][o] = stats["ops"].get(o, 0) + c
        for o, c in p.get("vias", {}).items():
            stats["vias"][o] = stats["vias"].get(o, 0) + c
        stats["layouts"][p["layout"]] = stats["layouts"].get(p["layout"], 0) + 1
        stats["threads"] += 1 if p.get("ops", {}).get("thread") else 0
        stats["kont"] += 1 if any(st[0] == "kont" for st in p["main"]) else 0
        for k, v in d["stats"].items():
            stats["model"][k] = stats["model"].get(k, 0) + v
        if d["stats"].get("inplace", 0) and d["stats"].get("copy", 0):
            stats["distinct"].add(hash(A.serialise(p)))
        if d["err"] or d["out"] != p["expect"]:
            # the two implementations of S disagree: a defect of the check itself
            stats["oracle_mismatch"] += 1
            dd = first_diff(d["out"], p["expect"])
            stats["pending"].append(("C03-oracle-%s.txt" % label, "# the Lean driver's S and the generator's evaluator disagree (%s): %s\n%s\n"
                                     % (d["err"], dd, A.serialise(p))))
    for jit in ("true", "false"):
        res = run_real(srcs, env={"STEEL_JIT": jit})
        for i, (p, d, r) in enumerate(zip(progs, drv, res)):
            stats["runs"] += 1
            for site, (u, sh) in (r.get("uniq") or {}).items():
                acc = stats["real_uniqueness_answers"].setdefault(site, [0, 0])
                acc[0] += u
                acc[1] += sh
            exp = d["out"] if not d["err"] else p["expect"]
            stats["prints"] += len(exp)
            if r["res"][0] == "ok" and r["out"] == exp:
                if len(stats["samples"]) < 3 and d["stats"].get("inplace", 0) and d["stats"].get("copy", 0) and len(exp) > 6:
                    stats["samples"].append({"abstract": A.serialise(p).splitlines()[:30], "expected": exp[:8], "real": r["out"][:8],
                                             "model": d["stats"], "jit": jit})
                continue
            # a time-out / killed child on a loaded machine is not a verdict: run the program again on its own with a
            # generous limit; a wrong output or an error of the engine is a verdict even if it does not reproduce
            if r["res"][0] in ("timeout", "crash"):
                again = run_real([srcs[i]], env={"STEEL_JIT": jit, "C03_TIMEOUT_S": "150"}, timeout=200)[0]
                if again["res"][0] == "ok" and again["out"] == exp:
                    stats["transient_timeouts"] += 1
                    continue
                r = again
            # real != S: known class?
            hit = None
            for fid, pred in CLASSES.items():
                if fid in known and pred(p):
                    hit = fid
                    break
            if hit:
                ctx.known_finding("id=%s class=%s reproduced by a generated program" % (hit, known[hit].get("class", hit)))
                stats["known_hits"][hit] = stats["known_hits"].get(hit, 0) + 1
                continue
            mp, mr = minimise(p, jit, r)
            report(ctx, "%s-%d-jit%s" % (label, i, jit), A.render(mp), mp["expect"], mr, jit,
                   "generated program (minimised from %d to %d statements)" % (len(p["main"]), len(mp["main"])), A.serialise(mp))


def minimise(p, jit, first):
    """statement-level delta reduction; the oracle is the python evaluator (checked equal to the driver's S).
    `first` = the failing record that was observed (reported as it is when the failure does not reproduce)."""
    def attempt(main):
        q = {"main": main, "globals": A.globals_of(main), "layout": p["layout"], "ops": {}, "vias": {}}
        try:
            q["expect"] = A.Eval().run(q)
        except (A.Invalid, KeyError, IndexError, TypeError):
            return None
        r = run_real([A.render(q)], env={"STEEL_JIT": jit}, timeout=60)[0]
        if r["res"][0] == "ok" and r["out"] == q["expect"]:
            return None
        return q, r
    cur = attempt(list(p["main"]))
    if cur is None:
        return p, first

    main = list(p["main"])
    changed, rounds = True, 0
    while changed and rounds < 6:
        changed = False
        rounds += 1
        i = 0
        while i < len(main):
            cand = main[:i] + main[i + 1:]
            got = attempt(cand)
            if got is not None:
                main, cur, changed = cand, got, True
            else:
                i += 1
    return cur


def replay(ctx, path):
    text = open(path).read()
    C.build_harness(ctx, [HARNESS])
    exp = [l[4:] for l in text.split("\n") if l.startswith(";;= ")]
    abstract = "\n".join(l[4:] for l in text.split("\n") if l.startswith(";;@ "))
    src = "\n".join(l for l in text.split("\n") if not l.startswith(";;"))
    if "(define (show x)" not in src:
        src = A.PRELUDE + src
    if abstract and os.path.exists(C.driver_path(DRIVER)):
        rc, drv, _ = run_driver([abstract])
        if drv:
            print("--- S (c03driver)  model paths: %s" % drv[0]["stats"])
            print("\n".join(drv[0]["out"]))
            exp = drv[0]["out"]
    bad = 0
    for jit in ("true", "false"):
        r = run_real([src], env={"STEEL_JIT": jit}, timeout=60)[0]
        print("--- real engine, STEEL_JIT=%s: %s %s" % (jit, r["res"][0], r["res"][1]))
        print("\n".join(r["out"]))
        d = first_diff(r["out"], exp)
        if d or r["res"][0] != "ok":
            bad = 1
            print("--- differs from the expected output at line %s: real `%s`, expected `%s`" % ((d[0] + 1, d[1], d[2]) if d else ("-", "-", "-")))
    print("--- expected\n" + "\n".join(exp))
    return bad
