"""C03 — immutable values never change: the in-place update optimisation is unobservable.

translate  : translate/c03_inplace.py regenerates lean/SteelVerif/C03/GenInPlace.lean: every primitive of /repo that
             can write one of its arguments in place (Gc::get_mut / make_mut / try_unwrap / strong_count, `&mut SteelVal`
             parameters, mem::take of arguments), which uniqueness test it uses, whether it is registered, its reviewed
             class and the generator operations that call it.  Obligations (by `decide`): every extracted function is
             classified, every registered fast path is exercised, every fast path tests `has_unique_ref`.
prove      : lake build SteelVerif.C03.Props (+ GenInPlace, driver) and the axiom audit.
correspond : alias-heavy programs (gen/alias03.py): every value is kept by other holders (globals, locals, closure
             captures, container slots, a captured continuation, a second / third thread) and printed again after
             later operations, while the operated-on holder is or is not at its last use.  The real engine (harness
             c03, a fresh Engine per program, STEEL_JIT on and off) against the persistent semantics S computed by the
             compiled Lean driver `c03driver`, which also runs the reference-counting model M next to S and reports
             which path (in place / copy) every update took.
             The straight-line programs are also compiled by the driver to the lowered core of C01 (`C01C.compile`: real
             op codes, MOVEREADLOCAL at last uses) and run on the VM model of lean/SteelVerif/C03/VM.lean: same prints as S,
             and the in-place / copy decisions are reported next to those of the hand-written operation lists.
bytecode   : gen/bc03.py programs (helpers, closures, nested lets, containers, tail / non-tail updates) -> harness `c03 --bc`
             prints the REAL compiler's listing and runs it -> `c03driver bc` executes the same listing on the VM model (M and
             S) -> real result = model result = python S.  Thorough tier: the same against a scratch copy of /repo carrying
             the add-only hook corpus/C03/hook-uniqueness-counters.diff: the answers of Gc::get_mut / make_mut per calling
             file must be the model's in-place / copy decisions, program by program.
oracle     : S (the driver's expected output).  real != S is a violation unless the program is in the class of an
             open finding.
"""
import json
import os
import random
import re
import sys

from . import common as C

sys.path.insert(0, C.VERIF)
from gen import alias03 as A   # noqa: E402
from gen import bc03 as B      # noqa: E402

PID = "C03"
META = {
    "ready": True,
    "category": "proof",
    "technique": "Lean 4 refinement proofs: (a) a reference-counted object store with in-place update under a uniqueness test refines the persistent (pure value) semantics for every operation sequence, sharing pattern and choice of last uses; (b) the same for every PROGRAM of every small-step machine over that store, instantiated with a stack VM over the real op codes (MOVEREADLOCAL, argument passing, closure capture, tail calls, call/cc) and with any interleaving of several VM threads; (c) composition with C05: the uniqueness test is the one C05 proves sound.  Tied to /repo by a translator (in-place primitives, the test they use, the argument whose slot reaches the test vs the model's primitive table) and by differential execution: alias-heavy programs on the real engine vs S, and the REAL compiler's bytecode listings executed by the VM model vs the real VM vs S",
    "level_text": "Theorems. Props.lean: inplace_refines_persistent - for every list of operations new/lit/alias/move(last use)/drop/get(derived value)/update over a store id -> (kind, slots, rc) with nested objects, for every sound uniqueness test and every choice of which updates try the in-place path, after every step rc o = number of references to o and every holder unfolds in M to exactly the pure tree S gives it (view_eq, bound_eq); update_is_fresh_copy; last_use_move_safe; inplace_unsound_if_count_wrong. PropsVM.lean: mach_refines / program_refines - every program of every machine whose control sees only bounded unfoldings of the holders it names runs in lock step on M and S; program_inplace_eq_copy / program_views_eq - in-place-if-unique and always-copy primitives give the same control state and the same value in every holder; vm_refines - for EVERY instruction sequence over the real op codes of C01C.Instr (READLOCAL clones, MOVEREADLOCAL moves and leaves void, FUNC moves the callee into the frame, NEWSCLOSURE/READCAPTURED clone into/out of the closure object, primitives update the operand slot `plan` names, returns/tail calls/LETENDSCOPE drop the dying slots, call/cc clones the stack into a continuation object); core_program_inplace_unobservable - for every program of the lowered core (with last-usage flags) compiled by the code generator C01 proves correct; threads_refine - any number of VM threads over shared globals, every interleaving of instructions; vm_inplace_unsound_if_count_wrong (a re-entered continuation observes the update under a test that ignores the count); plan_upd_target + GenInPlace.stolen_args_match_model (generated, by decide): the argument the model lets each primitive update in place is the argument whose stack slot reaches Gc::get_mut/make_mut/the im-lists call in the source (hash-union's second, right-operand arm is an oracle of the VM, every choice covered; exception listed: #%struct-update). C05Link.lean: c05_unique_true_total_one (from C05's invariant, every schedule), soundTest_of_c05, inplace_refines_persistent_c05: the test that answers what C05's model of has_unique_ref answers is sound, given that the object's count is the number of counted references of its C05 history (field count_ok: assumed, not proved). The clauses no theorem carries are listed at the end of Props.lean. Tie: translate/c03_inplace.py on every run; 600 alias-heavy programs x STEEL_JIT on/off vs S (the straight-line ones also compiled with C01C.compile and run on the VM model: same prints, same in-place/copy decisions as the hand-written operation lists); 160 programs whose REAL bytecode listing (debug_build_strings, with analysis.rs's MOVEREADLOCAL marks) is executed by the VM model: model = real VM = S on all of them; thorough tier: the same harness built against a scratch copy of /repo with the add-only counter hook corpus/C03/hook-uniqueness-counters.diff - the answers of Gc::get_mut in vectors.rs / hashmaps.rs / hashsets.rs are the model's in-place / copy decisions program by program (800/800), except the measured, safe-direction hidden reference of im-lists (cdr/rest keep the removed cell: directed family, real unique <= model in place).",
    "level_note": "Trusted: Lean kernel (propext, Classical.choice, Quot.sound only), the translator's regexes / pattern tracing and its reviewed classification table, harness/driver/generators/comparison. Hand-written and tied only differentially: VM.lean (after vm.rs; checked against the real VM on the real listings of generated programs, all of which are inside its op codes so far), the primitive table `plan`, the model's call/cc. Not proved: the product of C03's counts with C05's protocol (count_ok), correctness of the compiler's last-use marks (irrelevant to this property: any marking is covered), interleavings below instruction granularity (C05), the JIT, structural sharing inside im-lists / steel-imbl (assumed contract: PersistentLibSpec). Open finding hit by the threaded programs: K03b (a spawned thread reads globals as undefined while main defines globals; root cause K15b).",
}

HARNESS = "c03"
DRIVER = "c03driver"
SEP = "\n;;;===\n"


# ------------------------------------------------------------------------------------------------
# running programs on the real engine
# ------------------------------------------------------------------------------------------------
def parse_records(text):
    recs, cur = [], None
    for line in text.split("\n"):
        if line.startswith("\x1eB"):
            cur = {"out": [], "res": None}
            recs.append(cur)
        elif cur is None:
            continue
        elif line.startswith("\x1eV"):
            cur["res"] = ("ok", "")
        elif line.startswith("\x1eE"):
            cur["res"] = ("err", line[3:])
        elif line.startswith("\x1eP"):
            cur["res"] = ("panic", line[3:])
        elif line.startswith("\x1eT"):
            cur["res"] = ("timeout", "")
        elif line.startswith("\x1eC"):
            # optional hook output: uniqueness answers per calling file
            cur["uniq"] = dict((m.group(1).split("src/")[-1], (int(m.group(2)), int(m.group(3))))
                               for m in re.finditer(r"(\S+)=(\d+)/(\d+)", line[3:]))
        else:
            cur["out"].append(line)
    for r in recs:
        r["out"] = [l for l in r["out"] if l != ""]
    return recs


def run_real(progs, env=None, timeout=600):
    """Run programs in NCPU child processes; a child that dies / hangs loses only the program it was running."""
    n = len(progs)
    results = [None] * n

    def run_chunk(idxs):
        todo = list(idxs)
        while todo:
            text = SEP.join(progs[i] for i in todo) + "\n"
            rc, out, err = C.run_bin([C.bin_path(HARNESS)], text, timeout=timeout, env=env)
            recs = parse_records(out)
            k = 0
            for k, i in enumerate(todo):
                if k < len(recs) and recs[k]["res"] is not None and recs[k]["res"][0] != "timeout":
                    results[i] = recs[k]
                else:
                    break
            else:
                return
            i = todo[k]
            if k < len(recs) and recs[k]["res"] is not None:
                results[i] = recs[k]
            else:
                why = "timeout" if rc == 124 else "exit %d: %s" % (rc, ((err or "").strip().splitlines() or [""])[-1])
                results[i] = {"out": recs[k]["out"] if k < len(recs) else [], "res": ("crash", why)}
            todo = todo[k + 1:]

    chunks = [list(range(i, n, C.NCPU)) for i in range(C.NCPU)]
    C.pool_map(run_chunk, [c for c in chunks if c])
    return results


def run_driver(texts, timeout=900):
    """abstract programs (serialised) -> list of dict(out=[lines], stats={...}) from the Lean driver (NCPU processes)"""
    def one(chunk):
        inp = "\n".join(chunk) + "\n"
        rc, out, err = C.run_bin([C.driver_path(DRIVER)], inp, timeout=timeout)
        res, cur = [], None
        for line in out.split("\n"):
            if line == "\x1eB":
                cur = {"out": [], "stats": {}, "err": None}
                res.append(cur)
            elif cur is None:
                continue
            elif line.startswith("\x1eS "):
                cur["stats"] = dict((k, int(v)) for k, v in re.findall(r"(\w+)=(\d+)", line))
            elif line.startswith("\x1eX "):
                cur["err"] = line[3:]
            elif line != "":
                cur["out"].append(line)
        if len(res) != len(chunk) and rc == 0:
            rc = 5
        return rc, res, err
    size = max(1, min(60, (len(texts) + C.NCPU - 1) // C.NCPU))
    chunks = [texts[i:i + size] for i in range(0, len(texts), size)]
    rcs, allres, errs = 0, [], ""
    for rc, res, err in C.pool_map(one, chunks):
        rcs = rcs or rc
        allres += res
        errs += (err or "")
    return rcs, allres, errs


# ------------------------------------------------------------------------------------------------
# corpus
# ------------------------------------------------------------------------------------------------
def load_corpus():
    cases = []
    cdir = os.path.join(C.VERIF, "corpus", "C03")
    for fn in sorted(os.listdir(cdir)) if os.path.isdir(cdir) else []:
        if not fn.endswith(".scm"):
            continue
        text = open(os.path.join(cdir, fn)).read()
        for k, piece in enumerate(text.split(SEP)):
            lines = piece.split("\n")
            exp = [l[4:] for l in lines if l.startswith(";;= ")]
            known = None
            for l in lines:
                m = re.match(r";;! known=(\w+)", l)
                if m:
                    known = m.group(1)
            src = "\n".join(l for l in lines if not l.startswith(";;"))
            if src.strip():
                cases.append({"name": "%s#%d" % (fn, k + 1), "src": A.PRELUDE + src + "\n", "expect": exp, "known": known})
    return cases


def run_corpus(ctx, stats, known_ids):
    cases = load_corpus()
    for jit in ("true", "false"):
        res = run_real([c["src"] for c in cases], env={"STEEL_JIT": jit})
        for c, r in zip(cases, res):
            stats["corpus_cases"] += 1
            ok = r["res"][0] == "ok" and r["out"] == c["expect"]
            if not ok and r["res"][0] in ("timeout", "crash"):
                r = run_real([c["src"]], env={"STEEL_JIT": jit, "C03_TIMEOUT_S": "150"}, timeout=200)[0]
                ok = r["res"][0] == "ok" and r["out"] == c["expect"]
            if c["known"]:
                if not ok:
                    if c["known"] in known_ids:
                        ctx.known_finding("id=%s reproduced by corpus/C03/%s (STEEL_JIT=%s)" % (c["known"], c["name"], jit))
                        stats["known_hits"][c["known"]] = stats["known_hits"].get(c["known"], 0) + 1
                    else:
                        report(ctx, "corpus-" + c["name"].replace("#", "-").replace(".scm", ""), c["src"], c["expect"], r, jit,
                               "directed case of finding %s, which is not listed as open" % c["known"])
                else:
                    ctx.notes.append("finding %s no longer reproduces on corpus/C03/%s (STEEL_JIT=%s)" % (c["known"], c["name"], jit))
                continue
            if not ok:
                report(ctx, "corpus-" + c["name"].replace("#", "-").replace(".scm", ""), c["src"], c["expect"], r, jit,
                       "directed case corpus/C03/%s" % c["name"])


# ------------------------------------------------------------------------------------------------
# bytecode tie: the listing of the real compiler, executed by the reference-counting VM model
# ------------------------------------------------------------------------------------------------
def run_real_bc(srcs, timeout=600, binary=None):
    """harness --bc on every program (NCPU child processes): list of dict(builtins, listing=[lines], result=str)"""
    n = len(srcs)
    results = [None] * n

    def parse(out):
        recs = []
        for blk in out.split("\x1eB\n")[1:]:
            lst, _, after = blk.partition("\x1eX")
            m = re.search(r"\x1eK #builtins (\d+)", lst)
            listing = [l for l in lst.split("\n") if l.strip() and not l.startswith("\x1eK")]
            r = re.search(r"\x1eR (.*)", after)
            rec = {"builtins": int(m.group(1)) if m else 0, "listing": listing, "result": r.group(1) if r else None}
            cm = re.search(r"\x1eC (.*)", after)
            if cm is not None:
                # optional hook output: answers of Gc::get_mut / make_mut per calling file (unique, shared)
                rec["uniq"] = dict((mm.group(1).split("src/")[-1], (int(mm.group(2)), int(mm.group(3))))
                                   for mm in re.finditer(r"(\S+)=(\d+)/(\d+)", cm.group(1)))
            recs.append(rec)
        return recs

    def run_chunk(idxs):
        todo = list(idxs)
        while todo:
            text = SEP.join(srcs[i] for i in todo) + "\n"
            rc, out, err = C.run_bin([binary or C.bin_path(HARNESS), "--bc"], text, timeout=timeout)
            recs = parse(out)
            k = 0
            for k, i in enumerate(todo):
                if k < len(recs) and recs[k]["result"] is not None:
                    results[i] = recs[k]
                else:
                    break
            else:
                return
            i = todo[k]
            why = "timeout" if rc == 124 else "exit %d: %s" % (rc, ((err or "").strip().splitlines() or [""])[-1])
            results[i] = {"builtins": 0, "listing": recs[k]["listing"] if k < len(recs) else [], "result": "crash " + why}
            todo = todo[k + 1:]

    chunks = [list(range(i, n, C.NCPU)) for i in range(C.NCPU)]
    C.pool_map(run_chunk, [c for c in chunks if c])
    return results


def run_driver_bc(recs, timeout=900):
    def one(chunk):
        inp = []
        for r in chunk:
            inp.append("bcprog")
            inp.append("builtins %d" % r["builtins"])
            inp += r["listing"]
            inp.append("endbcprog")
        rc, out, err = C.run_bin([C.driver_path(DRIVER), "bc"], "\n".join(inp) + "\n", timeout=timeout)
        res = []
        for blk in out.split("\x1eB\n")[1:]:
            m = re.search(r"^R (.*)$", blk, re.M)
            e = re.search(r"\x1eX (.*)", blk)
            res.append({"vals": m.group(1).split("\x1f") if m else [], "err": e.group(1) if e else None,
                        "stats": dict((k, int(v)) for k, v in re.findall(r"(\w+)=(\d+)", blk.split("\x1eS", 1)[1].split("\n")[0])) if "\x1eS" in blk else {}})
        if len(res) != len(chunk) and rc == 0:
            rc = 5
        return rc, res, err
    size = max(1, min(100, (len(recs) + C.NCPU - 1) // C.NCPU))
    chunks = [recs[i:i + size] for i in range(0, len(recs), size)]
    rcs, allres, errs = 0, [], ""
    for rc, res, err in C.pool_map(one, chunks):
        rcs = rcs or rc
        allres += res
        errs += (err or "")
    return rcs, allres, errs


def check_bytecode(ctx, rng, stats, quick, binary=None, key="bytecode", n=None, progs=None, exact_counts=True):
    """real compiler -> listing -> (a) the real VM runs it, (b) the model VM (M: reference-counted store, and S) runs it;
    both results against the persistent semantics computed by the generator."""
    n = n or (160 if quick else int(os.environ.get("C03_THOROUGH_BC", "4000")))
    bs = stats[key] = {"programs": 0, "in_model": 0, "outside_model": {}, "real_eq_S": 0, "model_eq_real": 0,
                              "model": {}, "opcodes": {}, "samples": []}
    progs = progs or [B.gen_program(rng, rng.randint(2, 10 if quick else 16)) for _ in range(n)]
    recs = run_real_bc([p["src"] for p in progs], binary=binary)
    rc, drv, derr = run_driver_bc(recs)
    if rc != 0 or len(drv) != len(progs):
        stats["pending"].append(("C03-driver-bc.txt", "# c03driver bc failed: rc=%d answers=%d/%d\n# %s\n" % (rc, len(drv), len(progs), (derr or "")[-500:])))
        return
    for p, r, d in zip(progs, recs, drv):
        bs["programs"] += 1
        for l in r["listing"]:
            m = re.match(r"\s*\d+\s+(\w+)", l)
            if m:
                bs["opcodes"][m.group(1)] = bs["opcodes"].get(m.group(1), 0) + 1
        res = r["result"] or "?"
        realv = res[3:].split("\x1f")[-1] if res.startswith("ok ") else res
        # the property: the real engine must print what the persistent semantics says
        if realv != p["expect"]:
            if res.startswith("crash timeout"):
                stats["transient_timeouts"] += 1
                continue
            body = ";; C03 violation (bytecode family): the real engine's result differs from the persistent semantics\n"
            body += ";;   real engine : %s\n;;   S (expected): %s\n;;   model VM    : %s\n" % (realv, p["expect"], (d["vals"] or ["-"])[-1])
            body += ";; expected output:\n;;= %s\n" % p["expect"] + p["src"]
            if len([v for v in ctx.violations if not v[1]]) < 6:
                ctx.violation("C03-bc-%d.scm" % bs["programs"], body)
            continue
        bs["real_eq_S"] += 1
        if d["err"] and d["err"].startswith("outside the model"):
            for why in d["err"].split(": ", 1)[1].split(", "):
                bs["outside_model"][why] = bs["outside_model"].get(why, 0) + 1
            continue
        bs["in_model"] += 1
        for k, v in d["stats"].items():
            bs["model"][k] = bs["model"].get(k, 0) + v
        if d["err"] or not d["vals"] or d["vals"][-1] != realv:
            stats["pending"].append(("C03-bc-model-%d.txt" % bs["programs"],
                                     "# the VM model (lean/SteelVerif/C03/VM.lean) executing the REAL listing does not compute what the real VM computes\n"
                                     "# model: %s %s\n# real : %s\n%s\n# listing:\n%s\n" % (d["err"], d["vals"], realv, p["src"], "\n".join(r["listing"]))))
            continue
        bs["model_eq_real"] += 1
        if "uniq" in r:
            # with the proposed hook: the answers of the real uniqueness tests, per file of the calling primitive, against
            # the paths the model took for objects of the corresponding kind (hash-union tests both operands: skipped)
            bs["hook_programs"] = bs.get("hook_programs", 0) + 1
            for fname, ku, ks, skip in (("primitives/vectors.rs", "vecU", "vecS", None), ("primitives/hashmaps.rs", "mapU", "mapS", "hash-union"),
                                        ("primitives/hashsets.rs", "setU", "setS", None), ("primitives/strings.rs", "strU", "strS", None)):
                if skip and skip in p["src"]:
                    continue
                real_us = r["uniq"].get(fname, (0, 0))
                model_us = (d["stats"].get(ku, 0), d["stats"].get(ks, 0))
                acc = bs.setdefault("hook_answers", {}).setdefault(fname, {"real": [0, 0], "model": [0, 0], "programs_equal": 0, "programs_differ": 0})
                acc["real"][0] += real_us[0]; acc["real"][1] += real_us[1]
                acc["model"][0] += model_us[0]; acc["model"][1] += model_us[1]
                if tuple(real_us) == model_us:
                    acc["programs_equal"] += 1
                elif not exact_counts and real_us[0] <= model_us[0] and sum(real_us) == sum(model_us):
                    # the directed hidden-reference family: the real VM may find a value shared that the model finds unique
                    # (a reference kept inside an im-lists chunk), never the other way round
                    acc["programs_real_more_conservative"] = acc.get("programs_real_more_conservative", 0) + 1
                else:
                    acc["programs_differ"] += 1
                    stats["pending"].append(("C03-bc-counts-%d.txt" % bs["programs"],
                                             "# the reference count the real VM presents at the uniqueness tests of %s differs from the model's\n"
                                             "# real (unique, shared) = %s   model (in place, copy) = %s\n%s\n" % (fname, real_us, model_us, p["src"])))
        if len(bs["samples"]) < 2 and d["stats"].get("vminplace", 0) and d["stats"].get("vmcopy", 0):
            bs["samples"].append({"src": p["src"].splitlines(), "expected": p["expect"], "real": realv, "model": d["vals"][-1], "paths": d["stats"]})
    if bs["programs"] >= 50 and bs["in_model"] * 2 < bs["programs"]:
        stats["pending"].append(("C03-bc-coverage.txt", "# fewer than half of the generated bytecode-family programs compile to op codes the VM model has: %s\n" % bs["outside_model"]))
    for need in ("MOVEREADLOCAL0", "READLOCAL0", "NEWSCLOSURE", "READCAPTURED", "CALLGLOBALTAIL", "LETENDSCOPE"):
        if bs["programs"] >= 100 and not bs["opcodes"].get(need):
            ctx.notes.append("bytecode family: op code %s did not occur in %d listings" % (need, bs["programs"]))
    ctx.log("bytecode family: %d programs, real = S on %d, inside the model %d, model = real on %d; model paths %s"
            % (bs["programs"], bs["real_eq_S"], bs["in_model"], bs["model_eq_real"], bs["model"]))


# ------------------------------------------------------------------------------------------------
# thorough tier: the same harness built against a scratch copy of /repo that carries the add-only counter hook
# corpus/C03/hook-uniqueness-counters.diff (Gc::get_mut / make_mut count their answers per calling file).  /repo itself is
# not touched.  Until the coordinator applies the hook to /repo this is how the reference counts the real VM presents at
# the uniqueness tests are compared with the model's.
# ------------------------------------------------------------------------------------------------
def build_hooked_harness(ctx):
    import filecmp
    import shutil
    import subprocess
    root = os.path.join(C.VERIF, ".build", "C03", "hookbuild")
    repo = os.path.join(root, "repo")
    diff = os.path.join(C.VERIF, "corpus", "C03", "hook-uniqueness-counters.diff")
    if not os.path.exists(diff):
        return None, "hook diff missing"
    # stage: fresh copy + patch in a temporary directory, then copy only what differs (keeps mtimes: incremental builds)
    stage = os.path.join(root, "stage")
    shutil.rmtree(stage, ignore_errors=True)
    os.makedirs(stage)
    src_repo = "/repo"
    for sub in sorted(x for x in os.listdir(src_repo) if x not in ("target", ".git")):
        s = os.path.join(src_repo, sub)
        if os.path.isdir(s):
            shutil.copytree(s, os.path.join(stage, sub), symlinks=True, ignore=shutil.ignore_patterns("target", ".git"))
        elif os.path.exists(s):
            shutil.copy2(s, os.path.join(stage, sub))
    p = subprocess.run(["patch", "-p1", "-s", "-i", diff], cwd=stage, stdin=subprocess.DEVNULL, capture_output=True, text=True, timeout=60)
    if p.returncode != 0:
        return None, "the hook diff no longer applies to /repo: " + (p.stdout + p.stderr).strip()[-300:]
    os.makedirs(repo, exist_ok=True)
    for d, _, files in os.walk(stage):
        rel = os.path.relpath(d, stage)
        os.makedirs(os.path.join(repo, rel), exist_ok=True)
        for fn in files:
            a, b = os.path.join(d, fn), os.path.join(repo, rel, fn)
            if fn.endswith((".orig", ".rej")):
                continue
            if not os.path.exists(b) or not filecmp.cmp(a, b, shallow=False):
                shutil.copy2(a, b)
    for d, _, files in os.walk(repo):
        rel = os.path.relpath(d, repo)
        for fn in files:
            if not os.path.exists(os.path.join(stage, rel, fn)):
                os.remove(os.path.join(d, fn))
    shutil.rmtree(stage, ignore_errors=True)
    h = os.path.join(root, "harness")
    os.makedirs(os.path.join(h, "src", "bin"), exist_ok=True)
    hsrc = os.path.join(C.VERIF, "harness")
    toml = open(os.path.join(hsrc, "Cargo.toml")).read().replace("/repo/", repo + "/")
    for rel, content in (("Cargo.toml", toml), ("Cargo.lock", open(os.path.join(hsrc, "Cargo.lock")).read()),
                         ("src/main.rs", open(os.path.join(hsrc, "src", "main.rs")).read()),
                         ("src/bin/c03.rs", open(os.path.join(hsrc, "src", "bin", "c03.rs")).read())):
        dst = os.path.join(h, rel)
        if not os.path.exists(dst) or open(dst).read() != content:
            open(dst, "w").write(content)
    env = dict(os.environ)
    env.update({"CARGO_NET_OFFLINE": "true", "CARGO_TARGET_DIR": os.path.join(root, "target"),
                "RUSTFLAGS": "--cfg steel_verif --cfg c03_hook"})
    try:
        p = subprocess.run(["nice", "-n", "10", "cargo", "build", "--bin", "c03"], cwd=h, stdin=subprocess.DEVNULL,
                           capture_output=True, text=True, timeout=1500, env=env)
    except subprocess.TimeoutExpired:
        return None, "building the hooked harness took more than 1500 s"
    binp = os.path.join(root, "target", "debug", "c03")
    if p.returncode != 0 or not os.path.exists(binp):
        return None, "the hooked harness does not build: " + p.stderr.strip()[-400:]
    return binp, "ok"


def first_diff(real, exp):
    for i in range(max(len(real), len(exp))):
        a = real[i] if i < len(real) else "<nothing>"
        b = exp[i] if i < len(exp) else "<nothing>"
        if a != b:
            return i, a, b
    return None


def report(ctx, name, src, exp, r, jit, what, abstract=None):
    d = first_diff(r["out"], exp)
    body = ";; C03 violation: %s (STEEL_JIT=%s)\n" % (what, jit)
    body += ";; outcome of the real engine: %s %s\n" % r["res"]
    if d:
        body += ";; first difference at output line %d\n;;   real engine : %s\n;;   S (expected): %s\n" % (d[0] + 1, d[1], d[2])
    if abstract:
        body += ";; abstract program (input of c03driver):\n" + "".join(";;@ %s\n" % l for l in abstract.splitlines())
    body += ";; expected output:\n" + "".join(";;= %s\n" % l for l in exp)
    body += src
    if len([v for v in ctx.violations if not v[1]]) < 6:
        ctx.violation("C03-%s.scm" % name, body)


# ------------------------------------------------------------------------------------------------
# classes of open findings
# ------------------------------------------------------------------------------------------------
def in_class_k03a(prog):
    """K03a: some `append` is evaluated with an empty first operand (and at least one more operand)"""
    hit = []

    class Ev(A.Eval):
        def apply(self, op, atoms, env):
            if op in ("append", "append3", "tr-ext") and atoms:
                v = self.atom(atoms[0], env)
                if A.kind(v) == "l" and len(v[1]) == 0:
                    hit.append(op)
            return A.Eval.apply(self, op, atoms, env)
    try:
        Ev().run(prog)
    except A.Invalid:
        pass
    return bool(hit)


def in_class_k03b(prog):
    """K03b: the main thread spawns a thread and then goes on defining / assigning GLOBALS before it joins it (layout `top`:
    every statement of the main block is a top-level define; other layouts: a `gset`)"""
    main = prog["main"]
    top = prog.get("layout", "top") == "top"
    for i, st in enumerate(main):
        if st[0] != "spawn":
            continue
        for later in main[i + 1:]:
            if later[0] == "join" and later[1] == st[1]:
                break
            if later[0] == "gset" or (top and later[0] in ("def", "set", "clo", "box", "loop", "spawn", "kont")):
                return True
    return False


def outcome_k03b(r, exp):
    """how K03b fails: the spawned thread reads a global as undefined / void; the run ends with that error, everything
    printed before it is what S says.  (A wrong printed value is NOT this finding.)"""
    if r["res"][0] != "err":
        return False
    msg = r["res"][1]
    if not ("Function application not a procedure" in msg and "#<void>" in msg or "FreeIdentifier" in msg
            or "free identifier" in msg.lower()):
        return False
    return r["out"] == exp[:len(r["out"])]


CLASSES = {"K03a": in_class_k03a, "K03b": in_class_k03b}
OUTCOMES = {"K03b": outcome_k03b}


# ------------------------------------------------------------------------------------------------
def run(ctx):
    stats = {"programs": 0, "runs": 0, "prints": 0, "corpus_cases": 0, "known_hits": {}, "ops": {}, "vias": {}, "layouts": {},
             "threads": 0, "kont": 0, "model": {}, "real_uniqueness_answers": {}, "transient_timeouts": 0, "samples": [], "pending": [], "oracle_mismatch": 0, "distinct": set()}
    known = {k.get("id"): k for k in ctx.load_known()}

    # translate
    rc, tout = C.sh(["python3", os.path.join(C.VERIF, "translate", "c03_inplace.py")], timeout=120)
    extracted = None
    if rc == 0:
        try:
            extracted = json.loads(tout.strip().splitlines()[-1])
        except (ValueError, IndexError):
            rc = 3
    if rc != 0:
        stats["pending"].append(("C03-translator.txt", "# translate/c03_inplace.py no longer understands the sources of /repo:\n# %s\n"
                                 % tout.strip()[-800:]))
    # prove
    pr = C.prove(ctx, "C03", ["SteelVerif.C03.GenInPlace", "SteelVerif.C03.PropsVM", "SteelVerif.C03.C05Link", DRIVER])
    ok, log = C.build_harness(ctx, [HARNESS])
    cov = {"obligations": pr["obligations"], "discharged": pr["discharged"],
           "checker_cmd": "cd lean && lake build SteelVerif.C03.Props SteelVerif.C03.PropsVM SteelVerif.C03.C05Link SteelVerif.C03.GenInPlace && lake env lean SteelVerif/C03/Audit.lean",
           "trusted_base": C.TRUSTED_BASE + ["translate/c03_inplace.py (regex extraction; reviewed classification table)",
                                             "C05: has_unique_ref answers true only for the sole reference"]}
    if not ok or not os.path.exists(C.driver_path(DRIVER)):
        ctx.violation("C03-build.txt", "harness or driver does not build:\n" + log + pr["log"][-3000:], no_input=True)
        ctx.coverage = cov
        return ctx.finish()

    # corpus first
    run_corpus(ctx, stats, known)

    # generated programs
    quick = ctx.quick()
    rng = random.Random(ctx.seed * 1000003 + 3)
    total = 600 if quick else 40000
    maxops = 25 if quick else 120
    done = 0
    batch = 600 if quick else int(os.environ.get("C03_THOROUGH_BATCH", "1600"))
    # the thorough tier stops after its wall-clock budget (the evidence reports how many programs were run)
    budget = None if quick else float(os.environ.get("C03_THOROUGH_BUDGET_S", "1500"))
    import time
    t_gen = time.time()
    while done < total and len([v for v in ctx.violations if not v[1]]) < 3:
        if budget is not None and time.time() - t_gen > budget:
            ctx.notes.append("thorough tier: wall-clock budget of %.0f s reached after %d of %d programs" % (budget, done, total))
            break
        n = min(batch, total - done)
        progs = []
        for i in range(n):
            r = rng.random()
            nth = 0 if r < 0.55 else (1 if r < 0.85 else 2)
            nops = rng.randint(3, maxops) if (quick or rng.random() < 0.7) else rng.randint(maxops // 2, maxops)
            p = A.gen_program(rng, nops, nthreads=nth)
            progs.append(p)
        check_batch(ctx, progs, stats, known, "g%d" % done)
        done += n
    ctx.log("programs=%d runs=%d prints compared=%d" % (stats["programs"], stats["runs"], stats["prints"]))

    # the class of every open finding is also run on purpose (a few programs each), so that the KNOWN-FINDING line
    # appears on every run while the finding is open
    kprogs = []
    for _ in range(40 if quick else 400):
        kprogs.append(gen_k03a(rng))
    check_batch(ctx, kprogs, stats, known, "k03a")

    # the VM model on the listings of the real compiler
    check_bytecode(ctx, rng, stats, quick)
    if not quick and os.environ.get("C03_NO_HOOK_BUILD") != "1":
        # ... and, against a scratch copy of /repo with the counter hook, the answers of the real uniqueness tests
        binp, why = build_hooked_harness(ctx)
        ctx.log("hooked harness (scratch copy of /repo + corpus/C03/hook-uniqueness-counters.diff): %s" % why)
        if binp:
            check_bytecode(ctx, rng, stats, quick, binary=binp, key="bytecode_with_counter_hook", n=800)
            check_bytecode(ctx, rng, stats, quick, binary=binp, key="bytecode_hidden_reference_family", progs=B.hidden_reference_programs(),
                           exact_counts=False)
        else:
            ctx.notes.append("uniqueness-counter hook not available: " + why)

    # decide
    if not pr["ok"] and not ctx.violations:
        body = "proof obligations of SteelVerif.C03 that no longer check:\n" + "\n".join("%s: %s" % f for f in pr["failed"]) + "\n"
        if extracted:
            unc = [p["rust"] for p in extracted["prims"] if p["cls"] == "unclassified"]
            unex = [p["rust"] for p in extracted["prims"] if p["cls"] in ("fastPath", "libPath") and p["registered"] and not p["exercisedBy"]]
            body += "unclassified in-place primitives: %s\nregistered fast paths that nothing exercises: %s\n" % (unc, unex)
        ctx.violation("C03-proof-broken.txt", body, no_input=True)
    if stats["pending"] and not ctx.violations:
        name, body = stats["pending"][0]
        ctx.violation(name, body + "# the tie between SteelVerif.C03 and /repo no longer holds (%d items); no property violation "
                      "exhibited\n" % len(stats["pending"]), no_input=True)

    prim_cov = {}
    if extracted:
        for p in extracted["prims"]:
            if p["steel"]:
                prim_cov[p["steel"]] = {"class": p["cls"], "registered": p["registered"], "tests": p["tests"] or p["lib"],
                                        "calls_in_generated_programs": sum(stats["ops"].get(o, 0) for o in p["exercisedBy"] if o != "corpus"),
                                        "in_corpus": "corpus" in p["exercisedBy"]}
    cov.update({
        "evaluations": stats["runs"] + stats["corpus_cases"],
        "distinct_nontrivial": len(stats["distinct"]),
        "rule": "program = random.Random(VERIF_SEED) alias-heavy operation sequence (<= %d operations; layouts: internal "
                "defines / nested lets / top level; call forms: direct, helper function, let alias, immediate lambda, apply, "
                "thunk; keepers: global, closure capture, container slot, continuation re-entry, 1-2 extra threads with "
                "channels), each run with STEEL_JIT=true and false; non-trivial = the model took the in-place path at least "
                "once AND the copy path at least once (an alias was alive at an update); distinct = different abstract "
                "programs" % maxops,
        "samples": stats["samples"],
        "programs": stats["programs"], "runs": stats["runs"], "printed_values_compared": stats["prints"],
        "corpus_cases": stats["corpus_cases"],
        "operations": stats["ops"], "call_forms": stats["vias"], "layouts": stats["layouts"],
        "programs_with_threads": stats["threads"], "programs_with_continuation_reentry": stats["kont"],
        "model_paths": stats["model"],
        "vm_model_on_abstract_programs": {k: v for k, v in stats["model"].items() if k.startswith("vm")},
        "bytecode_family(real listing executed by the VM model)": stats.get("bytecode", {}),
        "bytecode_family_with_counter_hook(thorough tier; real uniqueness answers per file vs the model's paths)": stats.get("bytecode_with_counter_hook", {}),
        "bytecode_hidden_reference_family(cdr/rest of a unique list holding a collection: real unique <= model in place)": stats.get("bytecode_hidden_reference_family", {}),
        "real_uniqueness_answers_per_calling_file(unique,shared; needs the proposed hook, includes the prelude)": stats["real_uniqueness_answers"],
        "python_oracle_vs_lean_S_mismatches": stats["oracle_mismatch"],
        "timeouts_that_passed_when_rerun_alone": stats["transient_timeouts"],
        "in_place_primitives": prim_cov,
        "translator": {k: v for k, v in (extracted or {}).items() if k != "prims"},
        "known_finding_hits": stats["known_hits"],
        "axioms": pr.get("axioms", {}),
        "proof_failures": ["%s: %s" % f for f in pr["failed"]],
    })
    ctx.coverage = cov
    ctx.assumptions = ["has_unique_ref is a sound uniqueness test (C05)", "persistent collection libraries modelled as one object per collection"]
    return ctx.finish("proof")


def gen_k03a(rng):
    """a program of class K03a: like the others, but appends with an empty first operand are allowed and one is forced"""
    for _ in range(200):
        g = A.Gen(rng, rng.randint(4, 12), rng.choice(["defines", "lets", "top"]))
        g.allow_k03a = True
        try:
            g.new_value()
            xs = g.define("list", [("i", 1), ("i", 2), ("i", 3), ("i", 4), ("i", 5), ("i", 6), ("i", 7), ("i", 8)], "direct")
            one = g.define("list", [("i", 1)], "direct")
            ys = g.define("append", [("h", one), ("h", xs)], "direct")
            e = g.define("list", [], "direct")
            g.define("append", [("h", e), ("h", ys)], rng.choice(A.VIAS[:5]))
            g.body()
            g.checkpoint()
            p = {"main": g.stmts, "globals": g.globals, "layout": g.layout, "ops": g.ops_used, "vias": g.vias_used}
            p["expect"] = A.Eval().run(p)
            return p
        except A.Invalid:
            continue
    raise RuntimeError("gen_k03a")


def check_batch(ctx, progs, stats, known, label):
    srcs = [A.render(p) for p in progs]
    sers = [A.serialise(p) for p in progs]
    rc, drv, derr = run_driver(sers)
    if rc != 0 or len(drv) != len(progs):
        stats["pending"].append(("C03-driver-%s.txt" % label, "# c03driver failed on the generated programs: rc=%d answers=%d/%d\n# %s\n"
                                 % (rc, len(drv), len(progs), (derr or "")[-500:])))
        return
    for p, d in zip(progs, drv):
        stats["programs"] += 1
        for o, c in p.get("ops", {}).items():
            stats["ops"][o] = stats["ops"].get(o, 0) + c
        for o, c in p.get("vias", {}).items():
            stats["vias"][o] = stats["vias"].get(o, 0) + c
        stats["layouts"][p["layout"]] = stats["layouts"].get(p["layout"], 0) + 1
        stats["threads"] += 1 if p.get("ops", {}).get("thread") else 0
        stats["kont"] += 1 if any(st[0] == "kont" for st in p["main"]) else 0
        for k, v in d["stats"].items():
            stats["model"][k] = stats["model"].get(k, 0) + v
        if d["stats"].get("inplace", 0) and d["stats"].get("copy", 0):
            stats["distinct"].add(hash(A.serialise(p)))
        if d["err"] or d["out"] != p["expect"]:
            # the two implementations of S disagree: a defect of the check itself
            stats["oracle_mismatch"] += 1
            dd = first_diff(d["out"], p["expect"])
            stats["pending"].append(("C03-oracle-%s.txt" % label, "# the Lean driver's S and the generator's evaluator disagree (%s): %s\n%s\n"
                                     % (d["err"], dd, A.serialise(p))))
    for jit in ("true", "false"):
        res = run_real(srcs, env={"STEEL_JIT": jit})
        for i, (p, d, r) in enumerate(zip(progs, drv, res)):
            stats["runs"] += 1
            for site, (u, sh) in (r.get("uniq") or {}).items():
                acc = stats["real_uniqueness_answers"].setdefault(site, [0, 0])
                acc[0] += u
                acc[1] += sh
            exp = d["out"] if not d["err"] else p["expect"]
            stats["prints"] += len(exp)
            if r["res"][0] == "ok" and r["out"] == exp:
                if len(stats["samples"]) < 3 and d["stats"].get("inplace", 0) and d["stats"].get("copy", 0) and len(exp) > 6:
                    stats["samples"].append({"abstract": A.serialise(p).splitlines()[:30], "expected": exp[:8], "real": r["out"][:8],
                                             "model": d["stats"], "jit": jit})
                continue
            # a time-out / killed child on a loaded machine is not a verdict: run the program again on its own with a
            # generous limit; a wrong output or an error of the engine is a verdict even if it does not reproduce
            if r["res"][0] in ("timeout", "crash"):
                again = run_real([srcs[i]], env={"STEEL_JIT": jit, "C03_TIMEOUT_S": "150"}, timeout=200)[0]
                if again["res"][0] == "ok" and again["out"] == exp:
                    stats["transient_timeouts"] += 1
                    continue
                r = again
            # real != S: known class?
            hit = None
            for fid, pred in CLASSES.items():
                if fid in known and pred(p) and OUTCOMES.get(fid, lambda r_, e_: True)(r, exp):
                    hit = fid
                    break
            if hit:
                ctx.known_finding("id=%s class=%s reproduced by a generated program" % (hit, known[hit].get("class", hit)))
                stats["known_hits"][hit] = stats["known_hits"].get(hit, 0) + 1
                continue
            mp, mr = minimise(p, jit, r)
            report(ctx, "%s-%d-jit%s" % (label, i, jit), A.render(mp), mp["expect"], mr, jit,
                   "generated program (minimised from %d to %d statements)" % (len(p["main"]), len(mp["main"])), A.serialise(mp))


def minimise(p, jit, first):
    """statement-level delta reduction; the oracle is the python evaluator (checked equal to the driver's S).
    `first` = the failing record that was observed (reported as it is when the failure does not reproduce)."""
    def attempt(main):
        q = {"main": main, "globals": A.globals_of(main), "layout": p["layout"], "ops": {}, "vias": {}}
        try:
            q["expect"] = A.Eval().run(q)
        except (A.Invalid, KeyError, IndexError, TypeError):
            return None
        r = run_real([A.render(q)], env={"STEEL_JIT": jit}, timeout=60)[0]
        if r["res"][0] == "ok" and r["out"] == q["expect"]:
            return None
        return q, r
    cur = attempt(list(p["main"]))
    if cur is None:
        return p, first

    main = list(p["main"])
    changed, rounds = True, 0
    while changed and rounds < 6:
        changed = False
        rounds += 1
        i = 0
        while i < len(main):
            cand = main[:i] + main[i + 1:]
            got = attempt(cand)
            if got is not None:
                main, cur, changed = cand, got, True
            else:
                i += 1
    return cur


def replay(ctx, path):
    text = open(path).read()
    C.build_harness(ctx, [HARNESS])
    exp = [l[4:] for l in text.split("\n") if l.startswith(";;= ")]
    abstract = "\n".join(l[4:] for l in text.split("\n") if l.startswith(";;@ "))
    src = "\n".join(l for l in text.split("\n") if not l.startswith(";;"))
    if "(define (show x)" not in src:
        src = A.PRELUDE + src
    if abstract and os.path.exists(C.driver_path(DRIVER)):
        rc, drv, _ = run_driver([abstract])
        if drv:
            print("--- S (c03driver)  model paths: %s" % drv[0]["stats"])
            print("\n".join(drv[0]["out"]))
            exp = drv[0]["out"]
    bad = 0
    for jit in ("true", "false"):
        r = run_real([src], env={"STEEL_JIT": jit}, timeout=60)[0]
        print("--- real engine, STEEL_JIT=%s: %s %s" % (jit, r["res"][0], r["res"][1]))
        print("\n".join(r["out"]))
        d = first_diff(r["out"], exp)
        if d or r["res"][0] != "ok":
            bad = 1
            print("--- differs from the expected output at line %s: real `%s`, expected `%s`" % ((d[0] + 1, d[1], d[2]) if d else ("-", "-", "-")))
    print("--- expected\n" + "\n".join(exp))
    return bad
