"""C19 — unreachable mutable storage, including cycles, is eventually reclaimed.

prove      : lake build SteelVerif.C19.Props (+ axiom audit) on the C04 model: count_inv (alloc_count = number
             of free slots after every operation, also when other threads' roots are marked first),
             sweep_complete (after a full collection everything still allocated is reachable: cycles need no
             special case), reuse_before_grow / no_growth_while_free, heap_bounded (bounded live set => bounded
             number of slots for any number of operations), weak_box_cleared; negative witness for the
             dropped-statistics variant (the defect fixed in b0ffd538).
correspond : allocation patterns with a bounded live set on real engines (harness c04), `#%verif-heap-stats`
             sampled: alloc_count == free slots found by counting (both free lists) at every sample; after a
             final full collection the number of allocated slots is back at the baseline measured before the
             pattern (+ the pattern's declared live set): nothing that became unreachable stays allocated; the
             total number of slots stays under the bound of the growth-then-compaction policy; weak boxes whose
             target died report #false.  Patterns: acyclic garbage, rings of length 1-8 through boxes / mutable
             vectors / mutable struct fields, self-capturing closures, garbage held only by dead continuations,
             by shadowed globals (crossing the slot-recycling threshold), by finished threads; two allocating
             threads; garbage that passed through a host-root mechanism ACROSS a full collection (message in transit
             in a channel, result of a finished unjoined thread, closure wrapped by #%closure->boxed-function),
             arguments of failing host-side callbacks recovered by with-handler, data captured by the closure of a
             dead thread: slots back at the baseline, wills registered on that garbage all become ready, and the
             resident set size (/proc/self/statm) after the warm-up rounds vs. at the end stays within a margin that
             is a fraction of what a never-released root would cost.  Host roots under CONTENTION: 8 threads bouncing fresh
             self-referencing garbage through private channels at the same time, 12 threads whose results are joined
             while the others finish (live set O(threads)): slots back at the baseline.  RELOADS: one engine evaluates a
             script 700 (thorough 4000) times that defines self-recursive / mutually recursive / three-cycle / letrec
             procedures and their data: global slots in use (symbol map length minus reclaimed slots, harness directive
             ;;;host-reload) stay within the recycler's largest backlog, the recycler ran, the shadowed values' heap
             slots are reclaimed.  COMPACTION: garbage cycles (two-cycles, box<->vector, self-capturing closures, rings,
             chains built tail first) across explicit collections past the first compaction (quick: 1, thorough: 6) of
             the value list: after a compaction the list has exactly live + max(live, EXTEND_CHUNK) slots.  Modes: the collector's own policy, and a forced full collection at every 13th allocation.
"""
import os
import random
import re

from . import common as C
from . import c04

PID = "C19"
META = {
    "ready": True,
    "category": "proof",
    "technique": "Lean 4 theorems on the C04 free-list/collector model (free-slot accounting invariant over all operation lists, sweep completeness by graph reachability, reuse before growth, weak box clearing, bounded number of slots) and on a model of the host-root table + facts regenerated from closed.rs (policy constants and statements, RootToken::drop frees unconditionally, the slot recycler's root walk skips its candidates) checked by `decide` + heap statistics, global-slot counts and resident memory of the real engine sampled over long allocation patterns with a bounded live set (single thread, several threads contending on the root table, script reloads on one engine, cyclic garbage across compactions)",
    "level_text": "Proved for all heaps, roots and operation lists (SteelVerif/C19/Props.lean): after every operation alloc_count equals the number of slots whose mark bit is clear, the cursor slot is free and addresses are distinct (count_inv; also for marking several root sets one after the other with summed statistics — and a `decide`d witness that dropping the first counter, the code before b0ffd538, breaks it); after a full collection every slot still marked allocated is reachable from the roots along the fields the marker follows, so garbage of any shape — chains, cycles of any length, self-capturing closures — is free (sweep_complete), and the marker follows no field outside the specification table; allocate always hands out an existing free slot and extends the list only when it took the last one (reuse_before_grow); a weak box whose private slot is unreachable reports cleared after a collection; root_token_release: in the host-root table (keys (generation, offset), generation bumped by every full collection) a value whose token was dropped — after any number of other roots, drops and collections — is a host root of no later collection, and until then it is one (root_token_live), with a `decide`d witness that releasing under the CURRENT generation leaks once a collection separates rooting and release; heap_bounded: for every operation list (allocations under the 95 % policy, explicit collections anywhere) in which each full collection finds at most M >= EXTEND_CHUNK live slots, the number of slots never exceeds 2*M*2^RESET_LIMIT (= max(L, 25600) * 2^10 for the constants of the code) and grow_count stays in 1..RESET_LIMIT+1, independent of the number of operations (the hypothesis bounds what a full collection MARKS, markedCount - every marked slot is reachable, markedCount_le_reachable, and there are at most as many as slots, markedCount_le_length, and if every reachable address lies in a list of length M then at most M are marked, markedCount_le_of_reachable; liveOK_alloc_gcFull instantiates it on a run that allocates and collects; growth-then-compaction policy; the policy leaves two free slots so FreeList::allocate itself never extends); the constants and the policy are tied to the source on every run: translate/c04_edges.py reads EXTEND_CHUNK (both impl FreeList blocks), RESET_LIMIT, the initial grow_by of FreeList::new and recognises the statements of grow_by / grow / compact / is_heap_full / percent_full and, in all three copies of the collection routine, the 0.95 threshold and `compact if grow_count > RESET_LIMIT else grow`; model_constants_match_source (decide) states that the model's default parameters ARE those constants, that they satisfy heap_bounded's side conditions and that every policy statement the model transcribes was found, and heap_bounded_source instantiates the bound with them (today: max(L, 25600) * 1024 slots). root_token_release rests on RootToken::drop always calling Roots::free: root_token_drop_always_frees (decide over the two extracted bodies of `fn drop`: exactly one unconditional free each, no try_lock / condition / early return), with the decided witness release_skipped_when_busy_leaks for the variant that gives up when the table is busy. recycler_root_walk_skips_candidates (decide over the extracted statements of GlobalSlotRecycler::recycle): the first walk starts from the non-candidate globals only, candidates come from the drained shadowed list, live candidates are walked to a fixed point - so a shadowed recursive procedure cannot keep its own slot alive; that the recycler then reclaims them is checked on reload runs, not proved (the recycler's model is C06's). Resident memory of the process (Arc allocations, Vec capacity, the allocator, reference-counted data whose release depends on steel-rc — property C05) is outside the model: the 'bounded memory' clause is checked on runs only (slot counts against the bound, RSS plateau over rounds with a constant live set).",
    "level_note": "Trusted: Lean kernel, the C04 translator and tables, harness/generator/comparison, the #%verif-heap-stats hook. Deferred cross-thread reference drops (steel-rc merge queues, property C05) and will executors are not modelled.",
}

PRE = c04.PREAMBLE + """(define (live) (let ((s (#%verif-heap-stats))) (list (- (list-ref s 0) (list-ref s 1)) (- (list-ref s 4) (list-ref s 5)))))
(define (run-chunks k chunk f acc) (if (= k 0) (reverse acc) (begin (f chunk) (run-chunks (- k 1) chunk f (cons (#%verif-heap-stats) acc)))))
(define (ring-box k) (let ((first (box 0))) (let loop ((i 1) (prev first)) (if (>= i k) (begin (set-box! prev first) 0) (let ((c (box 0))) (set-box! prev c) (loop (+ i 1) c))))))
(define (ring-vec k) (let ((first (mutable-vector 0 0))) (let loop ((i 1) (prev first)) (if (>= i k) (begin (vector-set! prev 0 first) 0) (let ((c (mutable-vector 0 0))) (vector-set! prev 0 c) (loop (+ i 1) c))))))
(define (ring-fld k) (let ((first (mcell 0))) (let loop ((i 1) (prev first)) (if (>= i k) (begin (set-mcell-v! prev first) 0) (let ((c (mcell 0))) (set-mcell-v! prev c) (loop (+ i 1) c))))))
(define (ring-mixed k) (let ((first (box 0))) (let loop ((i 1) (prev first)) (if (>= i k) (begin (set-box! prev (list 1 first)) 0) (let ((c (box 0))) (set-box! prev (mutable-vector (hash 'k c) 2)) (loop (+ i 1) c))))))
(define kk #f)
(define (capt) (let ((x (box 1)) (y (mutable-vector 1 2))) (call/cc (lambda (c) (set! kk c))) (set-box! x kk) 0))
(define (mklist n) (if (= n 0) '() (cons (box n) (mklist (- n 1)))))
"""

# name -> (definition of (pat n), allocations per unit of n, extra live slots allowed at the end (values, vectors))
PATTERNS = {
    "acyclic": ("(define (pat n) (if (= n 0) 0 (begin (box n) (mutable-vector n n) (mcell n) (box (list (box n))) (pat (- n 1)))))", 4, (0, 0)),
    "rings-box": ("(define (pat n) (if (<= n 0) 0 (begin (ring-box (+ 1 (modulo n 8))) (pat (- n 4)))))", 1, (0, 0)),
    "rings-vec": ("(define (pat n) (if (<= n 0) 0 (begin (ring-vec (+ 1 (modulo n 8))) (pat (- n 4)))))", 1, (0, 0)),
    "rings-fld": ("(define (pat n) (if (<= n 0) 0 (begin (ring-fld (+ 1 (modulo n 8))) (pat (- n 4)))))", 1, (0, 0)),
    "rings-mixed": ("(define (pat n) (if (<= n 0) 0 (begin (ring-mixed (+ 1 (modulo n 8))) (pat (- n 4)))))", 1, (0, 0)),
    "self-closure": ("(define (selfcap) (letrec ((f (lambda () f))) f))\n(define (pat n) (if (= n 0) 0 (begin (let ((b (box #f))) (set-box! b (lambda () (unbox b)))) (selfcap) (pat (- n 1)))))", 2, (0, 0)),
    "dead-continuation": ("(define (pat n) (if (= n 0) (begin (set! kk #f) 0) (begin (capt) (pat (- n 1)))))", 2, (0, 0)),
    "dead-thread": ("(define (pat n) (if (<= n 0) 0 (begin (thread-join! (spawn-native-thread (lambda () (length (mklist 500))))) (pat (- n 500)))))", 1, (0, 0)),
}


def pattern_program(name, total, samples, mode):
    d, per, allow = PATTERNS[name]
    chunk = max(1, total // samples // per)
    body = [PRE + d + "\n0"]
    body.append("(#%gc-collect)\n(define base (live))\nbase")
    if mode:
        body.append("(#%%verif-gc-every %d)\n0" % mode)
    body.append("(define samples (run-chunks %d %d pat '()))\n(#%%verif-gc-every 0)\nsamples" % (samples, chunk))
    body.append("(#%gc-collect)\n(list base (live))")
    return "\n;;;---\n".join(body)


def shadow_program(n, every):
    """Redefinitions of one global in separate evaluations: the shadowed values are garbage; they are kept
    until the global-slot recycler runs (thresholds 100..800 queued slots) and must be reclaimed then."""
    body = [PRE + "0", "(#%gc-collect)\n(live)"]
    for i in range(n):
        body.append("(define shadowed-g (list (box %d) (mutable-vector %d) (box (box %d))))" % (i, i, i))
        if i % every == every - 1:
            body.append("(#%gc-collect)\n(live)")
    body.append("(#%verif-heap-stats)")
    return "\n;;;---\n".join(body)


# Garbage that passes through a host-root mechanism (RootedSteelVal / GLOBAL_ROOTS, or the operand stack of a
# host-driven callback thread) ACROSS a full collection, and garbage captured by the closure of a dead thread.
# `fullgc` = one forced full collection without the growth step (it bumps the root table's generation like any
# other).  Each program returns (name base-live final-live rss-after-warm-up-kB rss-at-end-kB).
HOSTPRE = PRE + """(define (fullgc) (#%verif-gc-every 1) (box 0) (#%verif-gc-every 0) 0)
(define (rss-kb) (let* ((p (open-input-file "/proc/self/statm")) (s (read-port-to-string p)) (pages (string->number (cadr (split-whitespace s))))) (close-input-port p) (* pages 4)))
(define (selfbox) (let ((b (box 0))) (set-box! b (lambda () b)) b))
(define (junk tag size) (list (selfbox) (mutable-vector (selfbox) tag) (make-bytes size tag)))
(define (repeat n thunk) (if (> n 0) (begin (thunk) (repeat (- n 1) thunk)) 0))
(define (measure name warm n round)
  (fullgc) (let ((base (live))) (repeat warm round) (let ((r0 (rss-kb))) (repeat n round) (let ((r1 (rss-kb))) (fullgc) (list name base (live) r0 r1)))))
"""

# name -> (definitions, warm-up rounds, rounds, what leaks per round if the root is never released (kB), margin kB)
HOSTPATTERNS = {
    "channel-in-transit": ("""(define ch (channels/new))
(define tx (channels-sender ch))
(define rx (channels-receiver ch))
(define (round) (repeat 10 (lambda () (channel/send tx (junk 1 200000)))) (fullgc) (repeat 10 (lambda () (channel/recv rx))) 0)""", 5, 40, 2000, 24000),
    "unjoined-thread-result": ("""(define done (channels/new))
(define (round) (let ((t (spawn-native-thread (lambda () (let ((r (junk 2 1000000))) (channel/send (channels-sender done) 'd) r))))) (channel/recv (channels-receiver done)) (time/sleep-ms 3) (fullgc) (thread-join! t) 0))""", 5, 60, 1000, 20000),
    "boxed-function": ("""(define (round) (let ((f (#%closure->boxed-function (let ((j (junk 3 1000000))) (lambda (x) (list j x)))))) (fullgc) (f 1) 0))""", 5, 60, 1000, 20000),
    "failing-host-callback": ("""(define callback (#%closure->boxed-function (lambda (tag payload) (if (symbol? tag) (error "callback failed" tag) (list tag payload)))))
(define (round) (with-handler (lambda (e) 'recovered) (callback 'probe (junk 4 300000))))""", 20, 250, 300, 25000),
    "dead-thread-captured-data": ("""(struct blob (a b))
(define (round) (let* ((payload (blob (make-bytes 1000000 5) (list 1 2 3))) (t (spawn-native-thread (lambda () (bytes-length (blob-a payload)))))) (thread-join! t) (box 1) 0))""", 20, 200, 1000, 64000),
}

# Host roots under contention: N threads, each bouncing fresh self-referencing garbage through a PRIVATE channel
# (send roots the message, receive drops the token - at most one message per thread is ever pending), all at the
# same time, so that taking and dropping tokens of different threads collide on the root table.  Live set: O(N).
MT_BOUNCE = """(define (bounce n tag) (let* ((ch (channels/new)) (tx (channels-sender ch)) (rx (channels-receiver ch)))
  (let loop ((i 0) (acc 0)) (if (= i n) acc (begin (channel/send tx (mutable-vector tag i (selfbox))) (loop (+ i 1) (+ acc (mut-vector-ref (channel/recv rx) 1))))))))
(define (round) (let ((ts (map (lambda (k) (spawn-native-thread (lambda () (bounce @PER@ k)))) (range 0 @THREADS@)))) (map thread-join! ts) 0))"""
# second form: the rooted values are thread results collected by one joiner while the other threads still finish
MT_RESULTS = """(define (worker k) (lambda () (mutable-vector k (selfbox) (selfbox))))
(define (round) (let ((ts (map (lambda (k) (spawn-native-thread (worker k))) (range 0 @THREADS@)))) (map (lambda (t) (mut-vector-ref (thread-join! t) 0)) ts) 0))"""

# Reloading a script on ONE engine: every run of the script is a top-level evaluation that defines the same
# globals again, so the previous values are shadowed; the global-slot recycler (runs when more than
# 100/200/400/800 shadowed slots are queued) must hand their slots out again - also when the shadowed values
# are (mutually) recursive procedures, whose own code mentions their own slot.  name -> (script, definitions)
RELOADS = {
    "self-recursive-over-table": ("(define table (mutable-vector 1 2 3))\n(define (sum-table i) (if (< i 3) (+ (mut-vector-ref table i) (sum-table (+ i 1))) 0))\n(sum-table 0)", 2),
    "mutually-recursive": ("(define (ev? n) (if (= n 0) #t (od? (- n 1))))\n(define (od? n) (if (= n 0) #f (ev? (- n 1))))\n(ev? 4)", 2),
    "three-cycle-and-data": ("(define data (box (list 1 2 3)))\n(define (fa n) (if (= n 0) (length (unbox data)) (fb (- n 1))))\n(define (fb n) (if (= n 0) 1 (fc (- n 1))))\n(define (fc n) (if (= n 0) 2 (fa (- n 1))))\n(fa 7)", 4),
    "recursive-closure-in-global": ("(define walk (letrec ((go (lambda (l acc) (if (null? l) acc (go (cdr l) (+ acc (car l))))))) go))\n(define (use) (walk (list 1 2 3) 0))\n(use)", 2),
    "not-recursive": ("(define cfg (mutable-vector 1 2))\n(define (get) (mut-vector-ref cfg 0))\n(get)", 2),
}
RECYCLER_MAX_THRESHOLD = 800


def reload_program(name, n):
    script, _ = RELOADS[name]
    return PRE + "0\n;;;---\n(#%%gc-collect)\n(live)\n;;;---\n;;;host-reload %d\n%s\n;;;---\n(#%%gc-collect)\n(live)" % (n, script)


# Cyclic garbage past a COMPACTION of the free list.  The list is compacted by the full collection that finds
# grow_count > RESET_LIMIT; every explicit collection request grows the list, so RESET_LIMIT requests bring the
# value list to 25 856 * 2^8 slots (about 450 MB) and the next one compacts.  Between the requests the program
# makes garbage cycles; after a compaction the list must consist of exactly the live slots plus
# max(live, EXTEND_CHUNK) fresh ones (`Heap.compact` of the model) - a compaction that keeps dead slots shows as
# a larger list, and over several rounds as a list that no longer returns to that size.
COMPACT = PRE + """(define (two-cycle) (let ((a (box 0)) (b (box 0))) (set-box! a b) (set-box! b a) 0))
(define (vec-cycle) (let ((a (box 0))) (set-box! a (mutable-vector a a)) 0))
(define (self-closure) (letrec ((f (lambda () f))) (box f)) 0)
(define (chain-tail-first n) (let loop ((i 0) (prev (box 'end))) (if (= i n) 0 (loop (+ i 1) (box prev)))))
(define (cycles n) (if (= n 0) 0 (begin (two-cycle) (vec-cycle) (self-closure) (ring-box (+ 2 (modulo n 5))) (chain-tail-first 3) (cycles (- n 1)))))
(define (round k acc) (if (= k 0) (reverse acc) (begin (cycles @N@) (#%gc-collect) (round (- k 1) (cons (#%verif-heap-stats) acc)))))
0
;;;---
(round @K@ '())"""


WILLS = HOSTPRE + """(define ch (channels/new))
(define tx (channels-sender ch))
(define rx (channels-receiver ch))
(define ex (make-will-executor))
(define fired (box 0))
(define (watch b) (will-register ex b (lambda (x) (set-box! fired (+ 1 (unbox fired))))) b)
(define callback (#%closure->boxed-function (lambda (tag payload) (if (symbol? tag) (error "callback failed" tag) (list tag payload)))))
(repeat 40 (lambda () (channel/send tx (watch (selfbox)))))
(fullgc)
(repeat 40 (lambda () (channel/recv rx)))
(repeat 40 (lambda () (with-handler (lambda (e) 'recovered) (callback 'probe (watch (selfbox))))))
(fullgc)
(spawn-native-thread (lambda () (let loop () (will-execute ex) (loop))))
(define (wait n) (cond ((= (unbox fired) 80) #t) ((= n 0) #f) (else (time/sleep-ms 50) (wait (- n 1)))))
(wait 100)
(unbox fired)"""

WEAK = PRE + """0
;;;---
(define w1 (make-weak-box (list 1 2)))
(define w2 (make-weak-box (box 5)))
(define before (list (weak-box-value w1) (unbox (weak-box-value w2))))
(#%gc-collect)
(list before (weak-box-value w1) (weak-box-value w2) (weak-box-value w1 'gone))"""

MT = PRE + """0
;;;---
(define (work keep n) (if (= n 0) 0 (begin (vector-set! keep (modulo n 3000) (box n)) (work keep (- n 1)))))
(define (job) (let ((keep (make-vector 3000 #f))) (work keep @N@) (vector-length keep)))
(define th (spawn-native-thread job))
(define r (job))
(list r (thread-join! th))
;;;---
(#%verif-heap-stats)"""


def parse_list(s):
    """Parse a printed Steel list of (lists of) integers."""
    toks = re.findall(r"\(|\)|-?\d+|#\w+|[^\s()]+", s)
    pos = 0

    def rd():
        nonlocal pos
        t = toks[pos]; pos += 1
        if t == "(":
            out = []
            while toks[pos] != ")":
                out.append(rd())
            pos += 1
            return out
        try:
            return int(t)
        except ValueError:
            return t
    return rd()


POLICY_BOUND = 25600 * 1024      # max(L, EXTEND_CHUNK) * 2^(RESET_LIMIT+1) for L <= 25600


def judge_samples(name, samples, stats):
    bad = []
    for i, s in enumerate(samples):
        stats["samples_checked"] += 1
        if s[1] != s[2]:
            bad.append("sample %d: value list alloc_count=%d but %d free slots by counting (total %d)" % (i, s[2], s[1], s[0]))
        if s[5] != s[6]:
            bad.append("sample %d: vector list alloc_count=%d but %d free slots by counting (total %d)" % (i, s[6], s[5], s[4]))
        if s[0] > POLICY_BOUND or s[4] > POLICY_BOUND:
            bad.append("sample %d: %d / %d slots exceed the policy bound %d" % (i, s[0], s[4], POLICY_BOUND))
        if s[8] != 0:
            bad.append("sample %d: %d stale-handle accesses" % (i, s[8]))
        stats["max_total"] = max(stats["max_total"], s[0], s[4])
    return bad[:4]


def run(ctx):
    stats = {"programs": 0, "samples_checked": 0, "max_total": 0, "allocations": 0, "samples": [], "leak_checks": 0,
             "known_hits": {}, "patterns": {}}
    known = {k["id"]: k["text"].split(" ", 5)[-1] for k in ctx.load_known() if "id" in k}
    rc, out = C.sh(["python3", os.path.join(C.VERIF, "translate", "c04_edges.py")], timeout=120)
    translator_ok = rc == 0
    pr = C.prove(ctx, "C19", ["c04driver"])
    hits = C.forbidden_scan("C04")
    if hits:
        pr["ok"] = False
        pr["failed"] += [("forbidden construct", h) for h in hits]
    ok, log = C.build_harness(ctx, ["c04"])
    base_cov = {"obligations": pr["obligations"], "discharged": pr["discharged"],
                "checker_cmd": "cd lean && lake build SteelVerif.C19.Props && lake env lean SteelVerif/C19/Audit.lean",
                "trusted_base": C.TRUSTED_BASE}
    if not ok:
        ctx.violation("C19-harness-build.txt", "the harness no longer builds against /repo:\n" + log, no_input=True)
        ctx.coverage = base_cov
        return ctx.finish()
    res, rc, _ = c04.run_batch(["(#%verif-heap-stats)"], 60)
    hook = bool(res and res[0][1])
    if not hook:
        ctx.violation("C19-no-hook.txt", "the #%verif-heap-stats hook is not present in /repo: the accounting cannot be observed\n", no_input=True)
        ctx.coverage = base_cov
        return ctx.finish()

    total = 100000 if ctx.quick() else 10000000
    nsamples = 100
    jobs = []
    for name in PATTERNS:
        t = total if name != "dead-thread" else min(total, 200000)
        jobs.append((name, None, pattern_program(name, t, nsamples, None), t))
        jobs.append((name, 13, pattern_program(name, min(t, 100000 if ctx.quick() else 1000000), nsamples, 13), min(t, 100000 if ctx.quick() else 1000000)))
    jobs.append(("shadowed-globals", None, shadow_program(560 if ctx.quick() else 3000, 40), 560 * 4))
    jobs.append(("weak-boxes", None, WEAK, 2))
    scale = 1 if ctx.quick() else 5
    for hname, (defs, warm, rounds, _, _) in HOSTPATTERNS.items():
        jobs.append(("host:" + hname, None, HOSTPRE + defs + "\n0\n;;;---\n(measure '%s %d %d round)" % (hname, warm, rounds * scale), rounds * scale * 3))
    for hname, defs, threads, per in (("mt-channel-bounce", MT_BOUNCE, 8, 2500), ("mt-thread-results", MT_RESULTS, 12, 0)):
        rounds = (16 if hname == "mt-channel-bounce" else 60) * scale
        jobs.append(("mthost:" + hname, None, HOSTPRE + defs.replace("@THREADS@", str(threads)).replace("@PER@", str(per)) +
                     "\n0\n;;;---\n(measure '%s 2 %d round)" % (hname, rounds), rounds * threads * max(per, 1) * 3))
    for rname in RELOADS:
        jobs.append(("reload:" + rname, None, reload_program(rname, 700 if ctx.quick() else 4000), 700))
    jobs.append(("compaction", None, COMPACT.replace("@N@", "300").replace("@K@", str(12 if ctx.quick() else 64)), 12 * 300 * 12))
    jobs.append(("wills-on-garbage", None, WILLS, 80))
    jobs.append(("two-threads", None, MT.replace("@N@", str(30000 if ctx.quick() else 1000000)), 60000))
    # regression witnesses of fixed defects and witnesses of open findings
    cdir = os.path.join(C.VERIF, "corpus", "C19")
    corpus = []
    for fn in sorted(os.listdir(cdir)) if os.path.isdir(cdir) else []:
        if fn.endswith(".scm"):
            txt = open(os.path.join(cdir, fn)).read()
            m = re.search(r";; expect-last: (.*)", txt)
            k = re.search(r";; finding: (\w+)", txt)
            corpus.append((fn, txt, m.group(1).strip() if m else None, k.group(1) if k else None))

    def work(job):
        return c04.run_batch([job[2]], 900 if ctx.quick() else 3000)
    results = C.pool_map(work, jobs + [("corpus:" + c[0], None, c[1], 0) for c in corpus], workers=min(C.NCPU, 12))
    for job, (res, rc, tail) in zip(jobs, results):
        name, mode, text, nalloc = job
        stats["programs"] += 1
        label = "%s%s" % (name, "-every%d" % mode if mode else "")
        lines = res[0][0] if res else tail[0]
        if rc != 0 or not res or any(l.startswith(("err", "panic")) for l in lines):
            ctx.violation("C19-%s.scm" % label, ";; pattern %s: harness exit code %d, piece results %s\n;; stderr %s\n%s\n" % (
                label, rc, [l[:200] for l in lines], tail[1][-300:].replace("\n", " "), text))
            continue
        stats["allocations"] += nalloc
        if name == "weak-boxes":
            got = lines[-1][3:].split("|")[-1]
            stats["patterns"][label] = got
            if got != "(((1 2) 5) #false #false gone)":
                ctx.violation("C19-weak-boxes.scm", ";; weak boxes whose targets died must report #false after a collection: got %s\n%s\n" % (got, text))
            continue
        if name == "wills-on-garbage":
            got = lines[-1][3:].split("|")[-1]
            stats["patterns"][label] = got
            stats["leak_checks"] += 1
            if got != "80":
                ctx.violation("C19-wills-on-garbage.scm", ";; 40 self-referencing boxes went through a channel across a full collection and 40 were "
                              "arguments of failing host callbacks; all are unreachable: after a full collection the wills registered on them must all "
                              "become ready (80), observed %s\n%s\n" % (got, text))
            continue
        if name.startswith("mthost:"):
            r = parse_list(lines[-1][3:].split("|")[-1])
            base, end, r0, r1 = r[1], r[2], r[3], r[4]
            stats["patterns"][label] = {"baseline_live": base, "final_live": end, "rss_after_warmup_kb": r0, "rss_at_end_kb": r1}
            stats["leak_checks"] += 2
            bad = []
            if end[0] > base[0] or end[1] > base[1]:
                bad.append("after the final full collection %s slots are allocated (values, vectors), before the pattern %s: messages / "
                           "results that every thread has received and dropped are still roots" % (end, base))
            if r1 - r0 > 48000 * scale:
                bad.append("resident memory grew by %d kB with a live set of one message per thread" % (r1 - r0))
            if bad:
                ctx.violation("C19-%s.scm" % label.replace(":", "-"), ";; pattern %s (timing dependent: several threads take and drop host-root "
                              "tokens at the same time)\n;; %s\n%s\n" % (label, "\n;; ".join(bad), text))
            continue
        if name.startswith("reload:"):
            glob = [parse_list(l[len("globals "):]) for l in lines if l.startswith("globals ")]
            lives = [parse_list(l[3:].split("|")[-1]) for l in lines if re.match(r"ok (0\|)*\(\d+ \d+\)$", l)]
            ndefs = RELOADS[name[7:]][1]
            stats["leak_checks"] += len(glob)
            bad = []
            if len(glob) < 11 or len(lives) < 2:
                bad.append("unexpected output %s" % [l[:80] for l in lines])
            else:
                in_use = [g[0] - g[2] for g in glob]
                allowed = in_use[0] + RECYCLER_MAX_THRESHOLD + 2 * ndefs + 8
                stats["patterns"][label] = {"global_slots_in_use_every_tenth": in_use, "allowed": allowed, "recycler_epoch": glob[-1][4],
                                            "live_heap_slots_before_after": lives}
                if max(in_use) > allowed:
                    bad.append("global slots in use (length of the symbol map minus reclaimed slots) after each tenth of the reloads: %s; "
                               "with the recycler's largest threshold of %d queued slots at most %d are explained: shadowed definitions are "
                               "never recycled" % (in_use, RECYCLER_MAX_THRESHOLD, allowed))
                if glob[-1][4] == glob[0][4] and glob[-1][3] == glob[0][3] and max(g[2] for g in glob) == 0:
                    bad.append("the slot recycler never ran during the reloads: %s" % glob)
                if lives[-1][0] > lives[0][0] + 3 * (RECYCLER_MAX_THRESHOLD + 2 * ndefs) or lives[-1][1] > lives[0][1] + RECYCLER_MAX_THRESHOLD + 2 * ndefs:
                    bad.append("heap slots still allocated after the reloads and a full collection: %s (before: %s)" % (lives[-1], lives[0]))
            if bad:
                ctx.violation("C19-%s.scm" % label.replace(":", "-"), ";; pattern %s: one engine, the script below evaluated again and again\n;; %s\n%s\n" % (
                    label, "\n;; ".join(bad), text))
            continue
        if name == "compaction":
            samples = parse_list(lines[-1][3:].split("|")[-1])
            bad = judge_samples(label, samples, stats)
            comps = [s for prev, s in zip(samples, samples[1:]) if s[3] < prev[3]]      # grow_count fell: compacted
            stats["leak_checks"] += len(comps)
            stats["patterns"][label] = {"collections": len(samples), "compactions": len(comps),
                                        "slots_after_each_compaction": [c[0] for c in comps], "max_total": max(s[0] for s in samples)}
            if len(comps) < (1 if ctx.quick() else 6):
                bad.append("too few compactions in %d explicit collections (grow_count: %s)" % (len(samples), [s[3] for s in samples]))
            for c in comps:
                live_now = c[0] - c[1]
                if c[0] != live_now + max(live_now, 25600):
                    bad.append("after a compaction the value list has %d slots of which %d are allocated: compaction keeps exactly the "
                               "allocated slots and adds max(live, EXTEND_CHUNK) = %d, i.e. %d expected - %d dead slots survived it" % (
                                   c[0], live_now, max(live_now, 25600), live_now + max(live_now, 25600), c[0] - live_now - max(live_now, 25600)))
            if bad:
                ctx.violation("C19-compaction.scm", ";; cyclic garbage across compactions of the value list\n;; %s\n%s\n" % ("\n;; ".join(bad[:6]), text))
            continue
        if name.startswith("host:"):
            r = parse_list(lines[-1][3:].split("|")[-1])
            base, end, r0, r1 = r[1], r[2], r[3], r[4]
            _, warm, rounds, per_round, margin = HOSTPATTERNS[name[5:]]
            margin *= (1 if ctx.quick() else 5)
            stats["patterns"][label] = {"baseline_live": base, "final_live": end, "rss_after_warmup_kb": r0, "rss_at_end_kb": r1,
                                        "rounds": rounds * (1 if ctx.quick() else 5), "rss_margin_kb": margin}
            stats["leak_checks"] += 2
            bad = []
            if end[0] > base[0] or end[1] > base[1]:
                bad.append("after the final full collection %s slots are allocated (values, vectors), before the pattern %s: slots that nothing "
                           "references are still treated as reachable" % (end, base))
            if r1 - r0 > margin:
                bad.append("resident memory grew by %d kB over %d rounds with a constant live set (allowed %d kB; a root that is never "
                           "released would cost about %d kB)" % (r1 - r0, rounds, margin, per_round * rounds))
            if bad:
                ctx.violation("C19-%s.scm" % label.replace(":", "-"), ";; pattern %s\n;; %s\n%s\n" % (label, "\n;; ".join(bad), text))
            continue
        if name == "two-threads":
            s = parse_list(lines[-1][3:].split("|")[-1])
            stats["patterns"][label] = {"alloc_count": [s[2], s[6]], "free_by_count": [s[1], s[5]], "total": [s[0], s[4]]}
            bad = judge_samples(label, [s], stats)
            if bad:
                ctx.violation("C19-two-threads.scm", ";; two allocating threads: %s\n%s\n" % ("; ".join(bad), text))
            continue
        if name == "shadowed-globals":
            lives = [parse_list(l[3:].split("|")[-1]) for l in lines if re.match(r"ok (0\|)*\(\d+ \d+\)$", l)]
            st = parse_list(lines[-1][3:].split("|")[-1])
            bad = judge_samples(label, [st], stats)
            base = lives[0]
            stats["leak_checks"] += len(lives)
            # the recycler keeps at most 800 queued slots (threshold 100 * 2^k, k < 4): 3 value slots and 1 vector each
            if max(l[0] for l in lives) > base[0] + 3 * 801 + 3 or max(l[1] for l in lives) > base[1] + 801 + 1:
                bad.append("more shadowed values retained than the recycler's largest threshold allows: %s" % lives)
            if not any(b[0] < a[0] for a, b in zip(lives, lives[1:])):
                bad.append("the values of shadowed globals were never reclaimed over %d redefinitions: allocated slots %s" % (nalloc // 4, lives))
            stats["patterns"][label] = {"allocated_slots_after_each_40_redefinitions": lives}
            if bad:
                ctx.violation("C19-%s.scm" % label, ";; pattern %s\n;; %s\n%s\n" % (label, "\n;; ".join(bad), text))
            continue
        final = parse_list(lines[-1][3:].split("|")[-1])
        base, end = final[0], final[1]
        samples = parse_list([l for l in lines if l.startswith("ok ")][-2][3:].split("|")[-1])
        allow = PATTERNS[name][2]
        bad = judge_samples(label, samples, stats)
        stats["leak_checks"] += 1
        if end[0] > base[0] + allow[0] or end[1] > base[1] + allow[1]:
            bad.append("after the final full collection %s slots are allocated (values, vectors), before the pattern %s: "
                       "%d + %d slots that nothing references were not reclaimed" % (end, base, end[0] - base[0] - allow[0], end[1] - base[1] - allow[1]))
        stats["patterns"][label] = {"baseline_live": base, "final_live": end, "max_total": max(max(s[0], s[4]) for s in samples),
                                    "full_collections": samples[-1][9], "allocations": nalloc}
        if len(stats["samples"]) < 3:
            stats["samples"].append({"pattern": label, "first_sample": samples[0], "last_sample": samples[-1], "base": base, "final": end})
        if bad:
            ctx.violation("C19-%s.scm" % label, ";; pattern %s (%d allocations, mode %s)\n;; %s\n%s\n" % (
                label, nalloc, mode or "policy", "\n;; ".join(bad), text))
    for (fn, txt, exp, kid), (res, rc, tail) in zip(corpus, results[len(jobs):]):
        stats["programs"] += 1
        lines = res[0][0] if res else tail[0]
        last = lines[-1] if lines else "<missing>"
        val = last[3:].split("|")[-1] if last.startswith("ok ") else last
        if exp is None or val == exp:
            if kid:
                ctx.notes.append("open finding %s was not reproduced by corpus/C19/%s (observed %s)" % (kid, fn, val))
            continue
        if kid and kid in known:
            ctx.known_finding("id=%s %s" % (kid, known[kid]))
            stats["known_hits"][kid] = stats["known_hits"].get(kid, 0) + 1
        else:
            ctx.violation("C19-corpus-" + fn, ";; corpus/C19/%s: expected %s, observed %s (exit code %d)\n%s" % (fn, exp, last, rc, txt))

    if not translator_ok and not ctx.violations:
        ctx.violation("C19-translator.txt", "translate/c04_edges.py no longer parses the sources:\n" + out, no_input=True)
    if not pr["ok"] and not ctx.violations:
        ctx.violation("C19-proof-broken.txt", "proof obligations of SteelVerif.C19.Props that no longer check:\n" +
                      "\n".join("%s: %s" % f for f in pr["failed"]) + "\n", no_input=True)
    ctx.log("programs=%d samples=%d max slots=%d" % (stats["programs"], stats["samples_checked"], stats["max_total"]))
    ctx.coverage = dict(base_cov)
    ctx.coverage.update({
        "trusted_base": C.TRUSTED_BASE + ["the #%verif-heap-stats hook (counts free slots by walking the lists)",
                                          "translate/c04_edges.py and the specification table of C04"],
        "evaluations": stats["samples_checked"] + stats["leak_checks"], "distinct_nontrivial": len(stats["patterns"]),
        "rule": "one evaluation = one sample of the heap statistics (alloc_count vs free slots by counting, both lists, total vs policy bound) or one leak check (allocated slots after a final full collection vs the baseline before the pattern); distinct = (pattern, mode)",
        "samples": stats["samples"], "patterns": stats["patterns"], "allocations_run": stats["allocations"],
        "max_slots_observed": stats["max_total"], "policy_bound_checked": POLICY_BOUND,
        "known_finding_hits": stats["known_hits"], "axioms": pr.get("axioms", {}),
        "proof_failures": ["%s: %s" % f for f in pr["failed"]],
    })
    ctx.assumptions = ["one free list in the model stands for both instances of the generic Rust FreeList",
                       "resident memory is not modelled: the bound is on the number of slots"]
    return ctx.finish("proof")


def replay(ctx, path):
    return c04.replay(ctx, path)
