"""C07 — no input can crash the host; errors are returned and leave the engine usable.

translate  : translate/c07_unwind.py regenerates GenUnwind.lean (order of the pop_count test / decrement in both unwind loops,
             stack.clear(), which call paths count their frame right after the push and which push without counting);
             translate/c07_arms.py regenerates lean/SteelVerif/C07/GenArms.lean from /repo (match arms of the numeric
             primitives per pair of value kinds; every potential panic site of primitives/*.rs and steel_vm/primitives.rs:
             `unwrap()`, `expect(`, `unreachable!`, `todo!`, `panic!`, `assert!`, unchecked accessors, `[i]`, `as usize`).
prove      : lake build SteelVerif.C07.Props + axiom audit:
               frontend_total / frontend_spans          (the C12 theorems about the reader, restated as C07 obligations)
               arms_total, arms_total_unary, panic_sites_classified, reachable_sites_named   (decided over the tables)
               failed_run_leaves_clean_partial, handler_run_resumes_clean, run_never_panics, failed_forms_keep_completed,
               history_stays_clean, failed_build_is_noop_partial  (model of SteelThread::execute's unwind loop,
               run_executable, compile_raw_program's module snapshot, raw_program_to_executable's roll-back); the full
               statements FailedRunLeavesClean / FailedBuildIsNoop are refuted by witnesses that are replayed on the engine.
correspond : (m) the recovery model against the real engine on generated handler / call/cc / failing programs
                 (outcome class, anything left on the frame stack / operand stack after the error);
             (s) every panic observed at an extracted site must be judged `reachable` in LemmasSites.lean.
explore    : the REAL engine, in child processes (an abort / stack overflow / hang loses one input), oracle = the property:
   (i)  texts   : every text is evaluated on a long-lived engine inside catch_unwind — at the top level and, for a second
                  stream, as a module ((require "<file>"), what `steel file.scm` does); after EVERY error the stack/frame
                  depth is read with (#%verif-stack-depth) and a fixed probe program (defines, closures, a loop, handlers,
                  a struct, a hash map, call/cc, a definition made when the engine was created) runs on the same engine.
                  Failures are re-run alone on a fresh engine; those that need earlier evaluations are re-run with their
                  predecessors and reported as a multi-evaluation replay.  Directed histories carry expectations.
   (ii) builtins: every procedure registered in the engine's module tables (minus DENY below) is applied to tuples from
                  a pool of ~80 values of every kind and boundary magnitude: arities 0..2 exhaustively, arity 3
                  pairwise (quick, and procedures of unknown arity) / exhaustively (thorough); the applying loop is a
                  top-level procedure or a procedure of a required module.
   (iv) callbacks: the native higher-order built-ins are DISCOVERED (every built-in applied with a counting procedure in
                  every position, results run by consumers); every site is evaluated at the top level with failing
                  callbacks (wrong arity, raising, non-procedure, nested); after the error: a top-level let-probe, the
                  depth hook, the probe; then the same expression under call-with-exception-handler handlers.
   (iii) engines: a directed probe: engines are created, used for one small procedure and dropped a few hundred times
                  in ONE process (an embedder that makes an engine per request), with the JIT and with STEEL_JIT=false.
oracle     : a panic reaching catch_unwind, an abort, a signal, a native stack overflow, an evaluation that cannot be
             interrupted, a probe result other than the fixed expected one (unless the history rebinds a standard name), or
             frames / operands left on the stacks after an error.  Failures are grouped into classes (FINDING_CLASSES: one
             class per root cause, from panic site | abort kind | overflow phase | hang site | history); a class listed in
             KNOWN_FINDINGS.txt prints KNOWN-FINDING, any other class is a VIOLATION.
"""
import glob
import json
import os
import random
import re
import shutil
import subprocess
import sys
import time
import threading

from . import common as C

sys.path.insert(0, C.VERIF)

PID = "C07"
META = {
    "ready": True,
    "category": "proof",
    "technique": "Lean 4: totality/range theorems of the reader (from C12), match-arm coverage and panic-site classification decided over tables regenerated from the Rust sources, and a model of the VM's error unwinding (incl. the call paths that push a frame before it is counted, and the order of the pop_count test and decrement read from vm.rs) / build roll-back with clean-state theorems; plus an exploration of the real engine in crash-isolated child processes (texts: random, grammar-derived, mutated suite scripts; built-ins: every registered procedure on a pool of boundary values, indexed and aliased-argument sweeps up to arity 5; errors raised inside callbacks of every native higher-order built-in discovered at run time) whose oracle is the property itself",
    "level_text": "Proved (SteelVerif/C07/Props.lean): frontend_total/frontend_spans (reader total, spans in range; re-export of C12); arms_total/arms_total_unary/arm_exemptions_needed/arm_tables_present (every pair / every numeric kind reaches a non-panicking arm in EVERY match that dispatches on numeric variants in numbers.rs, rvals.rs and strings.rs — 60 dispatches found by scanning the sources, not a list of names: + - *, the nine integer divisions, expt, log, =, the order, negate, reciprocal, abs, sqrt, exact-integer-sqrt, rounding, predicates, trigonometry, exact/inexact, number->string's format_number; two kinds are exempted with a written reason: the imaginary component of a complex number is real); op_entry_points_covered (the functions behind the VM's arithmetic / comparison op codes and the registered + - * / = < > <= >=, names taken from C10's GenOps.lean, reach only covered tables); panic_sites_classified/reachable_sites_named (each of the 318 extracted potential panic sites of primitives/**/*.rs and steel_vm/primitives.rs — unwrap, expect, panic!, unreachable!, todo!, unimplemented!, assert!, debug_assert!, unchecked accessors, as usize, x[i], x[a..b], and calls of methods that panic out of range such as split_off / swap / remove / insert / windows / borrow_mut — is in the hand-reviewed table under a key that survives line shifts; a new or edited site breaks the obligation); gen_unwind_order(_both)/gen_counted_paths/gen_uncounted_paths_as_modelled (translate/c07_unwind.py: in both unwind loops the pop_count == 0 test precedes the decrement, stack.clear() follows the outer loop, every counted call path counts its frame right after the push, the uncounted paths call_with_one_arg/two_args/args are fallible after the push exactly as the model's callbackArity instruction); for the model of SteelThread::execute (any fuel, program, history; the model includes the call paths that push a frame before it is counted, instruction callbackArity, whose behaviour follows the flag windowOpen read from vm.rs): failed_run_leaves_clean and handled_run_leaves_clean — the FULL statements FailedRunLeavesClean / HandledRunLeavesClean — for the code that exists (windowOpen = false since /repo commit 27b7e09f); failed_run_leaves_clean_partial, handler_run_resumes_clean_partial, failed_forms_keep_completed, history_stays_clean in either configuration under the decidable guard `at most one callback arity error` (ghost counter lost; both stacks empty afterwards, executed definitions kept); run_never_panics without guard; native_callback_keeps_invariant / native_callback_restores_frames (Nested.lean: the nested VM instance that runs a closure called from native code — call_with_one_arg + call_with_instructions_and_reset_state with its own unwind loop — leaves the enclosing instance, at any nesting depth, with its pop_count and invariant intact whatever the callback's body does: the soundness of representing callbacks by a value / a failing primitive / callbackArity); the witnesses that refuted the full statements before the repair are kept for that configuration (windowOpen = true -> counter_*: a callback arity error caught by a call-with-exception-handler handler left pop_count one too low: the evaluation ended a return early, frames stayed after a successful evaluation, a later error left through the pop_count == 0 early return without stack.clear()) — finding K07ai, found by this extension of the model, replayed on the engine by the callback family, repaired by 27b7e09f; regression_handled_callback_arity_errors for the repaired configuration; failed_build_is_noop_iff (EXACT decidable guard, parametric in a symbol map whose roll_back restores: a failing build changes nothing observable iff the roll-back gives the macro environment back — flag buildRestoresMacros read from compile_raw_program / raw_program_to_executable — or it failed in the parser, or no executed op put a macro into the global macro map), failed_build_is_noop_partial, failed_build_is_noop (full, for buildRestoresMacros = true), and for the code that exists (false) not_FailedBuildIsNoop with decided witnesses counter_macro_survives (top-level define-syntax: K07z) and counter_required_macro_survives (macros of a required module: C14's K14f), both replayed on the engine by directed histories. The model is tied to the engine by generated programs on every run (incl. callback arity errors under handlers). The property as a whole is partial: panic-freedom of 100k lines of Rust is explored (oracle = the property), not proved; every open failure class is a KNOWN_FINDINGS entry.",
    "level_note": "Trusted: Lean kernel, translators (regex extraction), harness, orchestrator. Not modelled: everything outside the reader, the numeric dispatch tables and the recovery machine; the operand stack inside nested VM instances (only frames and counters are proved restored); native stack size; allocation failure; the JIT.",
}

BIN = C.bin_path("c07")
SCRATCH = os.path.join(C.BUILD, "C07")
MODS = os.path.join(C.BUILD, "C07", "mods")      # texts evaluated as modules are written here
MEM_KB = 3 * 1024 * 1024        # address-space limit of a child (ulimit -v)

# ------------------------------------------------------------------------------------------------------------------
# Built-ins that are NOT applied to the pool, with the reason.  Only procedures whose purpose is an effect on the host.
# (pattern, reason); a pattern is a regular expression matched against the whole name, or `module:<name>`.
DENY = [
    (r"module:steel/process", "process spawn / kill / wait"),
    (r"module:steel/tcp", "network"),
    (r"module:steel/git", "network + file system writes"),
    (r"module:steel/polling", "blocks the thread on OS events"),
    (r"download-file!", "network + file system write"),
    (r"delete-directory!|delete-file!|create-directory!|copy-directory-recursively!|rename-file-or-directory!",
     "file system writes"),
    (r"open-output-file|write-line!", "file system writes (creates / truncates files named by the argument)"),
    (r"change-current-directory!|set-current-dir!|with-current-dir", "changes the working directory of the host process"),
    (r"set-env-var!|with-env-var|without-env-var|with-cleared-env-vars", "changes the environment of the host process"),
    (r"time/sleep-ms", "sleep (with a pool integer: forever)"),
    (r"#%get-dylib|#%build-dylib|load-from-module!|function->ffi-function|feature-dylib-build\?", "ffi / dylib loading"),
    (r"#%read-line|#%read-char|#%read-byte|#%read-bytes|#%read-bytes!|#%peek-byte|#%peek-char|stdin|breakpoint!|with-stdin|with-stdin-piped",
     "reads the standard input of the host"),
    (r"thread-join!|channel/recv|receivers-select|lock-acquire!|thread-suspend|block-on|local-executor/block-on|futures-join-all|will-execute|wait|wait->stdout|process-wait|thread-resume",
     "blocks the calling thread on another thread / process"),
    (r"#%gc-collect|#%verif-gc-every", "verification hook / explicit collection that doubles the heap each call"),
    (r"set-piped-stdout!|set-stdout-piped!|with-stdout|with-stdout-piped|with-stderr|with-stderr-piped|set-test-mode!",
     "re-plumbs the host's standard streams / global test mode"),
    (r"c07-.*", "the harness's own procedures"),
]


def denied(module, name):
    for pat, why in DENY:
        if pat.startswith("module:"):
            if module == pat[7:]:
                return why
        elif re.fullmatch(pat, name):
            return why
    return None


# ------------------------------------------------------------------------------------------------------------------
# child processes

def hx(b):
    return (b if isinstance(b, bytes) else b.encode("utf-8", "surrogatepass")).hex()


def spawn(mode, jobs, out_path, sandbox, env=None, timeout=600):
    """run the harness on the job lines; returns (rc, tail of stderr)"""
    for p in (out_path, out_path + ".k"):
        if os.path.exists(p):
            os.remove(p)
    os.makedirs(sandbox, exist_ok=True)
    e = dict(os.environ)
    e.update(env or {})
    errp = out_path + ".stderr"
    with open(errp, "wb") as ef:
        try:
            p = subprocess.run(
                ["bash", "-c", "ulimit -v %d; ulimit -c 0; ulimit -f 200000; exec \"$0\" \"$@\"" % MEM_KB, BIN, mode, out_path],
                input=("\n".join(jobs) + "\n").encode(), stdout=subprocess.DEVNULL, stderr=ef, cwd=sandbox, env=e,
                timeout=timeout)
            rc = p.returncode
        except subprocess.TimeoutExpired:
            rc = 124
    with open(errp, "rb") as ef:
        ef.seek(0, 2)
        n = ef.tell()
        ef.seek(max(0, n - 3000))
        tail = ef.read().decode("utf-8", "replace")
    return rc, tail


def read_records(out_path):
    try:
        return open(out_path, encoding="utf-8", errors="replace").read().split("\n")
    except OSError:
        return []


def death_signature(rc, tail):
    """class of a child that died without finishing"""
    t = tail
    if "has overflowed its stack" in t:
        return "stack-overflow"
    if "failed to initiate panic" in t:
        return "abort:panic-cannot-unwind"
    if "panic in a function that cannot unwind" in t or "panic in a destructor during cleanup" in t:
        return "abort:panic-cannot-unwind"
    if "memory allocation of" in t and "failed" in t:
        return "abort:out-of-memory"
    if "capacity overflow" in t:
        return "abort:capacity-overflow"
    if rc == 124:
        return "timeout"
    if rc < 0:
        return "signal:%d" % (-rc)
    if rc in (134, 139, 137, 135, 136, 132):
        return "signal:%d" % (rc - 128)
    return "exit:%d" % rc


# ------------------------------------------------------------------------------------------------------------------
# classes

_FN_CACHE = {}


def enclosing_fn(loc):
    """`crates/steel-core/src/x.rs:123` -> name of the Rust fn that contains the line (stable under line shifts)"""
    m = re.match(r"(crates/\S+\.rs):(\d+)$", loc)
    if not m:
        return None
    path, line = os.path.join(C.REPO, m.group(1)), int(m.group(2))
    if path not in _FN_CACHE:
        try:
            _FN_CACHE[path] = open(path, encoding="utf-8", errors="replace").read().split("\n")
        except OSError:
            _FN_CACHE[path] = []
    src = _FN_CACHE[path]
    for i in range(min(line, len(src)) - 1, -1, -1):
        mm = re.match(r"\s*(?:pub(?:\([a-z]+\))?\s+)?(?:const\s+)?(?:unsafe\s+)?(?:extern\s+\"C-unwind\"\s+|extern\s+\"C\"\s+)?fn\s+([A-Za-z0-9_]+)", src[i])
        if mm:
            return mm.group(1)
    return None


def clean_sym(s):
    s = re.sub(r"::h[0-9a-f]{16}$", "", s.strip())
    s = re.sub(r"::\{\{closure\}\}", "", s)
    return s


def panic_class(rec):
    """rec = '<loc> | <via> | <msg>'"""
    parts = [p.strip() for p in rec.split("|")]
    loc = parts[0] if parts else "?"
    via = clean_sym(parts[1]) if len(parts) > 1 else ""
    if loc.startswith("crates/"):
        fn = enclosing_fn(loc)
        f = loc.rsplit(":", 1)[0]
        return "panic:%s:%s" % (f, fn or loc.rsplit(":", 1)[1])
    dep = re.sub(r"-\d+(\.\d+)*([-+][\w.]+)?/", "/", loc.rsplit(":", 1)[0])
    return "panic:%s@%s" % (dep, via or "?")


# Finding classes: a class is one root cause.  The raw key of a failure (panic site | abort kind | overflow phase |
# hang site | history name) is mapped to its class by the first matching pattern; a raw key that matches nothing is its
# own class (and therefore unlisted: a VIOLATION).
FINDING_CLASSES = [
    ("handler-not-a-closure-leaves-frames", [r"residue:handler-not-a-closure", r"history:handler-not-a-closure-twice"]),
    ("panic-while-jit-frames-are-active-aborts", [r"abort:panic-cannot-unwind.*"]),
    ("caught-panic-leaves-engine-state", [r"after-panic:.*", r"(not-reproduced:)?(exit:4:|panic:|thread-panic:).*jit\.rs:jit_compile_lambda"]),
    ("assert-builtin-panics", [r"panic:crates/steel-core/src/primitives/meta_ops\.rs:assert_truthy"]),
    ("builtin-indexes-args-without-arity-check",
     [r"panic:crates/steel-core/src/steel_vm/primitives\.rs:raise_error_from_error", r"panic:crates/steel-core/src/rvals\.rs:iterator_next",
      r"panic:crates/steel-core/src/values/functions\.rs:(attach_contract_struct|get_contract)"]),
    ("meta-builtins-unwrap-or-todo",
     [r"panic:crates/steel-core/src/compiler/compiler\.rs:load_from_file",
      r"panic:crates/steel-core/src/steel_vm/vm\.rs:(emit_expanded_file|callstack_hydrate_names|sample_stacks|macro_case_bindings_impl)",
      r"panic:crates/steel-core/src/values/structs\.rs:fields", r"panic:crates/steel-core/src/steel_vm/vm/threads\.rs:(get_tls|set_tls)"]),
    ("http-parse-unwrap", [r"panic:crates/steel-core/src/primitives/http\.rs:parse_(request|response)"]),
    ("string-join-extra-argument-todo", [r"panic:crates/steel-core/src/primitives/strings\.rs:string_join"]),
    ("bytes-to-string-end-beyond-length", [r"panic:crates/steel-core/src/primitives/bytevectors\.rs:bytes_to_string"]),
    ("immutable-vector-take-beyond-length-when-shared", [r"panic:steel-imbl/src/vector/mod\.rs@steel_imbl::vector::GenericVector.*split_off"]),
    ("json-non-finite-float-unwrap", [r"panic:crates/steel-core/src/values/json_vals\.rs:try_from"]),
    ("gen-range-empty-range", [r"panic:crates/steel-core/src/primitives/random\.rs:.*"]),
    ("fixnum-overflow-in-rounding-shift-magnitude",
     [r"panic:num-rational/src/lib\.rs@steel::primitives::numbers::steel_(ceiling|floor|round|truncate)",
      r"panic:num-traits/src/sign\.rs@steel::primitives::numbers::magnitude",
      r"panic:library/core/src/ops/(bit|arith)\.rs@steel::primitives::numbers::arithmetic_shift"]),
    ("function-arity-empty-contract-struct", [r"panic:crates/steel-core/src/steel_vm/primitives\.rs:arity"]),
    ("mvector-index-unchecked", [r"panic:crates/steel-core/src/steel_vm/primitives\.rs:vector_(ref|set)"]),
    ("require-only-in-non-identifier-unwrap", [r"panic:crates/steel-core/src/compiler/modules\.rs:(compile_main|to_top_level_module)"]),
    ("module-level-non-identifier-binder-panics",
     [r"panic:crates/steel-core/src/compiler/passes/analysis\.rs:(visit_lambda_function|visit_top_level_define_value_without_body|visit_define_without_body|visit_top_level_define_function_without_body)"]),
    ("jit-no-translation-for-opcode-payload", [r"(panic|abort:panic-cannot-unwind):crates/steel-core/src/jit2/cgen\.rs:op_to_name_payload"]),
    ("thread-copy-inside-open-continuation-mark-assertion", [r"panic:crates/steel-core/src/steel_vm/vm\.rs:close"]),
    # (negative-count-becomes-huge: range-vec, repaired by /repo commit dbe72b10; a huge positive bound is an allocation request)
    ("make-struct-type-negative-field-count", [r"(hang|abort:out-of-memory):builtin:make-struct-type"]),
    ("unbounded-allocation-request",
     [r"abort:out-of-memory.*", r"abort:capacity-overflow.*", r"panic:library/alloc/src/raw_vec/mod\.rs@.*",
      r"hang:builtin:(make-bytes|make-bytevector|make-string|make-immutable-vector|make-vector|list-drop|range|range-vec|expt|exact-integer-sqrt|square|arithmetic-shift)",
      r"panic:num-bigint/src/biguint/power\.rs@.*"]),
    # std::thread::spawn panics when the OS refuses a thread (EAGAIN: seen only on a machine at load > 100)
    ("spawn-native-thread-panics-when-os-refuses-thread", [r"(not-reproduced:)?(panic|thread-panic):library/std/src/thread/(functions|mod)\.rs@.*"]),
    ("mutable-vector-lock-reentry-deadlock", [r"hang:builtin:(vector-append!|vector-fill!|vector-copy!)", r"hang:evaluation-ignores-interrupt"]),
    ("native-stack-overflow-reader", [r"stack-overflow:read"]),
    ("native-stack-overflow-expander", [r"stack-overflow:expand"]),
    ("native-stack-overflow-compiler", [r"stack-overflow:compile"]),
    ("native-stack-overflow-run", [r"stack-overflow:(run|drop)", r"stack-overflow:builtin:.*"]),
    ("superlinear-front-end-time", [r"hang:(reader|expander|compiler)-time"]),
    ("defmacro-without-name-index-panic", [r"panic:crates/steel-core/src/parser/kernel\.rs:load_syntax_transformers"]),
    ("jit-compile-already-visited-instruction", [r"(panic|abort:panic-cannot-unwind):crates/steel-core/src/jit2/cgen\.rs:stack_to_ssa"]),
    ("module-get-unknown-symbol-panics", [r"panic:crates/steel-core/src/steel_vm/builtin\.rs:get"]),
    ("engine-jit-memory-never-released",
     [r"engines:panic:crates/steel-core/src/jit2/cgen\.rs:.*", r"engines:panic:.*jit\.rs:jit_compile_lambda", r"engines:mappings-never-released"]),
    ("uncounted-callback-frame-discounted-by-handler", [r"callback:handled-arity-error:ends-two-frames-early"]),
    # one root cause (a failed build does not give the global macro map back), seen through a top-level define-syntax
    # (K07z) and through the macros of a required module (C14's K14f)
    ("macro-of-failed-program-stays-defined", [r"history:macro-of-failed-program-is-not-defined",
                                               r"history:macro-of-required-module-of-(failed-program|program-failing-in-expansion)-is-not-in-scope"]),
    # (C01's K01m: the compiler emits the deprecated ALLOC / SETALLOC / READALLOC op codes, whose handlers panic)
    ("deprecated_alloc_opcodes_emitted_and_panic",
     [r"(panic|abort:panic-cannot-unwind|thread-panic):crates/steel-core/src/steel_vm/(vm|vm/jit)\.rs:(alloc_handler|read_alloc_handler|set_alloc_handler)"]),
    ("continuation-of-finished-evaluation", [r"history:continuation-of-earlier-.*"]),
]


def finding_class(raw):
    for name, pats in FINDING_CLASSES:
        for p in pats:
            if re.fullmatch(p, raw):
                return name
    return raw


class Classes:
    """failure classes seen in this run: key -> dict(count, example replay text, details)"""

    def __init__(self):
        self.by = {}

    def add(self, key, replay, detail, source):
        raw = key
        key = finding_class(raw)
        if key != raw:
            detail = "[%s] %s" % (raw, detail)
        c = self.by.setdefault(key, {"count": 0, "replay": replay, "detail": detail, "sources": {}, "examples": [], "details": []})
        c["count"] += 1
        if len(c["details"]) < 60 and detail[:160] not in c["details"]:
            c["details"].append(detail[:160])
        c["sources"][source] = c["sources"].get(source, 0) + 1
        if len(replay) < len(c["replay"]):
            c["replay"], c["detail"] = replay, detail
        if len(c["examples"]) < 6 and replay not in c["examples"] and len(replay) < 400:
            c["examples"].append(replay)


# ------------------------------------------------------------------------------------------------------------------
# (ii) built-ins

def list_builtins():
    """name -> (module, kind, arity): one entry per distinct procedure (the same procedure is exported by several
    modules, steel/base re-exports nearly everything; two modules may also bind one name to different procedures)"""
    rc, out = C.sh([BIN, "list"], timeout=120)
    rows = []
    for line in out.splitlines():
        f = line.split("\t")
        if len(f) != 5 or f[2] == "value":
            continue
        rows.append(f)
    by_ident = {}
    aliases = {}
    for module, name, kind, arity, ident in rows:
        aliases.setdefault(ident, []).append((module, name))
        cur = by_ident.get(ident)
        # prefer the defining module over the steel/base re-export, and a known arity over an unknown one
        if cur is None or (cur[0] == "steel/base" and module != "steel/base") or (cur[3] == "?" and arity != "?"):
            by_ident[ident] = (module, name, kind, arity)
    # a procedure is denied when any of its names is (aliases!)
    for ident, al in aliases.items():
        for (m, n) in al:
            if denied(m, n):
                module, name, kind, arity = by_ident[ident]
                by_ident[ident] = (m, n, kind, arity)
                break
    fns = {}
    for module, name, kind, arity in by_ident.values():
        key = name if name not in fns else "%s@%s" % (name, module)
        fns[key] = (module, kind, arity, name)
    return fns


def pool_exprs():
    rc, out = C.sh([BIN, "pool"], timeout=60)
    return [l.split("\t", 1)[1] for l in out.splitlines() if "\t" in l]


def arities_for(arity, quick):
    """which call arities are swept: (arity, mode).  Unknown arity: all of 0..3."""
    m = re.match(r"(\w+)\((\d+)(?:, (\d+))?\)", arity)
    lo, hi = 0, 99
    if m:
        k, a = m.group(1), int(m.group(2))
        if k == "Exact":
            lo = hi = a
        elif k == "AtLeast":
            lo = a
        elif k == "AtMost":
            hi = a
        elif k == "Range":
            lo, hi = a, int(m.group(3))
    out = []
    for n in (0, 1, 2, 3):
        if lo <= n <= hi:
            out.append(n)
    # one wrong arity as well: the arity check itself must answer with an error
    if m and lo > 0 and (lo - 1) not in out and lo - 1 <= 3:
        out.append(lo - 1)
    if m and hi < 3 and (hi + 1) not in out:
        out.append(hi + 1)
    return sorted(set(out))


def tuple_of(k, arity, mode, n):
    if arity == 0:
        return []
    if arity == 1:
        return [k]
    if arity == 2:
        return [k // n, k % n]
    if mode == 1:
        i, j = k // n, k % n
        return [i, j, (i + j) % n]
    return [k // (n * n), (k // n) % n, k % n]


def call_text(module, name, idxs, pool):
    """Scheme source of one application (the replay of a built-in failure): the arguments are globals (so that they
    are shared values, as in the pool; the same pool value in two positions is the same object) and the call is made
    from inside a procedure under with-handler, as in the sweep."""
    head = "(%%module-get%% %%-builtin-module-%s '%s)" % (module, name)
    uniq = sorted(set(idxs))
    defs = "".join("(define p%d %s)\n" % (i, pool[i]) for i in uniq)
    return "%s(define (c07-once f) (with-handler (lambda (e) (list 'error e)) (f%s)))\n(c07-once %s)" % (
        defs, "".join(" p%d" % i for i in idxs), head)


FRESH = None


def fresh_exprs():
    """[(constructor expression, length)] of the collections the indexed sweep (mode 2) builds afresh for every call"""
    global FRESH
    if FRESH is None:
        rc, out = C.sh([BIN, "fresh"], timeout=60)
        FRESH = [(f[2], int(f[1])) for f in (l.split("\t", 2) for l in out.splitlines()) if len(f) == 3]
    return FRESH


def didx(d, n):
    return [0, 1, n - 1, n, n + 1, 2 * n, n + 39][d]


def indexed_total(arity):
    nf = len(fresh_exprs())
    return {1: nf, 2: nf * 14, 3: nf * 70}[arity]


def indexed_call_text(module, name, arity, k):
    """source of one application of the indexed sweep: a freshly built collection (a temporary: uniquely referenced)
    and index arguments derived from its length"""
    fr = fresh_exprs()
    head = "(%%module-get%% %%-builtin-module-%s '%s)" % (module, name)
    if arity == 1:
        args = [fr[k][0]]
    elif arity == 2:
        e, n = fr[k // 14]
        d, swap = (k // 2) % 7, k % 2
        args = [e, str(didx(d, n))] if swap == 0 else [str(didx(d, n)), e]
    else:
        e, n = fr[k // 70]
        x = k % 70
        if x < 49:
            args = [e, str(didx(x // 7, n)), str(didx(x % 7, n))]
        else:
            args = [e, str(didx((x - 49) // 3, n)), ["0", "#\\a", "'sym"][(x - 49) % 3]]
    return "(define (c07-once f) (with-handler (lambda (e) (list 'error e)) (f %s)))\n(c07-once %s)" % (" ".join(args), head)


def accepts(arity, n):
    """does the registered arity admit a call with n arguments (unknown arity: yes)"""
    m = re.match(r"(\w+)\((\d+)(?:, (\d+))?\)", arity)
    if not m:
        return True
    k, a = m.group(1), int(m.group(2))
    return {"Exact": n == a, "AtLeast": n >= a, "AtMost": n <= a, "Range": a <= n <= int(m.group(3) or a)}.get(k, True)


ALIAS_QUICK_COLLECTIONS = [0, 3, 5, 6, 7, 9]      # arity 5 in the quick tier: string, list, both vectors, immutable vector, bytes


def alias_base(arity):
    return 9 if arity == 3 else 6


def alias_admitted(arity):
    """admitted slot patterns per collection: V alone, V twice, V then W; indices elsewhere"""
    m = 7 if arity == 3 else 4
    return arity * m ** (arity - 1) + 2 * (arity * (arity - 1) // 2) * m ** (arity - 2)


def alias_slots(arity, x):
    b = alias_base(arity)
    return [(x // b ** i) % b for i in range(arity)]


def alias_call_text(module, name, arity, k):
    """source of one application of the aliased sweep (mode 3): the collection V (bound once: the same object in every
    slot that names it), a second instance W, indices derived from the length"""
    fr = fresh_exprs()
    b = alias_base(arity)
    per = b ** arity
    e, n = fr[k // per]
    m = 7 if arity == 3 else 4
    args = []
    for d in alias_slots(arity, k % per):
        args.append("v" if d == 0 else "w" if d == 1 else str(didx(d - 2, n) if m == 7 else [0, 1, n - 1, n][d - 2]))
    head = "(%%module-get%% %%-builtin-module-%s '%s)" % (module, name)
    return ("(define (c07-once f) (let ((v %s) (w %s)) (with-handler (lambda (e) (list 'error e)) (f %s))))\n(c07-once %s)"
            % (e, e, " ".join(args), head))


def run_builtins(ctx, classes, stats, focus=()):
    """focus: names of built-ins that get the thorough sweeps whatever the tier (the directed search when the panic-site
    table has unclassified entries in their functions)"""
    fns = list_builtins()
    pool = pool_exprs()
    n = len(pool)
    quick = ctx.quick()
    jobs = []
    deny_log = {}
    for key in sorted(fns):
        module, kind, arity, name = fns[key]
        why = denied(module, name)
        if why:
            deny_log[key] = why
            continue
        if " " in name:
            continue
        base_quick, quick = quick, (quick and name not in focus)
        for a in arities_for(arity, quick):
            # arity 3: pairwise in the quick tier and for procedures of unknown arity, exhaustive otherwise
            mode = 1 if (a == 3 and (quick or arity == "?")) else 0
            total = {0: 1, 1: n, 2: n * n}.get(a, n * n if mode == 1 else n ** 3)
            # split big sweeps so that the work spreads over the processes
            step = 40000
            # where the applying loop lives: a top-level procedure (0) or a procedure of a required module (1);
            # the quick tier alternates, the thorough tier does both
            wheres = [(sum(map(ord, name)) + a + ctx.seed) % 2] if quick else [0, 1]
            for w in wheres:
                # (thorough: the exhaustive arity-3 sweep runs at the top level, the module-level loop gets the pairwise one)
                m2, tot2 = (1, n * n) if (a == 3 and w == 1 and not quick) else (mode, total)
                for s in range(0, tot2, step):
                    jobs.append((name, module, a, m2, s, min(tot2, s + step), w))
            # the indexed sweep: freshly built collections (unique references: the in-place paths), indices derived
            # from their lengths (len-1, len, len+1, 2*len, ...)
            if a in (1, 2, 3):
                for w in ([(sum(map(ord, name)) + a + ctx.seed + 1) % 2] if quick else [0, 1]):
                    jobs.append((name, module, a, 2, 0, indexed_total(a), w))
        # the aliased sweep (mode 3): arities 3..5, the SAME freshly built collection in one or two argument slots (or
        # two instances of it), the other slots indices derived from its length — copy / fill / splice procedures whose
        # source and destination may be one object
        for a in (3, 4, 5):
            if not accepts(arity, a):
                continue
            per = alias_base(a) ** a
            nf = len(fresh_exprs())
            for w in ([(sum(map(ord, name)) + a + ctx.seed) % 2] if quick else [0, 1]):
                if a == 5:
                    for c in (ALIAS_QUICK_COLLECTIONS if quick else range(nf)):
                        jobs.append((name, module, a, 3, c * per, (c + 1) * per, w))
                else:
                    jobs.append((name, module, a, 3, 0, nf * per, w))
        quick = base_quick
    stats["sweep_jobs_top_level"] = sum(1 for j in jobs if j[6] == 0)
    stats["sweep_jobs_in_module"] = sum(1 for j in jobs if j[6] == 1)
    stats["builtins"] = len(fns)
    stats["builtins_denied"] = len(deny_log)
    stats["builtins_swept"] = len(fns) - len(deny_log)
    stats["deny"] = deny_log
    stats["pool_size"] = n
    rng = random.Random(ctx.seed * 7919 + 1)
    rng.shuffle(jobs)
    nw = C.NCPU
    queue = WorkQueue(jobs, batch=24)
    t_sweep = time.time()
    results = C.pool_map(lambda w: builtin_worker(ctx, w, queue), list(range(nw)), workers=nw)
    stats["sweep_wall_s"] = round(time.time() - t_sweep, 1)
    stats["sweep_worker_s"] = [r.get("wall") for r in results]
    stats["slowest_sweeps_ms"] = sorted((x for r in results for x in r.get("slow", [])), reverse=True)[:25]
    tuples = oks = errs = 0
    raw = []
    stats["sweeps_truncated"] = sum(r["truncated"] for r in results)
    fatal = [r["fatal"] for r in results if r.get("fatal")]
    if fatal:
        ctx.violation("C07-harness.txt", "the harness could not set up its engine: %s\n" % fatal[0], no_input=True)
    for r in results:
        tuples += r["tuples"]
        oks += r["ok"]
        errs += r["err"]
        raw += r["events"]
    stats["tuples"] = tuples
    stats["tuples_ok"] = oks
    stats["tuples_err"] = errs
    stats["builtin_events"] = len(raw)
    # classify + confirm each event on a fresh engine from source text
    confirm_builtin_events(ctx, raw, pool, n, classes, stats)


class WorkQueue:
    """jobs handed out in small batches, so that a process that loses seconds on a hang does not hold back its share"""

    def __init__(self, jobs, batch):
        import threading
        self.jobs, self.batch, self.pos, self.lock = jobs, batch, 0, threading.Lock()

    def take(self):
        with self.lock:
            b = self.jobs[self.pos:self.pos + self.batch]
            self.pos += len(b)
            return b


def builtin_worker(ctx, wid, queue):
    out = os.path.join(SCRATCH, "b%d.out" % wid)
    sandbox = os.path.join(SCRATCH, "sandbox", "b%d" % wid)
    todo = []
    res = {"tuples": 0, "ok": 0, "err": 0, "events": [], "truncated": 0, "spawns": 0}
    hangs_per_fn = {}
    guard = 0
    t_w = time.time()
    while guard < 100000:
        guard += 1
        if not todo:
            todo = queue.take()
            if not todo:
                break
        lines = ["F %s %s %d %d %d %d %d" % j for j in todo]
        env = {"C07_MODS": MODS, "C07_SOFT_MS": "3000", "C07_HARD_MS": "2500" if ctx.quick() else "8000",
               "C07_MAX_PANICS": "6" if ctx.quick() else "200", "C07_MAX_SAME": "2" if ctx.quick() else "40"}
        rc, tail = spawn("builtins", lines, out, sandbox, env=env, timeout=3600)
        res["spawns"] += 1
        res["wall"] = "%.0fs/%d" % (time.time() - t_w, res["spawns"])
        recs = read_records(out)
        done = 0
        cur = None
        ended = False
        hang = None
        hooks = []
        for r in recs:
            f = r.split(" ")
            if f[0] == "F":
                cur = todo[done] if done < len(todo) else None
                hooks = []
            elif f[0] == "G" and cur is not None:
                kv = dict(x.split("=", 1) for x in f[4:] if "=" in x)
                # (mode 3 enumerates slot patterns and applies only the admitted ones; a skipped pattern counts as `ok` in the harness)
                skipped = (cur[5] - cur[4]) - alias_admitted(cur[2]) * ((cur[5] - cur[4]) // alias_base(cur[2]) ** cur[2]) if cur[3] == 3 else 0
                res["ok"] += int(kv.get("ok", 0)) - skipped
                res["err"] += int(kv.get("err", 0))
                res["tuples"] += cur[5] - cur[4] - skipped
                res.setdefault("slow", []).append((int(kv.get("ms", 0)), "%s/%d" % (cur[0], cur[2])))
                if kv.get("frames") != "0" or kv.get("stack") != "0":
                    res["events"].append(("residue", cur, -1, "frames=%s stack=%s" % (kv.get("frames"), kv.get("stack"))))
                if kv.get("probe") != "same":
                    res["events"].append(("probe", cur, -1, bytes.fromhex(kv.get("probe", "")).decode("utf-8", "replace")))
                done += 1
                cur = None
            elif f[0] == "P" and cur is not None:
                res["events"].append(("panic", cur, int(f[4]), " ".join(f[5:])))
            elif f[0] == "A" and cur is not None:
                kv = dict(x.split("=", 1) for x in f[5:] if "=" in x)
                if kv.get("depth") != "0,0" or kv.get("probe") != "same":
                    q = kv.get("probe", "")
                    if q != "same":
                        try:
                            q = bytes.fromhex(q).decode("utf-8", "replace")
                        except ValueError:
                            pass
                    res["events"].append(("after-panic", cur, int(f[4]), "depth=%s probe=%s" % (kv.get("depth"), q)))
            elif f[0] == "E" and cur is not None:
                res["events"].append(("escape", cur, int(f[4]), " ".join(f[5:])))
            elif f[0] == "O":
                res["events"].append(("thread-panic", cur, -1, " ".join(f[2:])))
            elif f[0] == "K":
                hooks.append(" ".join(f[1:]))
            elif f[0] == "H":
                hang = r
            elif f[0] == "MISSING":
                done += 1
            elif f[0] == "FATAL":
                res["fatal"] = r
            elif f[0] == "TRUNC":
                res["truncated"] += 1
            elif f[0] == "END":
                ended = True
        if ended:
            todo = []
            continue
        if res.get("fatal"):
            break
        # the child died inside job `cur` (or between jobs)
        if cur is None:
            cur = todo[done] if done < len(todo) else None
            if cur is None:
                todo = []
                continue
        k = -1
        try:
            kb = open(out + ".k", "rb").read(8)
            if len(kb) == 8:
                k = int.from_bytes(kb, "little", signed=True)
        except OSError:
            pass
        if hang:
            m = re.search(r" (-?\d+) after_panic=(\d)", hang)
            k = int(m.group(1)) if m else k
            res["events"].append(("hang", cur, k, hang))
            hangs_per_fn[cur[0]] = hangs_per_fn.get(cur[0], 0) + 1
        else:
            sig = death_signature(rc, tail)
            last_hook = hooks[-1] if hooks else ""
            res["events"].append(("death", cur, k, sig + " || " + last_hook + " || " + tail.strip().splitlines()[-1][:300] if tail.strip() else sig + " || " + last_hook + " || "))
        res["tuples"] += max(0, k - cur[4])
        nxt = max(k + 1, cur[4] + 1)
        rest = todo[done + 1:]
        if not hang:
            hangs_per_fn[cur[0]] = hangs_per_fn.get(cur[0], 0) + 1
        if nxt < cur[5] and hangs_per_fn.get(cur[0], 0) < (1 if ctx.quick() else 12):
            todo = [(cur[0], cur[1], cur[2], cur[3], nxt, cur[5], cur[6])] + rest
        else:
            if nxt < cur[5]:
                res["truncated"] = res.get("truncated", 0) + 1
            todo = rest
    return res


def confirm_builtin_events(ctx, raw, pool, n, classes, stats):
    """replay every event as a plain source text on a fresh engine; the class comes from the replay when it reproduces"""
    items = []
    seen = {}
    for kind, job, k, detail in raw:
        if job is None:
            continue
        name, module, arity, mode = job[0], job[1], job[2], job[3]
        # at most 2 replays per (procedure, arity, kind of event, site)
        site = detail.split(" | ")[0] if kind in ("panic", "thread-panic") else detail.split(" || ")[0] if kind == "death" else ""
        dk = (name, arity, kind, site)
        seen[dk] = seen.get(dk, 0) + 1
        if seen[dk] > (1 if ctx.quick() else 3):
            continue
        if k >= 0:
            text = (indexed_call_text(module, name, arity, k) if mode == 2 else alias_call_text(module, name, arity, k) if mode == 3
                    else call_text(module, name, tuple_of(k, arity, mode, n), pool))
        else:
            text = None
        items.append((kind, job, k, detail, text))
    stats["builtin_events_replayed"] = len(items)
    texts = sorted(set(t for *_, t in items if t))
    res = run_texts(ctx, [(t, t.encode()) for t in texts], fresh_each=True, tag="confirm", hard_ms=8000 if ctx.quick() else 15000, batch=3, phases=False) if texts else {}
    stats["builtin_events_confirmed"] = 0
    for kind, job, k, detail, text in items:
        name, module, arity, mode = job[0], job[1], job[2], job[3]
        fkey = "%s/%d" % (name, arity)
        r = res.get(text) if text else None
        rep_classes = failure_classes(r) if r else []
        if rep_classes:
            stats["builtin_events_confirmed"] += 1
            for key, det in rep_classes:
                if key.startswith("hang:"):
                    key = "hang:builtin:" + name
                elif key.startswith("stack-overflow:"):
                    key = "stack-overflow:builtin:" + name
                elif key.startswith("abort:out-of-memory"):
                    key = "abort:out-of-memory:builtin:" + name
                classes.add(key, text, det + "  [built-in %s, tuple %d]" % (fkey, k), "builtins")
            continue
        if kind == "hang":
            # slower than the sweep's limit but it answered within the longer limit of the replay: not a failure
            stats["slow_not_hung"] = stats.get("slow_not_hung", 0) + 1
            continue
        # not reproduced from source text on a fresh engine: report with the sweep job as the replay
        jobline = "F %s %s %d %d %d %d %d" % (name, module, arity, mode, max(0, k), (k + 1) if k >= 0 else job[5], job[6])
        if kind == "panic":
            key = panic_class(detail)
        elif kind == "death":
            sig, hook, _ = (detail.split(" || ") + ["", ""])[:3]
            key = sig + ((":" + panic_class(hook)[6:]) if hook else "") + "@" + name
        elif kind == "hang":
            key = "hang:builtin:" + name
        elif kind == "escape":
            # a non-local exit out of the sweep is legitimate for procedures that invoke their argument
            # (the pool contains a continuation); anything else is reported
            if re.search(r"err ", detail):
                key = "escape:error-not-seen-by-handler:" + name
            else:
                stats["escapes"] = stats.get("escapes", 0) + 1
                continue
        elif kind == "thread-panic":
            key = "thread-" + panic_class(detail)
        elif kind == "after-panic":
            key = "after-panic:" + after_panic_signature(detail)
        elif kind == "residue":
            key = "residue:after-builtin-sweep"
        else:
            key = "probe:after-builtin-sweep"
        classes.add(key, ";;; sweep job (c07 builtins): " + jobline + ("\n" + text if text else ""),
                    detail + "  [built-in %s, tuple %d; not reproduced by the single call on a fresh engine]" % (fkey, k), "builtins")


# ------------------------------------------------------------------------------------------------------------------
# (i) texts

PROBE_NAMES = None


def probe_names():
    """identifiers the probe program depends on (a text that redefines one of them changes the probe legitimately)"""
    global PROBE_NAMES
    if PROBE_NAMES is None:
        rc, out = C.sh([BIN, "probe"], timeout=60)
        toks = set(re.findall(r"[^\s()\[\]'\"]+", out.split(";;; expected")[0]))
        PROBE_NAMES = {t for t in toks if not re.match(r"^-?\d", t)} | {"C07S", "c07-keep", "c07-keep-fn", "#%verif-stack-depth"}
        # what the prelude macros used by the probe (with-handler = reset / shift around call-with-exception-handler,
        # struct) expand to
        PROBE_NAMES |= {"reset", "shift", "*reset", "*shift", "*abort", "*meta-continuation*", "call-with-exception-handler",
                        "call-with-current-continuation", "void", "#%void", "make-struct-type", "values", "call-with-values",
                        "dynamic-wind", "get-tls", "set-tls!", "make-tls", "apply", "cons", "cdr", "null?", "empty?", "not", "eq?",
                        "equal?", "list?", "pair?", "begin", "let*", "letrec", "cond", "when", "unless", "and", "or", "quote"}
    return PROBE_NAMES


STANDARD_NAMES = None


def standard_names():
    """global names of a fresh engine (built-ins + prelude) and the names the probe itself uses"""
    global STANDARD_NAMES
    if STANDARD_NAMES is None:
        rc, out = C.sh([BIN, "globals"], timeout=120)
        STANDARD_NAMES = {l.strip() for l in out.splitlines() if l.strip() and not l.startswith("WARNING")} | probe_names()
    return STANDARD_NAMES


def redefines_probe_name(text):
    """does the text (try to) rebind a standard name?  The probe promises its fixed results only while the standard
    procedures and macros it is written with keep their meaning; a text that defines / assigns one of them — also a
    text that fails before the redefinition is executed (C06's finding K06b leaves such a name unassigned) — may
    change the probe legitimately, and a probe difference after it is not held against C07."""
    names = standard_names()
    for m in re.finditer(r"\(\s*(?:define|define-values|set!|define-syntax|defmacro|struct|define/contract|#%define|define-syntax-rule)\s+\(*\s*([^\s()\[\]]+)", text):
        if m.group(1) in names:
            return m.group(1)
    return None


def failure_classes(r):
    """property failures of one evaluated text: list of (class key, detail)"""
    out = []
    if r is None:
        return out
    res = r.get("res", "")
    if res.startswith("panic "):
        out.append((panic_class(res[6:]), res[6:]))
    if r.get("death"):
        sig = r["death"]
        hook = r.get("hook", "")
        key = sig
        if sig == "stack-overflow":
            key = "stack-overflow:" + r.get("phase", "?")
        elif hook:
            key = sig + ":" + panic_class(hook)[6:]
        out.append((key, sig + " " + hook + " " + r.get("tail", "")))
    if r.get("hang"):
        ph = r.get("phase")
        kind = {"read": "reader-time", "expand": "expander-time", "compile": "compiler-time"}.get(ph, "evaluation-ignores-interrupt")
        out.append(("hang:" + kind, "no answer within the hard limit (phase reached: %s), interrupt requested" % ph))
    d = r.get("depth")
    q = r.get("probe")
    if res.startswith("panic "):
        # the state a caught panic leaves behind is a consequence of the panic: one class of its own
        if (d is not None and d != "0 0") or (q is not None and q != "same"):
            out.append(("after-panic:" + after_panic_signature("depth=%s probe=%s" % ((d or "0 0").replace(" ", ","), q or "same")),
                        "after the caught panic: stack depth (frames operands) = %s, probe = %s" % (d, (q or "")[:200])))
    else:
        if d is not None and d != "0 0":
            if "expected a function for the exception handler" in res:
                rk = "residue:handler-not-a-closure"
            elif re.match(r"^\d+ \d+$", d):
                rk = "residue:" + ("frames" if not d.startswith("0 ") else "operands")
            else:
                rk = "residue:depth-probe-failed"
            out.append((rk, "stack depth after the error (frames operands) = " + d))
        if q is not None and q != "same":
            out.append(("probe:" + probe_signature(q), "probe result: " + q[:300]))
    for o in r.get("others", []):
        out.append(("thread-" + panic_class(o), o))
    return out


def after_panic_signature(detail):
    """one class: whatever a caught panic leaves behind (frames, operands, a later assertion in the probe)"""
    return "engine-state-not-reset"


def probe_signature(q):
    if q.startswith("err "):
        return "error:" + re.sub(r"[^A-Za-z]+", "-", q[4:60]).strip("-")
    if q.startswith("panic "):
        return "panic:" + panic_class(q[6:])[6:]
    return "wrong-values"


def run_texts(ctx, items, fresh_each=False, tag="t", engine_every=40, phases=True, soft_ms=None, hard_ms=None, batch=40):
    """items: list of (key, bytes).  Evaluates every text; returns key -> result dict.
    A child that dies loses the text it was running; the rest of its batch is re-run."""
    n = len(items)
    nw = min(C.NCPU, max(1, n))
    queue = WorkQueue(list(range(n)), batch=max(1, min(batch, (n + nw - 1) // nw)))
    results = {}
    soft = soft_ms or (2500 if ctx.quick() else 5000)
    hard = hard_ms or (6000 if ctx.quick() else 12000)

    def worker(wid):
        out = os.path.join(SCRATCH, "%s%d.out" % (tag, wid))
        sandbox = os.path.join(SCRATCH, "sandbox", "%s%d" % (tag, wid))
        local = {}
        todo = []
        guard = 0
        while guard < 1000000:
            guard += 1
            if not todo:
                todo = queue.take()
                if not todo:
                    break
            lines = []
            for c, i in enumerate(todo):
                if c and (fresh_each or c % engine_every == 0):
                    lines.append("N")
                key_i, body_i = items[i][0], items[i][1]
                if key_i.startswith("cb:"):         # callback family: (text, handled variant)
                    lines.append("C %d %s" % (i, " ".join(x.hex() for x in body_i)))
                else:
                    lines.append("%s %d %s" % ("M" if key_i.startswith("mod:") else "X" if key_i.startswith("x:") else "T", i, body_i.hex()))
            env = {"C07_SOFT_MS": str(soft), "C07_HARD_MS": str(hard), "C07_MODS": MODS}
            rc, tail = spawn("texts", lines, out, sandbox, env=env, timeout=60 + (hard // 1000 + 2) * len(todo))
            recs = read_records(out)
            cur = None
            ended = False
            hooks = []
            # which texts ran before on the same engine: the job list restarts the engine at `N`, the harness does it
            # after a panic / a probe mismatch (record `N <id>`)
            fresh_before = set()
            c = 0
            for ln in lines:
                if ln == "N":
                    fresh_before.add(c)
                else:
                    c += 1
            order = {i: k for k, i in enumerate(todo)}
            epoch = []
            for r in recs:
                f = r.split(" ", 2)
                if f[0] == "B":
                    cur = int(f[1])
                    if order.get(cur) in fresh_before:
                        epoch = []
                    local[cur] = {"others": [], "epoch": list(epoch)}
                    epoch.append(cur)
                    hooks = []
                elif f[0] == "N" and cur is not None:
                    epoch = []
                elif f[0] == "R" and cur is not None:
                    local[cur]["res"] = f[2] if len(f) > 2 else ""
                elif f[0] == "D" and cur is not None:
                    local[cur]["depth"] = f[2] if len(f) > 2 else ""
                elif f[0] == "Q" and cur is not None:
                    q = f[2] if len(f) > 2 else ""
                    local[cur]["probe"] = q if q == "same" else bytes.fromhex(q).decode("utf-8", "replace")
                elif f[0] == "V" and cur is not None:
                    local[cur]["value"] = bytes.fromhex(f[2] if len(f) > 2 else "").decode("utf-8", "replace")
                    local[cur]["res"] = "ok"
                elif f[0] in ("L", "W") and cur is not None:
                    q = f[2] if len(f) > 2 else ""
                    local[cur]["let_probe" if f[0] == "L" else "handled_value"] = q if q == "same" else bytes.fromhex(q).decode("utf-8", "replace")
                elif f[0] == "E" and cur is not None:
                    local[cur]["handled_depth"] = f[2] if len(f) > 2 else ""
                elif f[0] == "U" and cur is not None:
                    local[cur]["then_unhandled"] = f[2] if len(f) > 2 else ""
                elif f[0] == "S" and cur is not None:
                    local[cur]["second_run_differs"] = True
                elif f[0] == "O" and cur is not None:
                    local[cur]["others"].append(f[2] if len(f) > 2 else "")
                elif f[0] == "I" and cur is not None:
                    local[cur]["interrupted"] = True
                elif f[0] == "M" and cur is not None:
                    local[cur]["ms"] = int(f[2]) if len(f) > 2 and f[2].isdigit() else 0
                elif f[0] == "K":
                    hooks.append(r[2:])
                elif f[0] == "H" and cur is not None:
                    local[cur]["hang"] = True
                elif f[0] == "END":
                    ended = True
            if ended:
                todo = []
                continue
            if cur is None:
                # died before the first text: environment problem
                local[todo[0]] = {"death": death_signature(rc, tail), "tail": tail[-300:], "others": []}
                todo = todo[1:]
                continue
            # text `cur` killed the child (unless it had already been answered completely: then the next one did)
            r = local[cur]
            complete = "res" in r and (not (r["res"].startswith("err") or r["res"].startswith("panic")) or
                                       ("then_unhandled" in r if items[cur][0].startswith("cb:") and r["res"].startswith("err") else "probe" in r))
            pos = todo.index(cur)
            if complete and not r.get("hang"):
                if pos + 1 < len(todo):
                    nxt = todo[pos + 1]
                    local[nxt] = {"death": death_signature(rc, tail), "tail": tail[-300:], "others": [], "hook": hooks[-1] if hooks else ""}
                    todo = todo[pos + 2:]
                else:
                    todo = []
                continue
            if not r.get("hang"):
                r["death"] = death_signature(rc, tail)
                r["hook"] = hooks[-1] if hooks else ""
                r["tail"] = (tail.strip().splitlines() or [""])[-1][:300]
                if "res" in r:
                    r["death_in_probe"] = True
            todo = todo[pos + 1:]
        return local

    t_a = time.time()
    for local in C.pool_map(worker, list(range(nw)), workers=nw):
        for i, r in local.items():
            if "epoch" in r:
                r["epoch"] = [items[j][0] for j in r["epoch"]]
            results[items[i][0]] = r
    t_b = time.time()
    if phases:
        # which phase overflows the native stack / does not finish (parser / expander / compiler / run)
        over = [(k, b) for (k, b) in items if results.get(k, {}).get("death") == "stack-overflow" or results.get(k, {}).get("hang")]
        over = over[:80]
        for (k, b), ph in zip(over, C.pool_map(lambda a: overflow_phase(ctx, a[1][1], a[0]), list(enumerate(over)))):
            results[k]["phase"] = ph
    ctx.log("run_texts[%s]: %d texts, evaluation %.1fs, phases %.1fs" % (tag, n, t_b - t_a, time.time() - t_b))
    return results


def run_sequences(ctx, seqs, tag="s", hard_ms=12000):
    """seqs: list of lists of (as_module, byte string); each sequence runs on its own fresh engine (own child process).
    Returns, per sequence, the result dict of its LAST text (None if the child died before)."""
    def one(arg):
        slot, seq = arg
        out = os.path.join(SCRATCH, "%s%d.out" % (tag, slot % 64))
        out = os.path.join(SCRATCH, "%s-%d.out" % (tag, slot))
        lines = ["%s %d %s" % ("M" if mod else "T", i, b.hex()) for i, (mod, b) in enumerate(seq)]
        rc, tail = spawn("texts", lines, out, os.path.join(SCRATCH, "sandbox", "%s%d" % (tag, slot % 32)),
                         env={"C07_SOFT_MS": "3000", "C07_HARD_MS": str(hard_ms), "C07_MODS": MODS}, timeout=60 + 15 * len(seq))
        got = {}
        cur = None
        hooks = []
        for r in read_records(out):
            f = r.split(" ", 2)
            if f[0] == "B":
                cur = int(f[1])
                got[cur] = {"others": []}
            elif cur is None:
                continue
            elif f[0] == "R":
                got[cur]["res"] = f[2] if len(f) > 2 else ""
            elif f[0] == "D":
                got[cur]["depth"] = f[2] if len(f) > 2 else ""
            elif f[0] == "Q":
                q = f[2] if len(f) > 2 else ""
                got[cur]["probe"] = q if q == "same" else bytes.fromhex(q).decode("utf-8", "replace")
            elif f[0] == "O":
                got[cur]["others"].append(f[2] if len(f) > 2 else "")
            elif f[0] == "K":
                hooks.append(r[2:])
            elif f[0] == "H":
                got[cur]["hang"] = True
        try:
            os.remove(out)
        except OSError:
            pass
        last = len(seq) - 1
        if last in got:
            r = got[last]
            if "res" not in r and not r.get("hang"):
                r["death"] = death_signature(rc, tail)
                r["hook"] = hooks[-1] if hooks else ""
            return r
        return None
    return C.pool_map(one, list(enumerate(seqs)))


def overflow_phase(ctx, b, slot=0):
    out = os.path.join(SCRATCH, "phase%d.out" % slot)
    rc, tail = spawn("phase", ["T 0 " + b.hex()], out, os.path.join(SCRATCH, "sandbox", "phase%d" % slot), timeout=25)
    last = "start"
    for r in read_records(out):
        if r.startswith("PH "):
            last = r.split(" ")[2]
    if "END" in read_records(out):
        return "not-reproduced-in-phases"
    # the marker that was reached last names the phase before the one that died; dying after `run` = while the values
    # of the finished evaluation are dropped
    return {"start": "read", "read": "expand", "expand": "compile", "compile": "run", "run": "drop"}.get(last, "?")


# ------------------------------------------------------------------------------------------------------------------
# directed probe: one engine per request

def engines_probe(ctx):
    """Create, use (one small procedure) and drop engines in ONE child process, with the JIT and — as the control —
    with STEEL_JIT=false.  Returns {label: dict(n, worked, panic, maps_first, maps_last, rc)}.  Runs in the background
    of the other phases (one core each)."""
    try:
        limit = int(open("/proc/sys/vm/max_map_count").read())
    except (OSError, ValueError):
        limit = 65530
    n_jit = 300 if not ctx.quick() else max(60, min(300, limit // 320 + 30))     # ~324 mappings per engine stay behind
    n_ctl = 300 if not ctx.quick() else 40
    res = {}

    def one(label, n, env):
        sandbox = os.path.join(SCRATCH, "sandbox", "engines-" + label)
        os.makedirs(sandbox, exist_ok=True)
        rc, out = C.sh(["bash", "-c", "ulimit -c 0; exec \"$0\" \"$@\"", BIN, "engines", str(n)], cwd=sandbox, timeout=900, env=env)
        d = {"n": n, "rc": rc, "worked": None, "panic": None, "maps_first": None, "maps_last": None, "max_map_count": limit}
        for l in out.splitlines():
            f = l.split(" ", 2)
            if f[0] == "E" and len(f) == 3 and f[1] == "1":
                d["maps_first"] = int(f[2].split("=")[1])
            elif f[0] == "P" and len(f) == 3:
                d["panic"] = (int(f[1]), f[2])
            elif f[0] == "END" and len(f) == 3:
                d["worked"] = int(f[1])
                d["maps_last"] = int(f[2].split("=")[1])
        if d["worked"] is None:
            d["tail"] = out[-400:]
        res[label] = d

    ths = [threading.Thread(target=one, args=("jit", n_jit, {})),
           threading.Thread(target=one, args=("no-jit", n_ctl, {"STEEL_JIT": "false"}))]
    for t in ths:
        t.start()
    return ths, res


def engines_verdict(ctx, classes, stats, ths, res):
    for t in ths:
        t.join()
    stats["engines_probe"] = res
    for label, d in res.items():
        replay = (";;; directed probe `c07 engines %d`%s: in ONE process, %d times: Engine::new(), evaluate the two forms "
                  "below (with a fresh name each time), drop the engine\n(define (f1 x) (+ x 1))\n(f1 1)\n" % (
                      d["n"], " with STEEL_JIT=false" if label == "no-jit" else "", d["n"]))
        if d["worked"] is None:
            classes.add("engines:died:" + label, replay, "the child died: rc=%s %s" % (d["rc"], d.get("tail", "")[-200:]), "engines")
            continue
        per = (d["maps_last"] - (d["maps_first"] or 0)) / max(1, d["worked"] - 1)
        d["mappings_kept_per_engine"] = round(per, 1)
        if d["panic"]:
            i, what = d["panic"]
            if " | " not in what:
                what = what.replace(" / ", " | ", 2)       # (the record writer turns `|` into `/`)
            key = "engines:" + ("panic:" + panic_class(what).split(":", 1)[1] if " | " in what else "error")
            if label == "no-jit":
                key += ":without-jit"
            classes.add(key, replay, "engine number %d of the process failed: %s; /proc/self/maps grew from %s to %s lines over %d dropped engines "
                        "(%.0f per engine, vm.max_map_count = %d)" % (i, what[:300], d["maps_first"], d["maps_last"], d["worked"], per, d["max_map_count"]), "engines")
        elif per > 20:
            classes.add("engines:mappings-never-released" + (":without-jit" if label == "no-jit" else ""), replay,
                        "no failure within %d engines, but every dropped engine leaves %.0f memory mappings behind (%s -> %s lines of "
                        "/proc/self/maps; vm.max_map_count = %d)" % (d["worked"], per, d["maps_first"], d["maps_last"], d["max_map_count"]), "engines")


# ------------------------------------------------------------------------------------------------------------------
# correspondence of the recovery model (lean/SteelVerif/C07/Model.lean) with the real engine

def gen_rec_expr(r, d):
    """(steel source, model code) of an expression; every value is a number, the only failing primitive is (car 5).
    Shapes are chosen so that the model's frames are real frames of the VM: the operator of a call is a computed value
    (an immediately applied lambda is compiled as a `let`, a known same-unit procedure may be inlined), and every
    frame-pushing expression sits in operand position of `(+ 0 _)` (a call in tail position re-uses the frame)."""
    k = r.randrange(16) if d > 0 else r.choice([0, 0, 0, 9, 11])
    if k >= 13:
        # a callback of the RIGHT arity run by a nested VM instance (call_with_one_arg +
        # call_with_instructions_and_reset_state): for the counters it is a value or a failing primitive
        # (Nested.lean, native_callback_keeps_invariant) — a value, an error, an error caught inside the callback
        cb, m = [("(+ x 1)", "P0"), ("(car 5)", "F1"),
                 ("(call-with-exception-handler (lambda (e) 3) (lambda () (car 5)))", "P0")][k - 13]
        return "(car (transduce (list 7) (mapping (lambda (x) %s)) (into-list)))" % cb, m
    if k >= 11:
        # a callback of the wrong arity called by a native higher-order procedure: the frame is pushed, not counted,
        # and left behind (model instruction `A`; call_with_one_arg / call_with_two_args in vm.rs)
        if k == 11:
            return "(transduce (list 1 2) (filtering (lambda (x y) #t)) (into-list))", "A"
        return "(transduce (list 1 2) (mapping (lambda (x) x)) (into-reducer (lambda (a) a) 0))", "A"
    if k <= 1:
        n = r.randrange(1, 9)
        return str(n), "P%d" % n
    if k == 2:
        a, b = gen_rec_expr(r, d - 1), gen_rec_expr(r, d - 1)
        return "(+ %s %s)" % (a[0], b[0]), "%s %s O O P0" % (a[1], b[1])
    if k == 3:
        a, b = gen_rec_expr(r, d - 1), gen_rec_expr(r, d - 1)
        return "(+ 0 ((car (list (lambda (x) %s))) %s))" % (b[0], a[0]), "P0 %s C[%s] O O O P0" % (a[1], b[1])
    if k in (4, 5):
        h, b = gen_rec_expr(r, d - 1), gen_rec_expr(r, d - 1)
        # the primitive, not the `with-handler` macro (which wraps it in reset / shift: continuations are C08's model)
        return "(+ 0 (call-with-exception-handler (lambda (e) %s) (lambda () %s)))" % (h[0], b[0]), "P0 H[O %s][%s] O O P0" % (h[1], b[1])
    if k == 6:
        b = gen_rec_expr(r, d - 1)
        return "(+ 0 (call-with-exception-handler list (lambda () %s)))" % b[0], "P0 B[%s] O O P0" % b[1]
    if k == 7:
        b = gen_rec_expr(r, d - 1)
        return "(+ 0 (call/cc (lambda (k) %s)))" % b[0], "P0 K[%s] O O P0" % b[1]
    if k == 8:
        a, b = gen_rec_expr(r, d - 1), gen_rec_expr(r, d - 1)
        return "(begin %s %s)" % (a[0], b[0]), "%s O %s" % (a[1], b[1])
    if k == 9:
        return "(car 5)", "F1"
    a = gen_rec_expr(r, d - 1)
    return "(list %s (car 5))" % a[0], "%s F1" % a[1]


def run_model_correspondence(ctx, classes, stats):
    r = random.Random(ctx.seed * 31337 + 5)
    n = 240 if ctx.quick() else 3000
    progs = []
    for i in range(n):
        forms_s, forms_m, defined = [], [], []
        for j in range(r.choice([1, 2, 2, 3])):
            e = gen_rec_expr(r, r.choice([2, 3, 4]))
            if r.random() < 0.5:
                g = i * 10 + j
                forms_s.append("(define c07g%d %s)" % (g, e[0]))
                forms_m.append("%s D%d" % (e[1], g))
            else:
                forms_s.append(e[0])
                forms_m.append(e[1])
        progs.append(("\n".join(forms_s), "|".join(forms_m)))
    rc, out, err = C.run_bin([C.driver_path("c07driver")], "\n".join(m for _, m in progs) + "\n", timeout=300)
    mlines = out.splitlines()
    if rc != 0 or len(mlines) != len(progs):
        ctx.violation("C07-driver.txt", "c07driver failed on the recovery programs (rc=%d, %d of %d answers)\n%s\n" % (rc, len(mlines), len(progs), err[-500:]), no_input=True)
        return
    res = run_texts(ctx, [("m%d" % i, s.encode()) for i, (s, _) in enumerate(progs)], tag="m", phases=False, engine_every=25)
    dist = {}
    mism = 0
    for i, ((src, mcode), ml) in enumerate(zip(progs, mlines)):
        rr = res.get("m%d" % i) or {}
        mo = ml.split(" ")[0]
        mf = int(re.search(r"frames=(\d+)", ml).group(1))
        ms = int(re.search(r"stack=(\d+)", ml).group(1))
        rs = rr.get("res", "")
        if rs.startswith("ok"):
            ro = "ok"
        elif rs.startswith("err"):
            ro = "error"
        else:
            ro = "other:" + (rs[:40] or str(rr.get("death") or rr.get("hang")))
        dist[mo] = dist.get(mo, 0) + 1
        same = (mo == ro)
        if same and ro != "ok":
            d = rr.get("depth", "0 0")
            mm = re.match(r"^(\d+) (\d+)$", d)
            if not mm:
                # frames with open continuation marks were left behind: with debug assertions the depth query itself
                # fails in ContinuationMark::close.  Agrees with the model iff the model also leaves something behind.
                same = d.startswith("panic") and "ContinuationMark::close" in d and (mf > 0 or ms > 0)
                stats["model_residue_seen_as_assertion"] = stats.get("model_residue_seen_as_assertion", 0) + (1 if same else 0)
            else:
                # property level observables: is anything left on the frame stack / the operand stack
                same = ((int(mm.group(1)) > 0) == (mf > 0)) and ((int(mm.group(2)) > 0) == (ms > 0))
        if not same:
            mism += 1
            if mism <= 3:
                ctx.violation("C07-model-mismatch-%d.txt" % mism, "the recovery model and the engine disagree (impl != M)\n%s\n;; model program: %s\n;; model : %s\n;; engine: %s depth=%s\n" % (
                    src, mcode, ml, rs[:200], rr.get("depth")), no_input=True)
    stats["model_programs"] = len(progs)
    stats["model_outcomes"] = dist
    stats["model_mismatches"] = mism


# ------------------------------------------------------------------------------------------------------------------
# (iv) errors raised inside callbacks of native higher-order built-ins and transducers
#
# Which built-ins call a procedure they are given is not in the module tables (name and arity only); it is DISCOVERED on
# every run: each built-in is applied, at arities 1..3, with a counting procedure `c07-cb` (accepts any number of
# arguments) in every argument position and plausible collections / transducers / reducers in the other positions; the
# result is then handed to a few consumers (a transducer / reducer is run by transduce, a procedure is called, a stream
# is forced).  Wherever `c07-cb` was invoked — with k arguments — is a callback site.  Every site is then evaluated at
# the TOP LEVEL (no handler) with callbacks that fail: the wrong number of parameters (k+1, k-1, 0), a callback that
# raises, one whose body makes an arity error, one that itself runs a native higher-order procedure with a callback of
# the wrong arity, and a non-procedure.  After the error (harness job `C`): the let-probe (a top-level let* / let with
# several variables and calls: operands left behind show as wrong values), the same text again, the depth hook, the
# probe; then the same expression under a handler installed with call-with-exception-handler inside two nested
# procedures, whose value the reference semantics fixes, and the depth after that successful evaluation.

CB_OTHERS = ["(list 10 20 30)", "(vector 10 20 30)", "(hash 'a 1 'b 2)", "\"abc\"", "2", "c07-cb", "(hashset 10 20)",
             "(mapping (lambda (x) x))", "(into-list)", "(immutable-vector 10 20 30)"]
CB_CONSUMERS = ["{R}", "(transduce (list 10 20 30) {R} (into-list))", "(transduce (list 10 20 30) (mapping (lambda (x) x)) {R})",
                "({R})", "({R} 10)", "({R} 10 20)", "(stream-car {R})", "(stream-car (#%stream-cdr {R}))"]
CB_PRELUDE = """(define c07-seen '())
(define (c07-cb . args) (set! c07-seen (cons (length args) c07-seen)) #f)
(define (c07-try th) (with-handler (lambda (e) 'c07-err) (th)))
(define (c07-plain? r)
  (or (number? r) (string? r) (boolean? r) (void? r) (symbol? r) (char? r) (list? r) (vector? r) (hash? r)
      (eq? r c07-cb)))        ; (a built-in that returns its argument is not a callback site)
(define c07-oth (vector %s))
(define c07-out '())
(define (c07-note! cand consumer)
  (when (not (null? c07-seen))
    (set! c07-out (cons (list cand consumer c07-seen) c07-out))
    (set! c07-seen '())))
(define (c07-disc cand thunk)
  (set! c07-seen '())
  (let ((r (c07-try thunk)))
    (c07-note! cand 0)
    (when (not (c07-plain? r))
%s)))
(define (c07-each1 f) (let loop ((i 0)) (when (< i %d) (f i (vector-ref c07-oth i)) (loop (+ i 1)))))
(define (c07-each2 f)
  (let loop ((i 0)) (when (< i %d)
    (let inner ((j 0)) (when (< j %d) (f i j (vector-ref c07-oth i) (vector-ref c07-oth j)) (inner (+ j 1))))
    (loop (+ i 1)))))
""" % (" ".join("(lambda () %s)" % o for o in CB_OTHERS),
       "\n".join("      (c07-try (lambda () %s)) (c07-note! cand %d)" % (c.replace("{R}", "r"), i) for i, c in enumerate(CB_CONSUMERS) if i),
       len(CB_OTHERS), len(CB_OTHERS), len(CB_OTHERS))


def builtin_head(module, name):
    return "(%%module-get%% %%-builtin-module-%s '%s)" % (module, name)


def discovery_text(module, name, arities):
    """candidate code = arity*10000 + position*1000 + i*10 + j (i, j: indices into CB_OTHERS of the other arguments)"""
    t = [CB_PRELUDE, "(define c07-f %s)" % builtin_head(module, name)]
    for a in arities:
        for p in range(a):
            code = a * 10000 + p * 1000
            if a == 1:
                t.append("(c07-disc %d (lambda () (c07-f c07-cb)))" % code)
            elif a == 2:
                args = ["c07-cb", "(x)"] if p == 0 else ["(x)", "c07-cb"]
                t.append("(c07-each1 (lambda (i x) (c07-disc (+ %d (* 10 i)) (lambda () (c07-f %s)))))" % (code, " ".join(args)))
            else:
                args = ["(x)", "(y)"]
                args.insert(p, "c07-cb")
                t.append("(c07-each2 (lambda (i j x y) (c07-disc (+ %d (* 10 i) j) (lambda () (c07-f %s)))))" % (code, " ".join(args)))
    t.append("c07-out")
    return "\n".join(t)


def discover_callback_sites(ctx):
    """[(module, name, arity, position, (i, j), consumer, sorted argument counts)]: where a built-in (or what it returns,
    run by a consumer) invoked the procedure it was given"""
    fns = list_builtins()
    items = []
    meta = {}
    for key in sorted(fns):
        module, kind, arity, name = fns[key]
        if denied(module, name) or " " in name or name.startswith("c07-"):
            continue
        ars = [a for a in arities_for(arity, True) if 1 <= a <= 3]
        m = re.match(r"(\w+)\((\d+)(?:, (\d+))?\)", arity)
        if m:      # only arities the procedure accepts (the arity check itself is the sweep's business)
            lo = int(m.group(2)) if m.group(1) in ("Exact", "AtLeast", "Range") else 0
            hi = int(m.group(2)) if m.group(1) in ("Exact", "AtMost") else int(m.group(3)) if m.group(1) == "Range" else 99
            ars = [a for a in ars if lo <= a <= hi]
        if not ars:
            continue
        k = "x:disc:%s:%s" % (module, name)
        items.append((k, discovery_text(module, name, ars).encode()))
        meta[k] = (module, name)
    res = run_texts(ctx, items, tag="d", phases=False, engine_every=25, soft_ms=4000, hard_ms=8000, batch=12)
    sites = []
    stats = {"callback_discovery_builtins": len(items), "callback_discovery_failed": 0}
    lost = []
    for k, _ in items:
        r = res.get(k) or {}
        v = r.get("value")
        if v is None:
            stats["callback_discovery_failed"] += 1
            lost.append("%s: %s" % (meta[k][1], (r.get("res") or r.get("death") or ("hang" if r.get("hang") else "?"))[:80]))
            continue
        v = v.split("\x1f")[-1]
        for m in re.finditer(r"\((\d+) (\d+) \(([\d ]+)\)\)", v):
            cand, cons = int(m.group(1)), int(m.group(2))
            ks = sorted(set(int(x) for x in m.group(3).split()))
            a, p, i, j = cand // 10000, (cand // 1000) % 10, (cand // 10) % 100, cand % 10
            sites.append((meta[k][0], meta[k][1], a, p, (i, j), cons, tuple(ks)))
    stats["callback_discovery_lost"] = lost[:40]
    return sorted(set(sites)), stats


def callback_expr(site, bad):
    module, name, a, p, (i, j), cons, ks = site
    others = [CB_OTHERS[i], CB_OTHERS[j]][: a - 1] if a == 3 else [CB_OTHERS[i]][: a - 1]
    others = [bad if o == "c07-cb" else o for o in others]
    args = list(others)
    args.insert(p, bad)
    return CB_CONSUMERS[cons].replace("{R}", "(%s %s)" % (builtin_head(module, name), " ".join(args)))


def bad_callbacks(ks):
    """(kind, expression) of the failing callbacks for a site that invokes its procedure with k in ks arguments"""
    out = []
    for n in sorted(set([0] + [k + 1 for k in ks] + [k - 1 for k in ks if k >= 2]) - set(ks)):
        out.append(("wrong-arity", "(lambda (%s) #t)" % " ".join("a%d" % x for x in range(n))))
    out += [("raises", "(lambda args (error \"c07-cb\"))"), ("raises", "(lambda args (car 5))"),
            ("inner-arity-error", "(lambda args (c07-keep-fn))"),
            ("nested-wrong-arity", "(lambda args (transduce (list 1 2) (filtering (lambda (x y) #t)) (into-list)))"),
            ("non-procedure", "5")]
    return out


HANDLED_EXPECTED = "(0 (1 100 100 2) 3)"
# what the faithful model (Model.lean, `native` with a wrong arity under `handle`) predicts for the code that exists:
# each handled error discounts a frame that was never counted, the evaluation ends when pop_count reaches 0 — two
# frames early — and the frame of the outermost procedure stays on the frame stack (theorem `handled_native_arity_error_*`)
HANDLED_MODEL = ("100", "1 0")
# the two shapes as programs of the recovery model (driver line protocol): (list 0 (hg) 3) and (list 0 (hm) 3)
HANDLED_SHAPES = ["P0 C[P1 C[P0 H[O P100][A] O O P0] C[P0 H[O P100][A] O O P0] P2 O O O O P0] P3 O O O P0",
                  "P0 C[P7 P8 C[P1 C[P0 H[O P100][A] O O P0] C[P0 H[O P100][A] O O P0] F9]]"]


def handled_model_prediction(ctx):
    """what the faithful model answers for the two shapes: (depth after the handled evaluation, does the unhandled
    error after two handled ones leave operands).  None when the driver does not answer."""
    rc, out, err = C.run_bin([C.driver_path("c07driver")], "\n".join(HANDLED_SHAPES) + "\n", timeout=60)
    ls = out.splitlines()
    if rc != 0 or len(ls) != 2:
        return None
    m1 = re.match(r"ok \d+ frames=(\d+) stack=(\d+)", ls[0])
    m2 = re.match(r"error \d+ frames=(\d+) stack=(\d+)", ls[1])
    if not m1 or not m2:
        return None
    return ("%s %s" % (m1.group(1), m1.group(2)), int(m2.group(1)) == 0 and int(m2.group(2)) > 0)


def run_callbacks(ctx, classes, stats):
    t0 = time.time()
    sites, dstats = discover_callback_sites(ctx)
    stats.update(dstats)
    # the same callback path is found with many combinations of the other arguments: two per (procedure, arity,
    # position, consumer, argument counts)
    per = {}
    for s in sites:
        per.setdefault((s[0], s[1], s[2], s[3], s[5], s[6]), []).append(s)
    chosen = []
    for k in sorted(per):
        v = per[k]
        chosen += [v[0]] + ([v[-1]] if len(v) > 1 else [])
    stats["callback_sites"] = len(per)
    stats["callback_site_procedures"] = sorted(set(s[1] for s in sites))
    items, meta = [], {}
    for s in chosen:
        for kind, bad in bad_callbacks(s[6]):
            e = callback_expr(s, bad)
            text = "(list 41 (c07-keep-fn 42) %s)" % e
            handled = HSEP.join(["(define (c07-hf) (+ 0 (call-with-exception-handler (lambda (e) 100) (lambda () %s))))" % e,
                                 "(define (c07-hg) (list 1 (c07-hf) (c07-hf) 2))",
                                 "(define (c07-hk) (list 1 (c07-hf) (c07-hf) (car 5)))", "(define (c07-hm) (list 7 8 (c07-hk)))",
                                 "(list 0 (c07-hg) 3)", "(list 0 (c07-hm) 3)"])
            key = "cb:%d" % len(items)
            items.append((key, tuple([text.encode()] + [x.encode() for x in handled.split(HSEP)])))
            meta[key] = (s, kind, text, handled)
    res = run_texts(ctx, items, tag="c", phases=False, engine_every=30, soft_ms=3000, hard_ms=8000, batch=20) if items else {}
    pred = handled_model_prediction(ctx)
    stats["callback_model_prediction"] = pred
    out = {"ok": 0, "err": 0, "other": 0, "let_probe_same": 0, "handled_as_expected": 0, "handled_as_model_of_finding": 0, "second_run_differs": 0}
    for key, _ in items:
        r = res.get(key)
        s, kind, text, handled = meta[key]
        if r is None:
            out["other"] += 1
            continue
        rs = r.get("res", "")
        out["ok" if rs.startswith("ok") else "err" if rs.startswith("err") else "other"] += 1
        src = "callbacks"
        for ck, det in failure_classes(r):
            classes.add(ck, text, det + "  [%s callback at site %s/%d position %d, consumer %d]" % (kind, s[1], s[2], s[3], s[5]), src)
        if not rs.startswith("err"):
            continue
        if r.get("second_run_differs"):
            out["second_run_differs"] += 1
        lp = r.get("let_probe")
        if lp == "same":
            out["let_probe_same"] += 1
        elif lp is not None:
            classes.add("probe:let-after-callback-error", text + HSEP + "(let* ((a (c07-keep-fn 5)) (b (+ (car a) 1)) (c (list a b))) (let ((d (c07-keep-fn b)) (e (#%verif-stack-depth)) (f (length c))) (list a b c d e f)))",
                        "a top-level let evaluated after the error: " + lp[:300], src)
        hv, hd, hu = r.get("handled_value"), r.get("handled_depth"), r.get("then_unhandled")
        if hv is None:
            continue
        if hv == HANDLED_EXPECTED and hd == "0 0" and hu == "err 0 0":
            out["handled_as_expected"] += 1
        elif (kind in ("wrong-arity", "nested-wrong-arity") and pred is not None and hv == HANDLED_MODEL[0] and hd == pred[0]
              and bool(re.fullmatch(r"err 0 [1-9]\d*", hu or "")) == pred[1]):
            # the class predicate (an ArityMismatch raised by call_with_* under a call-with-exception-handler handler)
            # holds and the engine does what the faithful model does: finding K07ai
            out["handled_as_model_of_finding"] += 1
            classes.add("callback:handled-arity-error:ends-two-frames-early", handled + HSEP + "(#%verif-stack-depth)",
                        "value %s (the reference semantics gives %s), stack depth afterwards %s; an unhandled error after two handled ones: %s (frames operands)  [%s]" % (hv, HANDLED_EXPECTED, hd, hu, s[1]), src)
        else:
            classes.add("callback:handled-error:%s" % ("wrong-value" if hv != HANDLED_EXPECTED else "frames-or-operands-left"),
                        handled + HSEP + "(#%verif-stack-depth)",
                        "value %s (expected %s), stack depth afterwards %s, unhandled error after handled ones: %s (expected err 0 0)  [%s callback, %s]" % (hv[:200], HANDLED_EXPECTED, hd, hu, kind, s[1]), src)
    stats["callback_texts"] = len(items)
    stats["callback_outcomes"] = out
    stats["callbacks_wall_s"] = round(time.time() - t0, 1)


# ------------------------------------------------------------------------------------------------------------------
# directed histories: evaluations on one engine with expectations about the later ones

HSEP = "\n;;; next evaluation on the same engine\n"
MODMARK = ";;; evaluated as a module"

HISTORIES = [
    # (K07a's witness "handler-not-a-closure-twice" is a regression case since /repo commit f4f0e66b)
    # (name, [(kind, text, expectation)])   kind T = evaluate, X = evaluate and compare; expectation: ("value", s) |
    # ("error", substring) | None
    ("failed-unit-keeps-earlier-definition",
     [("T", "(define c07-a 1)", None), ("T", "(define c07-a 2) (c07-undefined-fn 1)", ("error", "FreeIdentifier")),
      ("X", "c07-a", ("value", "1"))]),
    ("failed-run-keeps-completed-definitions",
     [("T", "(define c07-b 1) (define c07-c (car 5)) (define c07-d 3)", ("error", "TypeMismatch")),
      ("X", "c07-b", ("value", "1"))]),
    ("macro-of-failed-program-is-not-defined",
     [("T", "(define-syntax c07-foo (syntax-rules () [(_ a) (+ a 1)])) (c07-undefined-thing 1)", ("error", "FreeIdentifier")),
      ("X", "(c07-foo 1)", ("error", ""))]),
    # (the module file is written by run_histories; {MODS} is its directory)
    ("macro-of-required-module-of-failed-program-is-not-in-scope",
     [("T", "(require \"{MODS}/c07-hist-macros.scm\") (c07-undefined-thing 1)", ("error", "FreeIdentifier")),
      ("X", "(c07-mq 1)", ("error", ""))]),
    ("macro-of-required-module-of-program-failing-in-expansion-is-not-in-scope",
     [("T", "(require \"{MODS}/c07-hist-macros.scm\") (let ((x)) x)", ("error", "")),
      ("X", "(c07-mq 1)", ("error", ""))]),
    ("handler-not-a-closure-twice",
     [("T", "(define (c07-h x) (list x (call-with-exception-handler list (lambda () (error \"x\")))))", None),
      ("T", "(list 1 2 3 (c07-h 5))", ("error", "")), ("T", "(list 1 2 3 (c07-h 5))", ("error", "")),
      ("X", "(+ 1 2)", ("value", "3"))]),
    ("error-then-same-definitions-again",
     [("T", "(define (c07-fact n) (if (= n 0) 1 (* n (c07-fact (- n 1)))))", None), ("T", "(c07-fact 'a)", ("error", "")),
      ("X", "(c07-fact 20)", ("value", "2432902008176640000"))]),
    ("interrupted-loop-then-continue",
     [("T", "(define (c07-spin n) (c07-spin (+ n 1))) (c07-spin 0)", ("error", "Interrupted")), ("X", "(+ 40 2)", ("value", "42"))]),
    ("deep-recursion-error-then-continue",
     [("T", "(define (c07-deep n) (+ 1 (c07-deep (+ n 1)))) (c07-deep 0)", ("error-or-interrupt", "")), ("X", "(+ 40 2)", ("value", "42"))]),
    ("error-inside-handler-inside-handler",
     [("T", "(with-handler (lambda (e) (with-handler (lambda (e2) (car e2)) (cdr 7))) (car 1))", ("error", "")),
      ("X", "(with-handler (lambda (e) 'again) (car 1))", ("value", "again"))]),
    ("continuation-of-earlier-evaluation-at-top-level",
     [("T", "(define c07-k2 #f) (+ 1 (call/cc (lambda (k) (set! c07-k2 k) 1)))", None),
      ("T", "(c07-k2 10)", ("ok", "")), ("X", "(+ 1 1)", ("value", "2"))]),
    ("continuation-of-earlier-evaluation-inside-a-call",
     [("T", "(define c07-k3 #f) (+ 1 (call/cc (lambda (k) (set! c07-k3 k) 1)))", None),
      ("T", "(define (c07-f3) (c07-k3 10)) (list 1 2 (c07-f3))", ("ok", "")), ("X", "(+ 1 1)", ("value", "2"))]),
    ("continuation-of-earlier-failed-evaluation",
     [("T", "(define c07-k4 #f) (+ 1 (call/cc (lambda (k) (set! c07-k4 k) 1))) (car 1)", ("error", "TypeMismatch")),
      ("T", "(c07-k4 10)", ("error", "TypeMismatch")), ("X", "(+ 1 1)", ("value", "2"))]),
]


def runtime_symbol_histories(ctx):
    """symbols (and other constants) that come into being at RUN time — string->symbol of computed strings — and are
    mentioned as literals by a later program / by eval on the same engine"""
    r = random.Random(ctx.seed * 4099 + 3)
    hs = []
    for v in range(4 if ctx.quick() else 24):
        nm = "c07-rt-%s%d" % (r.choice(["sym", "\u00e9t\u00e9", "q", "long-name-with-dashes"]), r.randrange(10 ** 6))
        a, b = nm[: len(nm) // 2], nm[len(nm) // 2:]
        mk = "(define c07-rs%d (string->symbol (string-append \"%s\" \"%s\")))" % (v, a, b)
        kind = v % 4
        if kind == 0:
            steps = [("T", mk, ("ok", "")), ("X", "(quote %s)" % nm, ("value", nm)), ("X", "(eq? c07-rs%d '%s)" % (v, nm), ("value", "#true"))]
        elif kind == 1:
            steps = [("T", mk, ("ok", "")), ("X", "(eval (list 'quote c07-rs%d))" % v, ("value", nm)), ("X", "(symbol->string '%s)" % nm, ("value", '"%s"' % nm))]
        elif kind == 2:
            steps = [("T", mk + "\n(eval (list 'quote c07-rs%d))" % v, ("ok", "")), ("X", "(list '%s)" % nm, ("value", "(%s)" % nm))]
        else:
            steps = [("T", "(define c07-many%d (map (lambda (i) (string->symbol (string-append \"%s-\" (number->string i)))) (range 0 40)))" % (v, nm), ("ok", "")),
                     ("X", "'(%s-0 %s-39)" % (nm, nm), ("value", "(%s-0 %s-39)" % (nm, nm))),
                     ("X", "(eq? (car c07-many%d) '%s-0)" % (v, nm), ("value", "#true"))]
        hs.append(("runtime-made-symbol-%d" % kind, steps))
    return hs


def run_histories(ctx, classes, stats):
    out = os.path.join(SCRATCH, "hist.out")
    n_ok = 0
    with open(os.path.join(MODS, "c07-hist-macros.scm"), "w") as f:
        f.write("(provide c07-mq)\n(define-syntax c07-mq (syntax-rules () [(_ a) (+ a 1)]))\n")
    hists = [(n, [(k, t.replace("{MODS}", MODS), e) for (k, t, e) in steps]) for (n, steps) in HISTORIES] + runtime_symbol_histories(ctx)
    # the multi-evaluation replays of the findings are histories too (no expectation beyond the property itself)
    listed = listed_finding_ids()
    for p in sorted(glob.glob(os.path.join(C.VERIF, "findings", "C07-K07*.txt"))):
        if os.path.basename(p)[4:-4] not in listed:
            continue
        t = finding_replay_text(open(p, encoding="utf-8", errors="replace").read())
        if HSEP in t:
            hists.append(("finding-" + os.path.basename(p)[4:-4], [("T", x, None) for x in t.split(HSEP)]))
    for hi, (name, steps) in enumerate(hists):
        lines = ["%s %d %s" % (k, i, text.encode().hex()) for i, (k, text, _) in enumerate(steps)]
        rc, tail = spawn("texts", lines, out, os.path.join(SCRATCH, "sandbox", "hist"), env={"C07_SOFT_MS": "4000", "C07_HARD_MS": "12000", "C07_MODS": MODS}, timeout=180)
        got = {}
        depth = {}
        for r in read_records(out):
            f = r.split(" ", 2)
            if f[0] == "R":
                got[int(f[1])] = ("res", f[2] if len(f) > 2 else "")
            elif f[0] == "V":
                got[int(f[1])] = ("value", bytes.fromhex(f[2] if len(f) > 2 else "").decode("utf-8", "replace"))
            elif f[0] == "D":
                depth[int(f[1])] = f[2] if len(f) > 2 else ""
        script = HSEP.join(t for _, t, _ in steps)
        bad = []
        if rc != 0:
            bad.append("the child died: " + death_signature(rc, tail))
        for i, (k, text, exp) in enumerate(steps):
            g = got.get(i)
            if g is None:
                bad.append("step %d `%s`: no answer (the evaluation did not return)" % (i, text))
                break
            if g[0] == "res" and g[1].startswith("panic"):
                bad.append("step %d `%s`: %s" % (i, text, g[1][:200]))
                continue
            if g[0] == "res" and "Interrupted by user" in g[1] and not (exp and (exp[1] == "Interrupted" or exp[0] == "error-or-interrupt")):
                bad.append("step %d `%s`: did not terminate (interrupted by the watchdog)" % (i, text))
                continue
            if exp is None:
                continue
            if exp[0] == "ok":
                if not (g[0] == "value" or g[1].startswith("ok")):
                    bad.append("step %d `%s`: expected it to return normally, got %s" % (i, text, g))
            elif exp[0] == "value":
                val = g[1].split("\x1f")[-1] if g[0] == "value" else None
                if val != exp[1]:
                    bad.append("step %d `%s`: expected the value %s, got %s" % (i, text, exp[1], g))
            elif exp[0] == "error-or-interrupt":
                if not (g[0] == "res" and g[1].startswith("err")):
                    bad.append("step %d `%s`: expected an error, got %s" % (i, text, g))
            else:
                if not (g[0] == "res" and g[1].startswith("err") and exp[1] in g[1]):
                    bad.append("step %d `%s`: expected an error%s, got %s" % (i, text, " mentioning " + exp[1] if exp[1] else "", g))
        for i, d in depth.items():
            if d != "0 0":
                bad.append("step %d: stack depth after the error (frames operands) = %s" % (i, d))
        if bad and name.startswith("finding-"):
            # classify by what happened (the finding's own class is recognised through the usual keys)
            key = "history:" + name
            for b in bad:
                m = re.search(r": panic (.*)$", b)
                if m:
                    key = panic_class(m.group(1))
                elif "stack depth after the error" in b:
                    key = "residue:handler-not-a-closure" if "call-with-exception-handler" in script else ("residue:frames" if not re.search(r"= 0 \d+$", b) else "residue:operands")
            if name == "finding-K07c":
                key = "after-panic:engine-state-not-reset"
            elif name == "finding-K07z":
                key = "history:macro-of-failed-program-is-not-defined"
            elif name == "finding-K07aa":
                key = "history:continuation-of-earlier-evaluation-at-top-level"
            elif name == "finding-K07ai":
                key = "callback:handled-arity-error:ends-two-frames-early"
            classes.add(key, script, "; ".join(bad), "histories")
        elif bad:
            classes.add("history:" + name, script, "; ".join(bad), "histories")
        else:
            n_ok += 1
    stats["histories"] = len(hists)
    stats["histories_as_expected"] = n_ok


# ------------------------------------------------------------------------------------------------------------------
# generators of texts

TOKEN = re.compile(r"""\(|\)|\[|\]|'|`|,@|,|"(?:\\.|[^"\\])*"|;[^\n]*|[^\s()\[\]'`,"]+""")

ODD = "\x00\x01\x07\x1b\x7f\xad\u0301\u200b\u200d\ufeff\ufffe\uffff\ud7ff\ue000\U0001f600\U000e0001\U0010ffff\u202e\u2028\x85"
SYN = "()[]{}#|;,'`\"\\+-.@/_:<>!?*=%&~^$"


def rnd_unicode(r, n):
    out = []
    for _ in range(n):
        k = r.random()
        if k < 0.35:
            out.append(r.choice(SYN))
        elif k < 0.55:
            out.append(r.choice("abcdefxyzλé漢0123456789 \n\t"))
        elif k < 0.7:
            out.append(r.choice(ODD))
        else:
            while True:
                cp = r.choice([r.randrange(0x20, 0x80), r.randrange(0x80, 0x800), r.randrange(0x800, 0x10000), r.randrange(0x10000, 0x110000)])
                if not 0xD800 <= cp <= 0xDFFF:
                    out.append(chr(cp))
                    break
    return "".join(out)


HUGE = ["1" + "0" * 400, "9" * 5000, "-" + "7" * 20000, "1e400", "1e-400", "1e999999999", "#e1e3000", "#e1.5e-3000", "1/" + "3" * 3000,
        "#x" + "f" * 4000, "0." + "0" * 4000 + "1", "1" + "0" * 30 + "/3", "1e18446744073709551616", "#i1/0", "1/0", "#e+inf.0",
        "9223372036854775807", "9223372036854775808", "-9223372036854775809", "#b" + "1" * 3000, "1@1", "+i", "1e2147483648"]


def mutate_tokens(r, text):
    toks = TOKEN.findall(text)
    if not toks:
        return text
    for _ in range(r.choice([1, 1, 1, 2, 3])):
        k = r.randrange(9)
        i = r.randrange(len(toks))
        if k == 0:
            del toks[i]
        elif k == 1:
            toks.insert(i, toks[i])
        elif k == 2:
            j = r.randrange(len(toks))
            toks[i], toks[j] = toks[j], toks[i]
        elif k == 3:
            toks.insert(i, r.choice(["(", ")", "(", ")", "[", "]", "'", "`", ",", ",@", "#(", ".", "#;"]))
        elif k == 4:
            toks[i] = r.choice(HUGE)
        elif k == 5:
            toks[i] = r.choice(["define", "lambda", "let", "set!", "if", "quote", "begin", "call/cc", "with-handler", "apply", "error",
                                "dynamic-wind", "define-syntax", "syntax-rules", "...", "else", "=>", "when", "cond", "struct", "require",
                                "provide", "#%prim.car", "eval", "void", "#t", "'()", "\"s\"", "#\\a", "0", "-1", "x"])
        elif k == 6:
            # unbalance: drop every closing paren after i
            toks = toks[:i] + [t for t in toks[i:] if t != ")"][: r.randrange(0, 6)]
        elif k == 7:
            j = min(len(toks), i + r.randrange(1, 6))
            toks[i:j] = toks[i:j] * r.choice([2, 3, 10])
        else:
            toks[i] = rnd_unicode(r, r.randrange(1, 6))
        if not toks:
            break
    return " ".join(toks)


def mutate_bytes(r, b):
    b = bytearray(b)
    for _ in range(r.choice([1, 1, 2, 3, 5, 8])):
        if not b:
            break
        k = r.randrange(7)
        i = r.randrange(len(b))
        if k == 0:
            b[i] = r.randrange(256)
        elif k == 1:
            del b[i:i + r.choice([1, 1, 2, 5, 20, 200])]
        elif k == 2:
            b[i:i] = bytes(r.randrange(256) for _ in range(r.choice([1, 1, 2, 4])))
        elif k == 3:
            j = r.randrange(len(b))
            i, j = min(i, j), max(i, j)
            b[i:i] = b[i:min(j, i + 300)]
        elif k == 4:
            b[i] ^= 1 << r.randrange(8)
        elif k == 5:
            b[i:i + 1] = r.choice([b"(", b")", b"'", b"\"", b"#", b"\\", b";", b"|", b"`", b",", b"[", b"]", b"\n", b"\x00", b"\xff", b"\xc3", b"\xe2\x82", b"\xf0\x9f"])
        else:
            del b[i:]
    return bytes(b)


def deep_texts(r, quick):
    """nesting 10^2 .. 10^5 of parens / quotes / vectors / string escapes / special forms"""
    sizes = [100, 1000, 10000] + ([100000] if True else [])
    shapes = {
        "paren": lambda n: "(" * n + ")" * n,
        "paren-open": lambda n: "(" * n,
        "paren-close": lambda n: ")" * n,
        "bracket": lambda n: "[" * n + "]" * n,
        "quote": lambda n: "'" * n + "a",
        "quasi": lambda n: "`" * n + "a",
        "quasi-unquote": lambda n: "`" + ",`" * n + "a",
        "vector": lambda n: "#(" * n + ")" * n,
        "quoted-list": lambda n: "'" + "(" * n + ")" * n,
        "quoted-list-1": lambda n: "'" + "(1 " * n + ")" * n,
        "string-escapes": lambda n: "\"" + "\\\\" * n + "\"",
        "string-hex-escapes": lambda n: "\"" + "\\x41;" * n + "\"",
        "string-open": lambda n: "\"" + "a" * n,
        "block-comment": lambda n: "#|" * n + "|#" * n,
        "datum-comment": lambda n: "#;" * n + " 1",
        "list-call": lambda n: "(list " * n + ")" * n,
        "plus": lambda n: "(+ 1 " * n + "1" + ")" * n,
        "lambda": lambda n: "(lambda () " * n + "1" + ")" * n,
        "call-lambda": lambda n: "((lambda () " * n + "1" + "))" * n,
        "let": lambda n: "(let ((x 1)) " * n + "x" + ")" * n,
        "begin": lambda n: "(begin " * n + "1" + ")" * n,
        "if": lambda n: "(if #t " * n + "1" + " 2)" * n,
        "define": lambda n: "(define (f) " * n + "1" + ")" * n,
        "cond": lambda n: "(cond [#f 1] [else " * n + "1" + "])" * n,
        "and": lambda n: "(and 1 " * n + "1" + ")" * n,
        "quote-form": lambda n: "(quote " * n + "a" + ")" * n,
        "with-handler": lambda n: "(with-handler (lambda (e) e) " * n + "(car 1)" + ")" * n,
        "callcc": lambda n: "(call/cc (lambda (k) " * n + "1" + "))" * n,
        "long-flat-list": lambda n: "(list " + "1 " * n + ")",
        "long-flat-quoted": lambda n: "'(" + "a " * n + ")",
        "many-forms": lambda n: "1 " * n,
        "many-defines": lambda n: "".join("(define v%d %d)" % (i, i) for i in range(n // 10)),
        "long-symbol": lambda n: "a" * n,
        "long-number": lambda n: "1" * n,
        "hash-literal": lambda n: "(hash " * n + ")" * n,
        "deep-data-print": lambda n: "(define (mk n acc) (if (= n 0) acc (mk (- n 1) (list acc)))) (define d (mk %d '())) (displayln (length d)) (to-string d)" % n,
        "deep-data-equal": lambda n: "(define (mk n acc) (if (= n 0) acc (mk (- n 1) (list acc)))) (equal? (mk %d '()) (mk %d '()))" % (n, n),
        "deep-data-hash": lambda n: "(define (mk n acc) (if (= n 0) acc (mk (- n 1) (list acc)))) (hash (mk %d '()) 1)" % n,
        "deep-vector-data": lambda n: "(define (mk n acc) (if (= n 0) acc (mk (- n 1) (vector acc)))) (define d (mk %d 0)) (equal? d d)" % n,
        "deep-recursion": lambda n: "(define (f n) (if (= n 0) 0 (+ 1 (f (- n 1))))) (f %d)" % n,
        "deep-map-recursion": lambda n: "(define (f n) (if (= n 0) '() (map (lambda (x) x) (list (f (- n 1)))))) (length (f %d))" % n,
        "deep-closure-chain": lambda n: "(define (mk n f) (if (= n 0) f (mk (- n 1) (lambda (x) (f x))))) ((mk %d (lambda (x) x)) 1)" % n,
        "deep-apply": lambda n: "(define (f n) (if (= n 0) 0 (apply + (list 1 (f (- n 1)))))) (f %d)" % n,
        "deep-eval-string": lambda n: "(eval-string \"" + "(list " * min(n, 20000) + ")" * min(n, 20000) + "\")",
        "deep-read": lambda n: "(read! (open-input-string \"" + "(" * min(n, 50000) + ")" * min(n, 50000) + "\"))",
        "deep-string-number": lambda n: "(string->number (make-string %d #\\1))" % n,
    }
    out = []
    for name, f in sorted(shapes.items()):
        for n in sizes:
            if quick and n == 100000 and name in ("many-defines",):
                continue
            out.append(("deep:%s:%d" % (name, n), f(n).encode()))
    return out


def suite_files():
    pats = ["crates/steel-core/src/tests/success/*.scm", "crates/steel-core/src/tests/failure/*.scm", "cogs/**/*.scm"]
    fs = []
    for p in pats:
        fs += sorted(glob.glob(os.path.join(C.REPO, p), recursive=True))
    return [f for f in fs if os.path.getsize(f) < 60000]


def corpus_texts():
    out = []
    d = os.path.join(C.VERIF, "corpus", "C07")
    for fn in sorted(os.listdir(d)) if os.path.isdir(d) else []:
        b = open(os.path.join(d, fn), "rb").read()
        if fn.endswith(".hex"):
            b = bytes.fromhex(b.decode().strip())
        else:
            b = b"\n".join(l for l in b.split(b"\n") if not l.startswith(b"#!c07"))
        out.append(("corpus:" + fn, b))
    # the replays of the listed findings (open or fixed) are corpus entries too
    listed = listed_finding_ids()
    for p in sorted(glob.glob(os.path.join(C.VERIF, "findings", "C07-K07*.txt"))):
        if os.path.basename(p)[4:-4] not in listed:
            continue
        t = finding_replay_text(open(p, encoding="utf-8", errors="replace").read())
        if t and not t.startswith(";;; sweep job") and HSEP not in t:
            if t.startswith(MODMARK):
                out.append(("mod:finding:" + os.path.basename(p), t.split("\n", 1)[1].encode()))
            else:
                out.append(("finding:" + os.path.basename(p), t.encode()))
    return out


def listed_finding_ids():
    """ids of the C07 findings that KNOWN_FINDINGS.txt mentions (open or fixed): their replay files are regression inputs;
    a findings/C07-K07*.txt file that is not mentioned there yet is a proposal and is not run"""
    ids = set()
    try:
        for line in open(os.path.join(C.VERIF, "KNOWN_FINDINGS.txt"), encoding="utf-8", errors="replace"):
            if "property=C07" in line:
                ids.update(re.findall(r"\b(K07[a-z]+)\b", line))
    except OSError:
        pass
    return ids


def finding_replay_text(content):
    """a findings file: header lines starting with `#!c07 ` (class, remarks), then the replay text"""
    return "\n".join(l for l in content.split("\n") if not l.startswith("#!c07")).strip("\n")


FIRST_LINES = ["#!/usr/bin/env steel", "#!/usr/bin/env st\u00e9el", "#!\u03bb", "#!/opt/\u00fcn\u00efcode/bin/steel --flag \u2713",
               "#!", "#! \U0001d6d1 \u4e2d\u6587", "#!/usr/bin/env steel\r", ";; c\u00f6mment \u2014 \u00e9", "\ufeff", "#lang steel",
               "#!/usr/bin/env steel -- \u00e9\u00e9\u00e9\u00e9\u00e9\u00e9\u00e9\u00e9\u00e9\u00e9\u00e9\u00e9"]
NONASCII_SUFFIX = ["\u00e9", "\u03bb", "\u0436", "\U0001d6d1", "\u00df\u00fc", "\u4e2d"]


def internationalize(r, prog):
    """a well-formed program with non-ASCII identifiers, strings and comments, under a special first line
    (`#!` interpreter lines, ASCII or not; a comment; a byte order mark; `#lang`)"""
    names = sorted(set(re.findall(r"(?<![\w\-!?*<>=/+.#%])([a-z]+\d+)(?![\w\-!?*<>=/+.])", prog)))
    r.shuffle(names)
    for nm in names[: max(1, len(names) // 2)]:
        new = nm + r.choice(NONASCII_SUFFIX)
        prog = re.sub(r"(?<![\w\-!?*<>=/+.#%%])%s(?![\w\-!?*<>=/+.])" % re.escape(nm), new, prog)
    prog = re.sub(r'"([^"\\\n]{0,20})"', lambda m: '"%s%s"' % (m.group(1), r.choice(NONASCII_SUFFIX)) if r.random() < 0.5 else m.group(0), prog)
    lines = prog.split("\n")
    for _ in range(r.randrange(0, 3)):
        lines.insert(r.randrange(len(lines) + 1), ";; " + r.choice(NONASCII_SUFFIX) * r.randrange(1, 5))
    tail = r.choice(["", "", "\n(define \u03c0 3)\n(* 2 \u03c0)", "\n'sym\u00e9", "\n\"\u00e9nd\""])
    return r.choice(FIRST_LINES) + "\n" + "\n".join(lines) + tail


def gen_texts(ctx, stats):
    from gen.progs import gen_program
    r = random.Random(ctx.seed * 1000003 + 7)
    quick = ctx.quick()
    items = []
    dist = {}

    def add(kind, key, b):
        items.append(("%s#%d" % (key, len(items)), b))
        dist[kind] = dist.get(kind, 0) + 1

    for k, b in corpus_texts():
        add("corpus", k, b)
    for k, b in deep_texts(r, quick):
        add("deep", k, b)
    n_rand = 300 if quick else 10000
    for _ in range(n_rand):
        add("unicode", "unicode", rnd_unicode(r, r.choice([1, 3, 8, 20, 60, 200])).encode("utf-8"))
    for _ in range(n_rand // 2):
        add("bytes", "bytes", bytes(r.randrange(256) for _ in range(r.choice([1, 2, 4, 10, 40, 200]))))
    try:
        from checks import c12 as K12
        for _ in range(n_rand):
            add("tokens", "tokens", (K12.gen_token_text(r) if r.random() < 0.6 else K12.gen_balanced(r)).encode("utf-8", "replace"))
    except Exception:           # the C12 generators are a bonus stream
        pass
    n_prog = 400 if quick else 15000
    for _ in range(n_prog):
        p = gen_program(r, r.choice([2, 3, 3]))[0]
        if r.random() < 0.85:
            p = mutate_tokens(r, p)
        add("grammar", "grammar", p.encode("utf-8", "replace"))
    for _ in range(200 if quick else 6000):
        p = internationalize(r, gen_program(r, r.choice([1, 2, 3]))[0])
        if r.random() < 0.3:
            first, _, rest = p.partition("\n")
            p = first + "\n" + mutate_tokens(r, rest)
        add("first-line", "firstline", p.encode("utf-8", "replace"))
    files = suite_files()
    stats["suite_files"] = len(files)
    n_suite = 500 if quick else 20000
    srcs = [(f, open(f, "rb").read()) for f in files]
    for i in range(n_suite):
        f, b = srcs[r.randrange(len(srcs))] if i >= len(srcs) or quick else srcs[i]
        k = r.random()
        if k < 0.6:
            m = mutate_bytes(r, b)
        elif k < 0.9:
            m = mutate_tokens(r, b.decode("utf-8", "replace")).encode("utf-8", "replace")
        else:
            m = b
        add("suite", "suite:" + os.path.relpath(f, C.REPO), m)
    # module mode: the same kinds of text evaluated as `(require "<file>")` (what `steel file.scm` does)
    base = list(items)
    picks = [kb for kb in base if kb[0].startswith(("corpus:", "finding:"))]
    items[:] = [kb for kb in items]
    picks += [kb for kb in base if kb[0].startswith("deep:") and (":100#" in kb[0] or ":1000#" in kb[0])]
    rest = [kb for kb in base if kb[0].startswith(("grammar", "suite:", "tokens", "firstline"))]
    r.shuffle(rest)
    picks += rest[: (300 if quick else 12000)]
    for k, b in picks:
        items.append(("mod:%s" % k, b))
        dist["module-mode"] = dist.get("module-mode", 0) + 1
    stats["text_distribution"] = dist
    return items


# ------------------------------------------------------------------------------------------------------------------
# known findings

def slug(key):
    return re.sub(r"[^A-Za-z0-9_.@-]+", "_", key)[:120]


def load_known(ctx):
    """class -> (id, description) of the open findings of this property in KNOWN_FINDINGS.txt, and of the open findings
    of other properties whose entry says that they are C07 violations too (`also C07` / `a C07 violation`): a panic that
    another property's check found and listed is attributed to that entry, not reported as new"""
    known = {}
    for k in ctx.load_known():
        if "class" in k:
            known[k["class"]] = (k.get("id", "?"), k["text"].split(" ", 5)[-1], k.get("replay", "findings/C07-%s.txt" % k.get("id", "?")))
    try:
        for line in open(os.path.join(C.VERIF, "KNOWN_FINDINGS.txt"), encoding="utf-8", errors="replace"):
            line = line.strip()
            if not line.startswith("finding:") or "property=C07" in line:
                continue
            if not re.search(r"\balso(?: a)? C07\b|\bC07 violation\b|\(also[^)]*\bC07\b", line, re.I):
                continue
            kv = dict(re.findall(r"(\w+)=(\S+)", line))
            if "class" in kv and kv["class"] not in known:
                known[kv["class"]] = (kv.get("id", "?"), "[%s] " % kv.get("property", "?") + line.split(" ", 5)[-1], kv.get("replay", "?"))
    except OSError:
        pass
    return known


def unclassified_site_builtins(ctx, t_info, stats):
    """the directed search for a NEW potential panic site: the built-ins whose Rust functions contain a site that the
    reviewed table does not know (driver `tables`: `unclassified <id> <kind> <fn> <file:line> ..`) are swept with the
    thorough sweeps (exhaustive arity 3, both applying loops, every fresh collection of the indexed / aliased sweeps)"""
    rc, out, err = C.run_bin([C.driver_path("c07driver"), "tables"], "", timeout=120)
    names = set()
    fns = []
    fn_names = (t_info or {}).get("fn_names", {})
    for l in out.splitlines():
        f = l.split(" ")
        if f[0] == "unclassified" and len(f) >= 4:
            fns.append(f[3])
            names.update(fn_names.get(f[3], []))
    stats["unclassified_site_functions"] = sorted(set(fns))
    stats["directed_search_builtins"] = sorted(names)
    return names


def check_site_table(ctx, classes, stats):
    """tie between the reviewed table of panic sites and what was observed: a panic observed at an extracted site must
    be judged `reachable` there; every finding class named by a reachable site must exist"""
    rc, out, err = C.run_bin([C.driver_path("c07driver"), "tables"], "", timeout=120)
    sites = {}
    named = set()
    rows = []
    for l in out.splitlines():
        f = l.split(" ")
        if f[0] == "site" and len(f) >= 6:
            sites[(f[2], int(f[3]))] = f[1]
        elif f[0] == "reachable" and len(f) >= 3:
            named.add(f[1])
        elif f[0] in ("arms2", "arms1", "unclassified", "stale", "sites", "unwind"):
            rows.append(l)
    stats["tables"] = rows[:40]
    observed = set()
    for c in classes.by.values():
        for m in re.finditer(r"crates/steel-core/src/((?:primitives/\w+|steel_vm/primitives)\.rs):(\d+)", c["detail"] + " " + " ".join(c.get("details", []))):
            observed.add((m.group(1), int(m.group(2))))
    wrong = []
    outside = []
    for loc in sorted(observed):
        v = sites.get(loc)
        if v is None:
            outside.append("%s:%d" % loc)
        elif v != "reachable":
            wrong.append("%s:%d is judged `%s` in LemmasSites.lean but a panic was observed there" % (loc[0], loc[1], v))
    stats["panics_observed_at_reviewed_sites"] = len(observed) - len(outside)
    stats["panics_observed_outside_extracted_kinds"] = outside
    known_classes = {name for name, _ in FINDING_CLASSES}
    missing = sorted(n for n in named if n not in known_classes)
    if wrong or missing:
        ctx.violation("C07-site-table.txt", "the reviewed table of panic sites disagrees with the run:\n" + "\n".join(
            wrong + ["finding class `%s` named by a reachable site is not a class of checks/c07.py" % n for n in missing]) + "\n", no_input=True)


def decide(ctx, classes, known, stats):
    adopt = os.environ.get("C07_ADOPT")
    new = 0
    for key in sorted(classes.by):
        c = classes.by[key]
        if key in known:
            kid, what, rep = known[key]
            ctx.known_finding("id=%s class=%s replay=%s %s (seen %d times)" % (kid, key, rep, what[:200], c["count"]))
            continue
        new += 1
        body = "#!c07 class: %s\n#!c07 detail: %s\n#!c07 sources: %s\n%s\n" % (key, c["detail"].replace("\n", " ")[:600], c["sources"], c["replay"])
        if adopt:
            with open(os.path.join(SCRATCH, "adopt-%s.txt" % slug(key)), "w") as f:
                f.write(body)
                for e in c["examples"]:
                    f.write("\n#!c07 other example: " + e.replace("\n", " ")[:400])
        ctx.violation("C07-%s.txt" % slug(key), body)
    stats["classes"] = {k: {"count": v["count"], "sources": v["sources"], "detail": v["detail"][:300]} for k, v in classes.by.items()}
    stats["classes_new"] = new


# ------------------------------------------------------------------------------------------------------------------

def translate(ctx):
    info = {}
    for script in ("c07_arms.py", "c07_unwind.py"):
        rc, out = C.sh([sys.executable, os.path.join(C.VERIF, "translate", script), C.REPO], timeout=300)
        try:
            if rc != 0:
                return False, script + ": " + out[-1500:]
            info.update(json.loads(out.strip().splitlines()[-1]))
        except (ValueError, IndexError):
            return False, script + ": " + out[-1500:]
    return True, info


def run(ctx):
    stats = {}
    for p in glob.glob(os.path.join(C.VERIF, "findings", "C07-*.txt")):
        if not os.path.basename(p).startswith("C07-K07"):
            os.remove(p)                                  # violation files of earlier runs of this check
    shutil.rmtree(os.path.join(SCRATCH, "sandbox"), ignore_errors=True)
    shutil.rmtree(MODS, ignore_errors=True)
    os.makedirs(MODS, exist_ok=True)
    os.makedirs(os.path.join(SCRATCH, "sandbox"), exist_ok=True)
    t_ok, t_info = translate(ctx)
    if not t_ok:
        ctx.violation("C07-translator.txt", "translate/c07_arms.py failed (the tie between the tables and /repo is broken):\n%s\n" % t_info,
                      no_input=True)
    pr = C.prove(ctx, "C07", ["c07driver"])
    ok, log = C.build_harness(ctx, ["c07"])
    if not ok:
        ctx.violation("C07-build.txt", "harness does not build:\n" + log, no_input=True)
        ctx.coverage = {"obligations": pr["obligations"], "discharged": pr["discharged"],
                        "checker_cmd": "lake build SteelVerif.C07.Props", "trusted_base": C.TRUSTED_BASE}
        return ctx.finish("proof")
    classes = Classes()
    known = load_known(ctx)

    # (iii) one engine per request: runs beside the other phases
    eng_threads, eng_res = engines_probe(ctx)

    # (i) texts
    t0 = time.time()
    items = gen_texts(ctx, stats)
    res = run_texts(ctx, items, tag="t", phases=False)
    stats["texts"] = len(items)
    outcome = {"ok": 0, "err": 0, "panic": 0, "death": 0, "hang": 0, "interrupted": 0, "probes_run": 0, "missing": 0}
    suspects = []
    for key, b in items:
        r = res.get(key)
        if r is None:
            outcome["missing"] += 1
            continue
        rs = r.get("res", "")
        outcome["ok" if rs.startswith("ok") else "err" if rs.startswith("err") else "panic" if rs.startswith("panic") else
                "hang" if r.get("hang") else "death"] += 1
        if r.get("interrupted"):
            outcome["interrupted"] += 1
        if "probe" in r:
            outcome["probes_run"] += 1
        if failure_classes(r):
            suspects.append((key, b, r))
    stats["text_outcomes"] = outcome
    stats["texts_wall_s"] = round(time.time() - t0, 1)
    # every failure is replayed alone on a fresh engine; what reproduces there is reported with that single text
    alone = run_texts(ctx, [(k, b) for k, b, _ in suspects], fresh_each=True, tag="a", hard_ms=12000, batch=3) if suspects else {}
    excused = 0
    by_key = dict(items)
    investigated = {}
    pending = []          # failures that need their history: (key, text bytes, first-pass result)
    for key, b, r in suspects:
        ra = alone.get(key)
        text = b.decode("utf-8", "replace")
        fa = failure_classes(ra) if ra else []
        src = ("module:" if key.startswith("mod:") else "") + key.replace("mod:", "", 1).split("#")[0].split(":")[0]
        if key.startswith("mod:"):
            text = MODMARK + ": written to a file F and run as (require \"F\")\n" + text
        if not fa:
            pending.append((key, b, r))
            continue
        for ck, det in fa:
            if ck.startswith("probe:") and redefines_probe_name(text):
                excused += 1
                continue
            classes.add(ck, text, det, src)
    # failures that only show in a history of evaluations on one engine: find the earlier text that matters
    seqs, owners = [], []
    for key, b, r in pending:
        cls = tuple(sorted(ck for ck, _ in failure_classes(r) if not ck.startswith("hang:")))
        if not cls:
            stats["slow_not_hung_texts"] = stats.get("slow_not_hung_texts", 0) + 1
            continue            # slower than the first pass's limit under load, answered alone
        if investigated.get(cls, 0) >= (2 if ctx.quick() else 4):
            continue
        investigated[cls] = investigated.get(cls, 0) + 1
        ep = [k for k in r.get("epoch", []) if k in by_key][-40:]
        ism = lambda k: k.startswith("mod:")
        for k in ep:
            seqs.append([(ism(k), by_key[k]), (ism(key), b)])
            owners.append((key, [k]))
        seqs.append([(ism(k), by_key[k]) for k in ep] + [(ism(key), b)])
        owners.append((key, ep))
    got = run_sequences(ctx, seqs) if seqs else []
    found = {}
    for (key, pre), rr in zip(owners, got):
        fc = failure_classes(rr) if rr else []
        if fc and (key not in found or len(pre) < len(found[key][0])):
            found[key] = (pre, fc)
    stats["history_failures_investigated"] = len({k for k, _ in owners})
    stats["history_failures_reproduced"] = len(found)
    for key, b, r in pending:
        text = b.decode("utf-8", "replace")
        src = key.split("#")[0].split(":")[0]
        if key in found:
            pre, fc = found[key]
            script = HSEP.join([by_key[k].decode("utf-8", "replace") for k in pre] + [text])
            for ck, det in fc:
                if ck.startswith("probe:") and (redefines_probe_name(text) or any(redefines_probe_name(by_key[k].decode("utf-8", "replace")) for k in pre)):
                    excused += 1
                    continue
                classes.add(ck, script, det + "  [history of %d evaluations on one engine]" % (len(pre) + 1), src)
        elif any(k == key for k, _ in owners):
            for ck, det in failure_classes(r):
                if ck.startswith("hang:"):
                    continue
                if ck.startswith("probe:") and (redefines_probe_name(text) or any(redefines_probe_name(by_key[k].decode("utf-8", "replace")) for k in r.get("epoch", []) if k in by_key)):
                    excused += 1
                    continue
                classes.add("not-reproduced:" + ck, text, det + "  [seen once in a history of evaluations; neither the text alone nor its history reproduces it]", src)
    stats["probe_mismatch_excused_redefinition"] = excused

    run_histories(ctx, classes, stats)
    run_model_correspondence(ctx, classes, stats)

    # (iv) errors inside callbacks of native higher-order built-ins
    run_callbacks(ctx, classes, stats)

    # (ii) built-ins
    t1 = time.time()
    focus = unclassified_site_builtins(ctx, t_info if t_ok else {}, stats)
    run_builtins(ctx, classes, stats, focus=focus)
    stats["builtins_wall_s"] = round(time.time() - t1, 1)

    engines_verdict(ctx, classes, stats, eng_threads, eng_res)
    check_site_table(ctx, classes, stats)
    decide(ctx, classes, known, stats)
    if not pr["ok"]:
        ctx.violation("C07-proof-broken.txt", "proof obligations of SteelVerif.C07.Props that no longer check:\n" +
                      "\n".join("%s: %s" % f for f in pr["failed"]) + "\n", no_input=True)
    ctx.coverage = {
        "obligations": pr["obligations"], "discharged": pr["discharged"],
        "checker_cmd": "cd lean && lake build SteelVerif.C07.Props && lake env lean SteelVerif/C07/Audit.lean",
        "trusted_base": C.TRUSTED_BASE + ["translate/c07_arms.py (regex / bracket matching extraction)"],
        "translator": t_info if t_ok else "failed",
        "evaluations": stats.get("texts", 0) + stats.get("tuples", 0),
        "distinct_nontrivial": len(set(b for _, b in items)) + stats.get("tuples", 0),
        "rule": "texts: distinct byte strings (corpus, deep nesting, random Unicode/bytes, token streams, mutated generated programs, mutated suite scripts); built-ins: one per (procedure, argument tuple) over the pool",
        "samples": [{"class": k, "replay": v["replay"][:200]} for k, v in list(classes.by.items())[:3]],
        "axioms": pr.get("axioms", {}),
        "proof_failures": ["%s: %s" % f for f in pr["failed"]],
    }
    ctx.coverage.update(stats)
    return ctx.finish("proof")


def replay(ctx, path):
    C.build_harness(ctx, ["c07"])
    os.makedirs(os.path.join(SCRATCH, "sandbox"), exist_ok=True)
    content = open(path, encoding="utf-8", errors="replace").read()
    text = finding_replay_text(content)
    m = re.match(r";;; sweep job \(c07 builtins\): (F .*)", text)
    if m:
        out = os.path.join(SCRATCH, "replay.out")
        rc, tail = spawn("builtins", [m.group(1)], out, os.path.join(SCRATCH, "sandbox", "replay"), timeout=300)
        print("\n".join(read_records(out)))
        print("exit status", rc, death_signature(rc, tail) if rc else "", tail[-400:])
        return 0
    if HSEP in text:
        out = os.path.join(SCRATCH, "replay.out")
        steps = text.split(HSEP)
        rc, tail = spawn("texts", ["T %d %s" % (i, t.encode().hex()) for i, t in enumerate(steps)], out,
                         os.path.join(SCRATCH, "sandbox", "replay"), env={"C07_SOFT_MS": "3000", "C07_HARD_MS": "9000"}, timeout=300)
        print("\n".join(read_records(out)))
        print("exit status", rc, death_signature(rc, tail) if rc else "")
        return 0
    if text.startswith(";;; directed probe `c07 engines"):
        ths, res = engines_probe(ctx)
        for t in ths:
            t.join()
        for label, d in res.items():
            print(label, d)
        return 0
    if text.startswith(MODMARK):
        res = run_texts(ctx, [("mod:replay", text.split("\n", 1)[1].encode())], fresh_each=True, tag="r")
        r = res.get("mod:replay")
        print("result:", r)
        for ck, det in failure_classes(r):
            print("class:", finding_class(ck), "|", det)
        return 0
    res = run_texts(ctx, [("replay", text.encode())], fresh_each=True, tag="r")
    r = res.get("replay")
    print("result:", r)
    for ck, det in failure_classes(r):
        print("class:", ck, "|", det)
    return 0
