"""C05 — shared-value reference counting is sound under every thread interleaving.

prove      : lake build SteelVerif.C05.Props + axiom audit (invariant of the step-level transition
             system, for any number of threads and every interleaving of the atomic steps).
correspond : the real `steel_rc::BiasedRc`, driven through its `cfg(steel_verif)` yield points by
             harness `c05`, against the model driver `c05driver`, schedule line by schedule line.
oracle     : the specification S = no access after free, at most one free / destructor run, free only
             when no reference is held, exclusive access only to a sole holder.  It is evaluated by
             the model's ghost state when the traces agree, and directly on the real trace otherwise.
"""
import os
import re

from . import common as C

PID = "C05"
META = {
    "ready": True,
    "category": "proof",
    "technique": "Lean 4 invariant proof over a step-level transition system (all interleavings, any number of threads) + deterministic-schedule correspondence with the real BiasedRc",
    "level_text": "Theorem rc_safe (SteelVerif/C05/Props.lean): for every schedule - every history of create/clone/drop/move/unique/unwrap/count/register/merge/exit operations by any number of threads and every interleaving of their atomic shared accesses - the model of steel-rc's biased reference counting never accesses the object after the free, frees it at most once and only when no reference is held, and grants exclusive access only to a sole holder. The model is hand-written; it is tied to crates/steel-rc/src/lib.rs on every run by executing the real BiasedRc under cfg(steel_verif) yield points on the same schedules (corpus, all operation-level histories of a given depth, random step-level schedules) and comparing the observable protocol state after every line.",
    "level_note": "Trusted: Lean kernel (axioms propext, Classical.choice, Quot.sound only), the harness/driver/comparison, sequentially consistent atomics (the code uses Relaxed/AcqRel), atomic reads of the non-atomic owner field, one object per run, no thread-id reuse. Liveness (destroyed eventually) is checked on drained schedules only, not proved.",
}
TOUCHING = ("clone", "drop", "unique", "unwrap", "count")


def real_trace(sched_lines):
    rc, out, err = C.run_bin([C.bin_path("c05")], "\n".join(sched_lines) + "\n", timeout=30)
    return rc, out.splitlines(), err


def norm(line):
    return "bad" if line.startswith("bad") else line


def spec_on_real(sched, real):
    """S evaluated on the real trace alone (used when model and code disagree).  Returns a list
    of violated clauses (empty = none observed)."""
    bad = []
    freed_at = None
    for i, l in enumerate(real):
        m = re.search(r"drops=(\d+) freed=(\d+)", l)
        if not m:
            continue
        drops, freed = int(m.group(1)), int(m.group(2))
        if freed > 1 or drops > 1:
            bad.append("freed=%d drops=%d at line %d (destroyed more than once)" % (freed, drops, i + 1))
            break
        if freed >= 1 and freed_at is None:
            freed_at = i
            held = re.search(r"held=([\d,\-]+)", l)
            if held and any(x not in ("0", "-") for x in held.group(1).split(",")):
                # `held` lags for the thread whose drop is in flight; only completed ops count
                if l.startswith("done"):
                    bad.append("freed while references are held (line %d: %s)" % (i + 1, l))
        elif freed_at is not None and i > freed_at:
            toks = sched[i].split() if i < len(sched) else []
            if len(toks) >= 2 and (toks[1] in TOUCHING or toks[1] == "step" or
                                   (toks[1] == "run" and toks[2] in TOUCHING)):
                if not l.startswith("bad"):
                    bad.append("object used after it was freed (line %d: %s -> %s)" % (i + 1, sched[i], l))
                    break
    return bad


def compare(ctx, schedules, label, stats):
    """Run every schedule on the real code and on the model; classify."""
    drv = C.driver_path("c05driver")
    # model: all schedules in one process, separated by `reset`
    text = "\n".join("\n".join(s) + "\nreset" for s in schedules) + "\n"
    rc, mout, merr = C.run_bin([drv], text, timeout=600)
    if rc != 0:
        ctx.violation("C05-driver-failed.txt", "model driver exit %d\n%s" % (rc, merr[-2000:]), no_input=True)
        return
    model_traces = []
    cur = []
    for l in mout.splitlines():
        if l.startswith("spec "):
            model_traces.append((cur, l))
            cur = []
        else:
            cur.append(l)
    model_traces = model_traces[: len(schedules)]
    reals = C.pool_map(real_trace, schedules)
    for idx, (sched, (mtrace, spec), (rrc, rtrace, rerr)) in enumerate(zip(schedules, model_traces, reals)):
        stats["evaluations"] += 1
        stats["lines"] += len(sched)
        key = tuple(sched)
        nontrivial = any("move" in l for l in sched) and any(
            ("drop" in l or "unwrap" in l) for l in sched)
        if nontrivial and key not in stats["seen"]:
            stats["seen"].add(key)
        for l in rtrace:
            m = re.match(r"yield (\S+)", l)
            if m:
                stats["sites"][m.group(1)] = stats["sites"].get(m.group(1), 0) + 1
        if len(stats["samples"]) < 3 and nontrivial and len(sched) > 8:
            stats["samples"].append({"schedule": sched, "real_last": rtrace[-1:] , "model_spec": spec})
        agree = rrc == 0 and [norm(x) for x in rtrace] == [norm(x) for x in mtrace]
        spec_ok = ("uaf=false" in spec and "badUnique=false" in spec and "earlyFree=false" in spec
                   and "underflow=false" in spec and re.search(r"frees=[01] ", spec)
                   and re.search(r"frees=(\d+) drops=\1 ", spec))
        drained = any(l.endswith("run exit") for l in sched[-3:])
        leak = False
        if drained and agree:
            # liveness half of "destroyed exactly once": everything dropped, every thread merged and
            # exited.  Only owed when the owner's queue could be reached (see Props: destroyed_eventually).
            m = re.search(r"total=(\d+) alive=(\w+)", spec)
            if m and m.group(1) == "0" and m.group(2) == "true" and "frees=0" in spec:
                leak = True
                stats["leaks"] += 1
        if agree and spec_ok:
            stats["agree"] += 1
            continue
        name = "C05-%s-%d.txt" % (label, idx)
        body = "# schedule (feed to harness/c05 and to c05driver)\n" + "\n".join(sched) + "\n"
        if agree and not spec_ok:
            # model and code agree and both violate S: the code violates the property
            ctx.violation(name, body + "# specification verdict: " + spec + "\n")
            continue
        stats["disagree"] += 1
        bad = spec_on_real(sched, rtrace)
        first = next((i for i, (a, b) in enumerate(zip(rtrace, mtrace)) if norm(a) != norm(b)),
                     min(len(rtrace), len(mtrace)))
        body += "# first difference at line %d\n# real : %s\n# model: %s\n# harness rc=%d %s\n" % (
            first + 1, rtrace[first] if first < len(rtrace) else "<missing>",
            mtrace[first] if first < len(mtrace) else "<missing>", rrc, rerr[-300:])
        if rrc != 0:
            bad.append("harness exit code %d (crash / hang of the real code)" % rrc)
        if bad:
            ctx.violation(name, body + "# property violated on the real trace: " + "; ".join(bad) + "\n")
        else:
            stats["pending_disagreements"].append((name, body))


def gen(mode, *args):
    rc, out, err = C.run_bin([C.driver_path("c05driver"), mode] + [str(a) for a in args], "", timeout=600)
    return [s for s in C.split_on(out.splitlines(), "reset") if s]


def run(ctx):
    stats = {"evaluations": 0, "lines": 0, "agree": 0, "disagree": 0, "leaks": 0, "seen": set(),
             "sites": {}, "samples": [], "pending_disagreements": []}
    pr = C.prove(ctx, "C05", ["c05driver"])
    ok, log = C.build_harness(ctx, ["c05"])
    if not ok:
        ctx.violation("C05-harness-build.txt", "the harness no longer builds against /repo:\n" + log,
                      no_input=True)
        ctx.coverage = {"obligations": pr["obligations"], "discharged": pr["discharged"],
                        "checker_cmd": "lake build SteelVerif.C05.Props", "trusted_base": C.TRUSTED_BASE}
        return ctx.finish()
    if not os.path.exists(C.driver_path("c05driver")):
        ctx.violation("C05-driver-build.txt", pr["log"][-3000:], no_input=True)
        return ctx.finish()

    # 1. corpus (minimised past failures) first
    corpus = []
    cdir = os.path.join(C.VERIF, "corpus", "C05")
    for fn in sorted(os.listdir(cdir)):
        lines = [l.strip() for l in open(os.path.join(cdir, fn)) if l.strip() and not l.startswith("#")]
        corpus.append(lines)
    compare(ctx, corpus, "corpus", stats)
    # 2. exhaustive at operation granularity
    depth = 5 if ctx.quick() else 7
    nthreads = 2
    ops = gen("enum", nthreads, depth)
    if not ctx.quick():
        ops += gen("enum", 3, 5)
    ctx.log("enumerated %d operation-level histories (depth %d)" % (len(ops), depth))
    compare(ctx, ops, "enum", stats)
    # 3. random step-level schedules
    n = 3000 if ctx.quick() else 200000
    chunk = 20000
    done = 0
    while done < n:
        k = min(chunk, n - done)
        rnd = gen("gen", ctx.seed * 1000003 + done, k, 3, 60)
        compare(ctx, rnd, "rand%d" % done, stats)
        done += k
        if ctx.violations:
            break
    ctx.log("schedules=%d agree=%d disagree=%d" % (stats["evaluations"], stats["agree"], stats["disagree"]))

    # decide
    if not pr["ok"]:
        body = "proof obligations of SteelVerif.C05.Props that no longer check:\n" + "\n".join(
            "%s: %s" % f for f in pr["failed"]) + "\n"
        if not ctx.violations:
            ctx.violation("C05-proof-broken.txt", body, no_input=True)
    if stats["pending_disagreements"] and not ctx.violations:
        name, body = stats["pending_disagreements"][0]
        ctx.violation(name, body + "# correspondence SteelVerif.C05.Model <-> crates/steel-rc/src/lib.rs "
                      "no longer holds (%d schedules disagree); no property violation exhibited\n"
                      % len(stats["pending_disagreements"]), no_input=True)

    ctx.coverage = {
        "obligations": pr["obligations"],
        "discharged": pr["discharged"],
        "checker_cmd": "cd lean && lake build SteelVerif.C05.Props && lake env lean SteelVerif/C05/Audit.lean",
        "trusted_base": C.TRUSTED_BASE + [
            "sequentially consistent atomics (the code uses Relaxed/AcqRel; weak-memory effects are not modelled)",
            "the non-atomic Cell<Option<ThreadId>> owner field is read atomically in the model",
            "one object per run; thread ids are never reused",
        ],
        "evaluations": stats["evaluations"],
        "distinct_nontrivial": len(stats["seen"]),
        "rule": "schedule = corpus + every operation-level history of the given depth (exhaustive) + "
                "random step-level schedules from the model's enabledness relation (LCG seeded by "
                "VERIF_SEED); non-trivial = moves a reference between threads and drops/unwraps one; "
                "distinct = different line sequences",
        "samples": stats["samples"],
        "exhaustive_part": "all %d operation-level histories of depth %d over %d threads" % (len(ops), depth, nthreads),
        "schedule_lines": stats["lines"],
        "traces_agreeing": stats["agree"],
        "traces_disagreeing": stats["disagree"],
        "yield_sites_hit": stats["sites"],
        "drained_schedules_not_freed": stats["leaks"],
        "axioms": pr.get("axioms", {}),
        "proof_failures": ["%s: %s" % f for f in pr["failed"]],
    }
    ctx.assumptions = ["SC atomics", "single object", "no thread-id reuse"]
    return ctx.finish("proof")


def replay(ctx, path):
    lines = [l.strip() for l in open(path) if l.strip() and not l.startswith("#")]
    C.build_harness(ctx, ["c05"])
    rc, real, err = real_trace(lines)
    rcm, mout, _ = C.run_bin([C.driver_path("c05driver")], "\n".join(lines) + "\n")
    print("--- real (rc=%d)" % rc)
    print("\n".join(real))
    print("--- model")
    print(mout)
    return 0
