"""C05 — shared-value reference counting is sound under every thread interleaving.

prove      : lake build SteelVerif.C05.Props + axiom audit (invariant of the step-level transition
             system, for any number of threads and every interleaving of the atomic steps).
correspond : the real `steel_rc::BiasedRc`, driven through its `cfg(steel_verif)` yield points by
             harness `c05`, against the model driver `c05driver`, schedule line by schedule line.
oracle     : the specification S = no access after free, at most one free / destructor run, free only
             when no reference is held, exclusive access only to a sole holder.  It is evaluated by
             the model's ghost state when the traces agree, and directly on the real trace otherwise.
"""
import os
import re

from . import common as C

PID = "C05"
META = {
    "ready": True,
    "category": "proof",
    "technique": "Lean 4 invariant proof over a step-level transition system (all interleavings, any number of threads; safety invariant Inv + liveness invariant Extra; rank-function argument for solo progress) + deterministic-schedule correspondence with the real BiasedRc, including the quiescent-leak observable and the solo step bound",
    "level_text": "Theorems of SteelVerif/C05/Props.lean about the hand-written step-level model of steel-rc's biased reference counting, for every schedule (every history of create/clone/drop/move/unique/unwrap/count/register/merge/exit operations by any number of threads and every interleaving of their atomic shared accesses). Safety, rc_safe: the object is never accessed after the free, is freed at most once and only when no reference is held, and exclusive access is granted only to a sole holder. Liveness half of 'destroyed exactly once', no_leak_at_quiescence / destroyed_exactly_once (invariant Inv2 = Inv + Extra, preserved by every step: step_inv2): in every reachable state in which every thread is between operations and no counted reference exists (none held, none in flight, none owned by a merge-queue entry) a created object has been freed and its destructor run exactly once (frees = 1, drops = 1). The documented caveat is the decided witness unregistered_owner_parks_forever: an entry parked in QUEUE.unregistered for an owner that never registered is a counted reference (total = 1), the object stays alive with every thread idle until run_explicit_merge runs on the owner thread. No self-livelock, op_completes_solo (invariant Inv3 = Inv2 + LockInv, step_lockInv): from every reachable state and every program counter a thread scheduled alone finishes its operation within 12 of its own steps (compare-exchange loops retry only after interference); guard_holder_is_merging / never_blocked_at_enqueue: the dashmap guard is held exactly by a thread inside run_explicit_merge, and no thread is ever parked at enqueue while it is held, so nothing waits for it; merge_drains: after run_explicit_merge / finish_thread_merge run alone the thread's registered queue (and for run_explicit_merge its unregistered entries) is empty. Tie to crates/steel-rc/src/lib.rs on every run: the real BiasedRc is executed under cfg(steel_verif) yield points on the same schedules (corpus incl. the caveat witness, all operation-level histories of a given depth, random step-level schedules with three drain modes) and the observable protocol state is compared after every line; at every quiescent end of a real run (every thread idle, no reference held, merge queues empty - evaluated on the real trace alone and on the model, which must coincide) the real destructor count and free count must both be 1; every `T run <op>` line runs the model with fuel 12, so a real operation that needs more solo steps than op_completes_solo allows is a trace difference.",
    "level_note": "Trusted: Lean kernel (axioms propext, Classical.choice, Quot.sound only), the harness/driver/comparison, sequentially consistent atomics (the code uses Relaxed/AcqRel), atomic reads of the non-atomic owner field, one object per run, no thread-id reuse. Liveness is proved as 'quiescent and unreferenced implies destroyed' plus solo progress; it is not a fairness theorem for arbitrary schedulers (a thread that is never scheduled keeps its in-flight reference: total > 0). never_blocked_at_enqueue is a fact about one object: with several objects the real enqueue can wait for the dashmap guard of a run_explicit_merge that works on another object (waiting for a lock, not modelled); the harness reports it as `blocked`, which the check counts (real_blocked_events) and treats as a trace difference. The solo bound 12 is not tight (example_solo_last_drop needs 6).",
}
TOUCHING = ("clone", "drop", "unique", "unwrap", "count")


def real_trace(sched_lines, timeout_ms=None):
    env = {"C05_TIMEOUT_MS": str(timeout_ms)} if timeout_ms else None
    rc, out, err = C.run_bin([C.bin_path("c05")], "\n".join(sched_lines) + "\n",
                             timeout=180 if timeout_ms else 30, env=env)
    return rc, out.splitlines(), err


def settle(stats, sched, res):
    """A `blocked` event is the harness's 2 s answer timeout: under machine load a thread that merely
    was not scheduled looks the same as one that waits for a lock.  Such a run (and one that crashed
    after it) is repeated alone with a 20 s limit; only what the repetition shows is judged."""
    rrc, rtrace, rerr = res
    if rrc == 0 and not any(l.startswith("blocked") for l in rtrace):
        return res
    stats["reruns"] += 1
    return real_trace(sched, timeout_ms=20000)


def norm(line):
    return "bad" if line.startswith("bad") else line


def spec_on_real(sched, real):
    """S evaluated on the real trace alone (used when model and code disagree).  Returns a list
    of violated clauses (empty = none observed)."""
    bad = []
    freed_at = None
    q = real_quiescent_end(sched, real)
    if q is not None and q != (1, 1):
        bad.append("quiescent end (every thread idle, no reference held, merge queues empty) with "
                   "drops=%d freed=%d: the object must have been destroyed exactly once" % q)
    for i, l in enumerate(real):
        m = re.search(r"drops=(\d+) freed=(\d+)", l)
        if not m:
            continue
        drops, freed = int(m.group(1)), int(m.group(2))
        if freed > 1 or drops > 1:
            bad.append("freed=%d drops=%d at line %d (destroyed more than once)" % (freed, drops, i + 1))
            break
        if freed >= 1 and freed_at is None:
            freed_at = i
            held = re.search(r"held=([\d,\-]+)", l)
            if held and any(x not in ("0", "-") for x in held.group(1).split(",")):
                # `held` lags for the thread whose drop is in flight; only completed ops count
                if l.startswith("done"):
                    bad.append("freed while references are held (line %d: %s)" % (i + 1, l))
        elif freed_at is not None and i > freed_at:
            toks = sched[i].split() if i < len(sched) else []
            if len(toks) >= 2 and (toks[1] in TOUCHING or toks[1] == "step" or
                                   (toks[1] == "run" and toks[2] in TOUCHING)):
                if not l.startswith("bad"):
                    bad.append("object used after it was freed (line %d: %s -> %s)" % (i + 1, sched[i], l))
                    break
    return bad


def real_quiescent_end(sched, real):
    """The quiescent-leak observable on the real trace alone.  Returns None when the run does not end
    quiescent (a thread is parked / blocked, a reference is held, a merge queue holds an entry, or no
    object was created), else (drops, freed) of the last line: S demands (1, 1)
    (Props.lean: no_leak_at_quiescence / destroyed_exactly_once)."""
    if not real or len(real) != len(sched):
        return None
    parked = {}
    for s, l in zip(sched, real):
        toks = s.split()
        if not toks or toks[0] == "spawn":
            continue
        ev = l.split(" ", 1)[0]
        if ev == "yield" or ev == "blocked":
            parked[toks[0]] = True
        elif ev == "done":
            parked[toks[0]] = False
    if any(parked.values()):
        return None
    last = real[-1]
    m = re.search(r"w=(\S+) .*drops=(\d+) freed=(\d+) q=(\S+) held=(\S+)", last)
    if not m or m.group(1) == "-" or m.group(4) != "0,0":
        return None
    if any(x not in ("0", "-") for x in m.group(5).split(",")):
        return None
    return int(m.group(2)), int(m.group(3))


def compare(ctx, schedules, label, stats):
    """Run every schedule on the real code and on the model; classify."""
    drv = C.driver_path("c05driver")
    # model: all schedules in one process, separated by `reset`
    text = "\n".join("\n".join(s) + "\nreset" for s in schedules) + "\n"
    rc, mout, merr = C.run_bin([drv], text, timeout=600)
    if rc != 0:
        ctx.violation("C05-driver-failed.txt", "model driver exit %d\n%s" % (rc, merr[-2000:]), no_input=True)
        return
    model_traces = []
    cur = []
    for l in mout.splitlines():
        if l.startswith("spec "):
            model_traces.append((cur, l))
            cur = []
        else:
            cur.append(l)
    model_traces = model_traces[: len(schedules)]
    reals = C.pool_map(real_trace, schedules)
    reals = [settle(stats, s, r) for s, r in zip(schedules, reals)]
    for idx, (sched, (mtrace, spec), (rrc, rtrace, rerr)) in enumerate(zip(schedules, model_traces, reals)):
        stats["evaluations"] += 1
        stats["lines"] += len(sched)
        key = tuple(sched)
        nontrivial = any("move" in l for l in sched) and any(
            ("drop" in l or "unwrap" in l) for l in sched)
        if nontrivial and key not in stats["seen"]:
            stats["seen"].add(key)
        for l in rtrace:
            if l.startswith("blocked"):
                stats["blocked"] += 1
            m = re.match(r"yield (\S+)", l)
            if m:
                stats["sites"][m.group(1)] = stats["sites"].get(m.group(1), 0) + 1
        if len(stats["samples"]) < 3 and nontrivial and len(sched) > 8:
            stats["samples"].append({"schedule": sched, "real_last": rtrace[-1:] , "model_spec": spec})
        agree = rrc == 0 and [norm(x) for x in rtrace] == [norm(x) for x in mtrace]
        spec_ok = ("uaf=false" in spec and "badUnique=false" in spec and "earlyFree=false" in spec
                   and "underflow=false" in spec and re.search(r"frees=[01] ", spec)
                   and re.search(r"frees=(\d+) drops=\1 ", spec))
        drained = any(l.endswith("run exit") for l in sched[-3:])
        stats["run_lines"] += sum(1 for l in sched if " run " in l)
        # liveness half of "destroyed exactly once" (Props: no_leak_at_quiescence): at a quiescent end -
        # every thread idle, no counted reference anywhere - the destructor has run exactly once.
        # Evaluated twice: on the model's final state and, independently, on the real trace.
        m = re.search(r"total=(\d+) alive=(\w+) created=(\w+) idle=(\w+) queued=(\d+)", spec)
        model_q = bool(m and m.group(1) == "0" and m.group(3) == "true" and m.group(4) == "true")
        real_q = real_quiescent_end(sched, rtrace) if rrc == 0 else None
        if model_q:
            stats["quiescent_model"] += 1
            if not re.search(r"frees=1 drops=1 ", spec) or m.group(2) != "false":
                spec_ok = False
                stats["leaks"] += 1
        if real_q is not None:
            stats["quiescent_real"] += 1
            if real_q != (1, 1):
                stats["leaks"] += 1
                ctx.violation("C05-%s-%d-leak.txt" % (label, idx),
                              "# schedule (feed to harness/c05 and to c05driver)\n" + "\n".join(sched) +
                              "\n# the real run ends quiescent (every thread idle, no reference held, merge "
                              "queues empty) with drops=%d freed=%d; the property demands exactly one "
                              "destruction\n# real last line: %s\n# model verdict : %s\n"
                              % (real_q[0], real_q[1], rtrace[-1], spec))
                continue
        if agree and model_q != (real_q is not None):
            # the two evaluations of "quiescent" must coincide when the traces agree
            stats["pending_disagreements"].append(
                ("C05-%s-%d.txt" % (label, idx),
                 "# schedule\n" + "\n".join(sched) + "\n# quiescence observable differs: model %s, real %s\n"
                 "# model verdict: %s\n# real last line: %s\n" % (model_q, real_q, spec, rtrace[-1:])))
        if drained and agree and m and m.group(4) == "true" and m.group(1) != "0" and m.group(2) == "true":
            # the documented caveat (Props: unregistered_owner_parks_forever) or references still held
            stats["drained_not_quiescent"] += 1
        if agree and spec_ok:
            stats["agree"] += 1
            continue
        name = "C05-%s-%d.txt" % (label, idx)
        body = "# schedule (feed to harness/c05 and to c05driver)\n" + "\n".join(sched) + "\n"
        if agree and not spec_ok:
            # model and code agree and both violate S: the code violates the property
            ctx.violation(name, body + "# specification verdict: " + spec + "\n")
            continue
        stats["disagree"] += 1
        bad = spec_on_real(sched, rtrace)
        first = next((i for i, (a, b) in enumerate(zip(rtrace, mtrace)) if norm(a) != norm(b)),
                     min(len(rtrace), len(mtrace)))
        body += "# first difference at line %d\n# real : %s\n# model: %s\n# harness rc=%d %s\n" % (
            first + 1, rtrace[first] if first < len(rtrace) else "<missing>",
            mtrace[first] if first < len(mtrace) else "<missing>", rrc, rerr[-300:])
        if rrc != 0:
            bad.append("harness exit code %d (crash / hang of the real code)" % rrc)
        if bad:
            ctx.violation(name, body + "# property violated on the real trace: " + "; ".join(bad) + "\n")
        else:
            stats["pending_disagreements"].append((name, body))


def gen(mode, *args):
    rc, out, err = C.run_bin([C.driver_path("c05driver"), mode] + [str(a) for a in args], "", timeout=600)
    return [s for s in C.split_on(out.splitlines(), "reset") if s]


def run(ctx):
    stats = {"evaluations": 0, "lines": 0, "agree": 0, "disagree": 0, "leaks": 0, "seen": set(),
             "quiescent_model": 0, "quiescent_real": 0, "drained_not_quiescent": 0, "run_lines": 0, "blocked": 0, "reruns": 0,
             "sites": {}, "samples": [], "pending_disagreements": []}
    pr = C.prove(ctx, "C05", ["c05driver"])
    ok, log = C.build_harness(ctx, ["c05"])
    if not ok:
        ctx.violation("C05-harness-build.txt", "the harness no longer builds against /repo:\n" + log,
                      no_input=True)
        ctx.coverage = {"obligations": pr["obligations"], "discharged": pr["discharged"],
                        "checker_cmd": "lake build SteelVerif.C05.Props", "trusted_base": C.TRUSTED_BASE}
        return ctx.finish()
    if not os.path.exists(C.driver_path("c05driver")):
        ctx.violation("C05-driver-build.txt", pr["log"][-3000:], no_input=True)
        return ctx.finish()

    # 1. corpus (minimised past failures) first
    corpus = []
    cdir = os.path.join(C.VERIF, "corpus", "C05")
    for fn in sorted(os.listdir(cdir)):
        lines = [l.strip() for l in open(os.path.join(cdir, fn)) if l.strip() and not l.startswith("#")]
        corpus.append(lines)
    compare(ctx, corpus, "corpus", stats)
    # 2. exhaustive at operation granularity
    depth = 5 if ctx.quick() else 7
    nthreads = 2
    ops = gen("enum", nthreads, depth)
    if not ctx.quick():
        ops += gen("enum", 3, 5)
    ctx.log("enumerated %d operation-level histories (depth %d)" % (len(ops), depth))
    compare(ctx, ops, "enum", stats)
    # 3. random step-level schedules
    n = 3000 if ctx.quick() else 200000
    chunk = 20000
    done = 0
    while done < n:
        k = min(chunk, n - done)
        rnd = gen("gen", ctx.seed * 1000003 + done, k, 3, 60)
        compare(ctx, rnd, "rand%d" % done, stats)
        done += k
        if ctx.violations:
            break
    ctx.log("schedules=%d agree=%d disagree=%d" % (stats["evaluations"], stats["agree"], stats["disagree"]))

    # decide
    if not pr["ok"]:
        body = "proof obligations of SteelVerif.C05.Props that no longer check:\n" + "\n".join(
            "%s: %s" % f for f in pr["failed"]) + "\n"
        if not ctx.violations:
            ctx.violation("C05-proof-broken.txt", body, no_input=True)
    if stats["pending_disagreements"] and not ctx.violations:
        name, body = stats["pending_disagreements"][0]
        ctx.violation(name, body + "# correspondence SteelVerif.C05.Model <-> crates/steel-rc/src/lib.rs "
                      "no longer holds (%d schedules disagree); no property violation exhibited\n"
                      % len(stats["pending_disagreements"]), no_input=True)

    ctx.coverage = {
        "obligations": pr["obligations"],
        "discharged": pr["discharged"],
        "checker_cmd": "cd lean && lake build SteelVerif.C05.Props && lake env lean SteelVerif/C05/Audit.lean",
        "trusted_base": C.TRUSTED_BASE + [
            "sequentially consistent atomics (the code uses Relaxed/AcqRel; weak-memory effects are not modelled)",
            "the non-atomic Cell<Option<ThreadId>> owner field is read atomically in the model",
            "one object per run; thread ids are never reused",
        ],
        "evaluations": stats["evaluations"],
        "distinct_nontrivial": len(stats["seen"]),
        "rule": "schedule = corpus + every operation-level history of the given depth (exhaustive) + "
                "random step-level schedules from the model's enabledness relation (LCG seeded by "
                "VERIF_SEED); non-trivial = moves a reference between threads and drops/unwraps one; "
                "distinct = different line sequences",
        "samples": stats["samples"],
        "exhaustive_part": "all %d operation-level histories of depth %d over %d threads" % (len(ops), depth, nthreads),
        "schedule_lines": stats["lines"],
        "traces_agreeing": stats["agree"],
        "traces_disagreeing": stats["disagree"],
        "yield_sites_hit": stats["sites"],
        "quiescent_ends_checked": stats["quiescent_real"],
        "quiescent_ends_model": stats["quiescent_model"],
        "quiescent_ends_not_destroyed_exactly_once": stats["leaks"],
        "drained_ends_with_parked_queue_entry_or_held_reference": stats["drained_not_quiescent"],
        "real_blocked_events": stats["blocked"],
        "runs_repeated_with_long_answer_limit": stats["reruns"],
        "solo_bound": 12,
        "solo_bound_checked_run_lines": stats["run_lines"],
        "axioms": pr.get("axioms", {}),
        "proof_failures": ["%s: %s" % f for f in pr["failed"]],
    }
    ctx.assumptions = ["SC atomics", "single object", "no thread-id reuse"]
    return ctx.finish("proof")


def replay(ctx, path):
    lines = [l.strip() for l in open(path) if l.strip() and not l.startswith("#")]
    C.build_harness(ctx, ["c05"])
    rc, real, err = real_trace(lines)
    rcm, mout, _ = C.run_bin([C.driver_path("c05driver")], "\n".join(lines) + "\n")
    print("--- real (rc=%d)" % rc)
    print("\n".join(real))
    print("--- model")
    print(mout)
    return 0
