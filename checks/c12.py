"""C12 — reading is total and inverse to writing.

translate  : translate/c12_unicode.py regenerates lean/SteelVerif/C12/GenUnicode.lean (the escape table of
             Rust's `{:?}` that Steel's writer relies on) from the toolchain that builds /repo.
prove      : lake build SteelVerif.C12.Props + axiom audit (read_total_partial, spans_in_bounds, read_write_partial_*).
correspond : harness `c12` (the REAL TokenStream / Parser / writer / `(read)`) against `c12driver` (the model)
             on corpus + generated texts + structurally generated data, line by line.
oracle     : the specification S, evaluated on the real results alone:
               (T) every text is accepted or rejected: no panic, no crash, no hang;
               (B) every token / error span is inside [0, len], start <= end, on character boundaries;
               (R) for every datum d with an external representation: (equal? d (read (write d))).
             The model only classifies: a real failure of S is a KNOWN-FINDING iff it lies in the class of an open
             finding and the model predicts exactly the observed behaviour; otherwise it is a VIOLATION.
"""
import os
import random
import re
import struct
import subprocess
import time

from . import common as C

PID = "C12"
META = {
    "ready": True,
    "category": "proof",
    "technique": "Lean 4 model of Steel's lexer, datum parser and writers (write and print); round-trip theorem by structural induction over all data; fuel-adequacy theorems (totality of the model reader), character-boundary theorem for token spans; generated-table tie to the Rust formatter; differential run of the real TokenStream/Parser/(write)/(print)/(read) against the compiled model on generated texts and data, plus a model-independent identity on the real lexer (|B| names the characters of \"B\")",
    "level_text": "Theorems of SteelVerif/C12/Props.lean about the model: the token spans and the error span the model reader reports lie inside the text (spans_in_bounds, read_total_partial), tokens are in order, every token span starts and ends on a character boundary (spans_on_char_boundaries; error spans not covered); the model reader never gives up: the lexer's loops never exhaust their fuel on any text and every token consumes a character (lex_fuel_adequate, token_consumes), the parser never exhausts its fuel (3 x tokens + 3 suffices), so on every text without a @doc comment read returns data or a genuine error inside the text (read_total), and when the token stream holds no polar literal either it never answers unmodelled (read_total_modelled): the two kinds of input that reach unmodelled, @doc comments and polar literals, are named exactly and are decidable conditions on the token stream; a failure of the real reader itself is only looked for by execution. read (write d) = [d] for every datum d of the well-formedness class WF (read_write_partial_*), by induction over all data (any nesting up to the writer's depth limit, any code points in strings and characters). The class contains (quote d), (quasiquote d) and every list headed by quasiquote (read_write_quasiquote: the reader's quasi-quotation depth moves but nothing it builds from written text depends on it), and (unquote x ..) / (unquote-splicing x ..) when only atoms follow the head (read_write_unquote); it excludes inexact numbers, symbols whose name is not a plain identifier, lists and vectors headed by unquote / unquote-splicing that hold a compound datum (there the reader renames the head, K12c: the property is false), pairs whose car is one of these two symbols (not proved), and nesting deeper than 128; for the latter write_beyond_limit / write_deep state what the writer does (every datum at level 128 or deeper is printed as ...), depth_guard_tight / counter_depth_129 that two different well-formed data of depth 129 are written identically, so the guard depth <= 128 is exact. The clauses no theorem carries are listed at the end of Props.lean (among them parse(pretty(ast)) = ast, |..| symbol names). The integer parser of the model follows IntLiteral::from_str_radix including its BigInt fallback that takes `_` between digits when the tree has it (flag regenerated from the real parser on every run; finding K12n for string->number); underscore_inert: without a `_` the fallback changes nothing, reader_never_parses_underscore: read_number never hands a slice with `_` to the number parser, so the reader and symbol round trips are unaffected. The full statement ReadWrite (all representable data) is kept visible and is refuted for the model by concrete witnesses that are replayed on the real code (open findings). The model is hand-written; it is tied to crates/steel-parser, steel-core's writer and scheme/print.scm on every run by comparing tokens, spans, parse results and written/printed text with the real code on corpus, generated texts (incl. |..| identifiers with every mix of 1-4 byte characters, blanks and escapes at every position relative to the first escape, alone and inside larger data) and generated data (incl. symbols with arbitrary names printed by print with |..| quoting and read back).",
    "level_note": "Trusted: Lean kernel (axioms propext, Classical.choice, Quot.sound only), harness/driver/orchestrator comparison, the Rust formatter table and the integer-parser leniency flag regenerated by translate/c12_unicode.py from the running harness. Not modelled: inexact numbers (compared by bit pattern on the real code only), program-level lowering (Parser::parse is checked for totality and for parse(pretty(ast)) = ast by execution only), @doc comments, invalid UTF-8 (the Rust API takes &str), native stack depth; print is modelled for symbols, strings, integers, lists, vectors and pairs only (no theorem about it).",
}

EOF_DUMP = "O28656f6629"          # `(eof)`: how the eof object prints

# The finding classes this check can recognise (python side of the class predicates).  An entry is open only when
# KNOWN_FINDINGS.txt lists it with a `finding:` line; anything else that fails the property is a VIOLATION.
# (K12f datum-comment counter, K12g dotted special form, K12h polar literal overflow are fixed in /repo: their
# inputs stay in corpus/C12 as regression cases and a return of those panics is reported as a violation.)
PROPOSED = {
    "K12a": ("symbol_name_needs_quoting", "findings/C12-K12a.txt"),
    "K12b": ("symbol_aliased_by_lexer_keyword", "findings/C12-K12b.txt"),
    "K12c": ("list_headed_by_unquote_or_quasiquote", "findings/C12-K12c.txt"),
    "K12d": ("nesting_deeper_than_writer_limit_128", "findings/C12-K12d.txt"),
    "K12e": ("quote_shorthand_pops_foreign_context", "findings/C12-K12e.txt"),
    "K12i": ("shared_reader_keeps_leftover_text", "findings/C12-K12i.txt"),
    "K12j": ("ast_printer_does_not_escape_strings_or_quote_identifiers", "findings/C12-K12j.txt"),
    "K12l": ("reader_recursion_exhausts_native_stack", "findings/C12-K12l.txt"),
    "K12o": ("ast_printer_drops_rest_argument_marker", "findings/C12-K12o.txt"),
    "K12n": ("string_to_number_accepts_underscore_digit_separators", "findings/C12-K12n.txt"),
    "K12m": ("print_does_not_escape_backslash_in_quoted_symbol", "findings/C12-K12m.txt"),
}


# --------------------------------------------------------------------------------------------- helpers

def hx(s):
    return s.encode("utf-8").hex()


def unhx(h):
    return bytes.fromhex(h).decode("utf-8", errors="replace")


def flt_bits(text_hex):
    """`flt?<hex of decimal text>` of the model -> the 64 bits Rust's (correctly rounded) parser produces."""
    try:
        t = bytes.fromhex(text_hex).decode()
        v = float(t)
        if v != v:
            return "nan"
        return "%016x" % struct.unpack(">Q", struct.pack(">d", v))[0]
    except (ValueError, OverflowError):
        return "unparsable"


def norm_model(line):
    line = re.sub(r"flt\?([0-9a-f]*)", lambda m: "flt:" + flt_bits(m.group(1)), line)
    line = re.sub(r"F\?([0-9a-f]*)", lambda m: "F" + flt_bits(m.group(1)), line)
    return norm_zero(line)


def norm_zero(line):
    """the literal interner of steel-parser conflates 0.0 and -0.0 (whichever was lexed first in the process
    wins; `equal?` does not distinguish them): compare zeros without their sign"""
    return line.replace("flt:8000000000000000", "flt:0000000000000000").replace("F8000000000000000", "F0000000000000000")


def mask_other(line):
    """numbers outside the model (complex, polar) and unprintable objects: compare only their presence"""
    return re.sub(r"(^|[ _])O[0-9a-f]*", r"\1O", line)


def same_modulo_other(model_line, real_line):
    """equal, where a model token `O..` (a complex number the model does not evaluate) stands for any one
    numeric token of the real result (a complex number, or its real part when the imaginary part is zero)"""
    a = re.split(r"[ _]", model_line)
    b = re.split(r"[ _]", real_line)
    if len(a) != len(b):
        return False
    for x, y in zip(a, b):
        if x == y:
            continue
        if x.startswith("O") and re.match(r"^(O[0-9a-f]*|i-?\d+|r-?\d+/\d+|F[0-9a-f]+|Fnan)$", y):
            continue
        return False
    return True


class Runner:
    """Runs request lines on a binary in child processes (batches), survives crashes and hangs."""

    def __init__(self, argv, per_line_timeout=20.0):
        self.argv = argv
        self.per_line_timeout = per_line_timeout

    def run(self, lines, batch=400):
        out = [None] * len(lines)
        i = 0
        while i < len(lines):
            chunk = lines[i:i + batch]
            rc, so, se = C.run_bin(self.argv, "\n".join(chunk) + "\n",
                                   timeout=max(30.0, self.per_line_timeout + 0.02 * len(chunk)))
            got = so.splitlines()
            for k, g in enumerate(got[:len(chunk)]):
                out[i + k] = g
            if len(got) >= len(chunk):
                i += len(chunk)
                continue
            # the line after the last answered one killed / hung the process
            bad = i + len(got)
            why = "timeout" if rc == 124 else ("signal %d" % -rc if rc < 0 else "exit %d" % rc)
            tail = (se or "").strip().splitlines()[-1:] or [""]
            if rc == 124:
                # the batch ran out of time: on a loaded machine that says nothing about the line that happened to be
                # running; it is a hang only if that line ALONE does not answer within a generous limit
                rc1, so1, se1 = C.run_bin(self.argv, chunk[len(got)] + "\n", timeout=max(120.0, 4 * self.per_line_timeout))
                g1 = so1.splitlines()
                if g1:
                    out[bad] = g1[0]
                    i = bad + 1
                    continue
                why = "timeout" if rc1 == 124 else ("signal %d" % -rc1 if rc1 < 0 else "exit %d" % rc1)
                tail = (se1 or "").strip().splitlines()[-1:] or [""]
            out[bad] = "CRASH %s %s" % (why, tail[0][:200])
            i = bad + 1
        return out


def pool_run(runner, lines, workers=None):
    """split over processes"""
    n = workers or C.NCPU
    if len(lines) < 64:
        return runner.run(lines)
    size = (len(lines) + n - 1) // n
    parts = [lines[k:k + size] for k in range(0, len(lines), size)]
    res = C.pool_map(lambda p: runner.run(p), parts, workers=n)
    out = []
    for r in res:
        out += r
    return out


# --------------------------------------------------------------------------------------------- spans

def spans_of(line):
    """all (start, end) pairs mentioned by a lex/read/parse result line"""
    sp = [(int(a), int(b)) for a, b in re.findall(r"@(\d+)-(\d+)", line)]
    m = re.match(r"err \S+ (\d+) (\d+)$", line)
    if m:
        sp.append((int(m.group(1)), int(m.group(2))))
    return sp


def span_violations(text, line):
    b = text.encode("utf-8")
    n = len(b)
    bad = []
    for s, e in spans_of(line):
        ok = s <= e <= n
        if ok:
            for p in (s, e):
                if p < n and (b[p] & 0xC0) == 0x80:
                    ok = False
        if not ok:
            bad.append((s, e))
    return bad


# --------------------------------------------------------------------------------------------- generators

WS = " \t\n\r\x0b\x0c\x85\xa0\u1680\u2003\u2028\u2029\u202f\u205f\u3000"
ODD = "\x00\x01\x07\x1b\x7f\xad\u0301\u200b\u200d\ufeff\ufffe\uffff\ud7ff\ue000\U0001f600\U000e0001\U0010ffff\u202e"
LETTERS = "abcdefinxXyzλéß漢"
SYNTAX = "()[]{}#|;,'`\"\\+-.@/_:<>!?*=%&~^$"
DIGITS = "0123456789"


def rnd_char(r):
    k = r.random()
    if k < 0.30:
        return r.choice(SYNTAX)
    if k < 0.50:
        return r.choice(LETTERS)
    if k < 0.65:
        return r.choice(DIGITS + "eEiIaAbBcCdDfFoOxXnN")
    if k < 0.80:
        return r.choice(WS)
    if k < 0.90:
        return r.choice(ODD)
    while True:
        cp = r.choice([r.randrange(0x80, 0x800), r.randrange(0x800, 0x10000), r.randrange(0x10000, 0x110000)])
        if not 0xD800 <= cp <= 0xDFFF:
            return chr(cp)


def gen_random_text(r):
    return "".join(rnd_char(r) for _ in range(r.randrange(0, 40)))


def gen_shebang(r):
    """a `#!` first line (ASCII or not, any end of line) to put in front of a text"""
    body = "".join(r.choice(["/", "usr", "bin", "env", " ", "steel", "é", "λ", "漢", "\U0001f600", "-", "x", "\t", "\u3000",
                             "\u0301", "#", "!", "(", "\"", ";", "|"]) for _ in range(r.randrange(0, 8)))
    return "#!" + body + r.choice(["\n", "\n", "\n", "\r\n", "", "\n\n"])


def gen_string_lit(r, valid=True):
    parts = []
    for _ in range(r.randrange(0, 8)):
        k = r.randrange(12)
        if k == 0:
            parts.append("\\" + r.choice('"ab\\|tnr0'))
        elif k == 1:
            parts.append("\\x%x;" % r.choice([0, 0x41, 0x3bb, 0x10ffff, 0x1f600, 0x7f]))
        elif k == 2:
            parts.append("\\u{%x}" % r.choice([0, 0x41, 0x3bb, 0x10ffff, 0x1f600]))
        elif k == 3:
            parts.append("\\u%04x;" % r.choice([0x41, 0x3bb]))
        elif k == 4:
            parts.append("\\" + r.choice([" ", "\t", ""]) * r.randrange(0, 3) + "\n" + r.choice([" ", "\t"]) * r.randrange(0, 3))
        elif k == 5 and not valid:
            parts.append(r.choice(["\\q", "\\x", "\\x;", "\\xZZ;", "\\u{", "\\u{110000}", "\\xd800;", "\\x41", "\\x41(",
                                   "\\u{41;", "\\ x", "\\", "\\x+41;", "\\x-41;", "\\xffffffffff;", "\\u41}"]))
        else:
            parts.append(rnd_char(r).replace('"', "q").replace("\\", "b"))
    s = '"' + "".join(parts)
    if valid or r.random() < 0.6:
        s += '"'
    return s


def gen_char_lit(r):
    return "#\\" + r.choice([
        "a", "A", "space", "SPACE", "newline", "tab", "null", "nul", "return", "alarm", "backspace", "delete",
        "escape", "x", "u", "x41", "u41", "u{41}", "u{41", "u{}", "x110000", "xd800", "xZ", "u{3bb}", "λ", "(", ")",
        "[", " ", "'", ",", ";", '"', "\\", "#", "|", "xλ", "spaces", "", "\n", "u+41", "ab", "é", "\U0001f600",
        "x0", "U41", "X41"])


def gen_number(r):
    def uint(radix):
        ds = "0123456789abcdefABCDEF"[:radix if radix <= 10 else 22]
        return "".join(r.choice(ds) for _ in range(r.randrange(1, 5))) if r.random() < 0.9 else r.choice(
            ["", "0", "00", "9223372036854775807", "9223372036854775808", "123456789012345678901234567890"])

    def real(radix):
        k = r.randrange(10)
        sign = r.choice(["", "", "+", "-"])
        if k < 3:
            return sign + uint(radix)
        if k < 5:
            return sign + uint(radix) + "/" + uint(radix)
        if k < 7:
            return sign + uint(10) + "." + r.choice(["", uint(10)]) + r.choice(["", "e" + r.choice(["", "+", "-"]) + uint(10), "E5", "e"])
        if k == 7:
            return r.choice(["+inf.0", "-inf.0", "+nan.0", "-nan.0", "inf.0", "+inf", "+inf.0e", "+nan"])
        if k == 8:
            return sign + "." + uint(10)
        return sign + uint(radix) + "e" + uint(10)

    radix = r.choice([10, 10, 10, 16, 8, 2])
    prefix = {10: r.choice(["", "", "#d", "#D"]), 16: r.choice(["#x", "#X"]), 8: "#o", 2: "#b"}[radix]
    k = r.randrange(10)
    if k < 6:
        body = real(radix)
    elif k < 8:
        body = r.choice(["", real(radix)]) + r.choice(["+", "-"]) + r.choice(["", uint(radix), real(radix).lstrip("+-")]) + "i"
    elif k == 8:
        body = real(radix) + "@" + real(radix)
    else:
        body = real(radix) + r.choice(["+", "-", "/", "//", "..", "ee", "@@", "i", "+i+i", "/0", "/-1", "}", "{", "x", "_0", "_", "_000", "_0/3",
                                  "_0.5", "_0e2", "__1"])
    return prefix + body


# ----- `|...|` identifiers ---------------------------------------------------------------------------------
# An element is (text inside bars, text inside a string literal): the same characters / escapes, spelled for both
# contexts.  Classes: ASCII, 2-, 3-, 4-byte characters, blanks, characters that end a plain word, and every kind of
# backslash escape `read_string_escape` knows (`\|`, hex with `;`, `\u{..}`, mnemonics, line continuations).
BAR_PLAIN_CLASSES = {
    "ascii": ["a", "Z", "0", "x", ".", "+", "#", "-"],
    "2byte": ["é", "ß", "λ", "\u0301"],
    "3byte": ["漢", "€", "\u2028", "\ufeff"],
    "4byte": ["\U0001f600", "\U00010348", "\U0010ffff"],
    "blank": [" ", "\t", "\u3000", "\n", "\xa0"],
    "stop": ["(", ")", ";", "'", ",", "`", "[", "{"],
}
BAR_ESCAPES = ["\\|", "\\x41;", "\\x3bb;", "\\x1F600;", "\\x0;", "\\xe9;", "\\u{6f22}", "\\u41;", "\\t", "\\n", "\\a",
               "\\b", "\\r", "\\0", "\\\\", "\\\"", "\\\n", "\\\n  ", "\\ \t\n ", "\\x00041;"]
BAR_BAD = ["\\q", "\\x", "\\x;", "\\xZZ;", "\\u{", "\\u{110000}", "\\xd800;", "\\x41", "\\x41(", "\\ x", "\\", "\\x41|",
           "\\é", "\\漢", "\\x-41;"]


def bar_elem_plain(r, cls=None):
    c = r.choice(BAR_PLAIN_CLASSES[cls or r.choice(list(BAR_PLAIN_CLASSES))])
    return (c, c)


def bar_elems(r, n=None, bad=False):
    """a sequence of elements: every mix of plain characters (all byte lengths) and escapes at every position"""
    out = []
    for _ in range(r.randrange(0, 7) if n is None else n):
        k = r.random()
        if k < 0.55:
            out.append(bar_elem_plain(r))
        elif k < 0.60:
            out.append(('"', '\\"'))
        elif bad and k < 0.68:
            e = r.choice(BAR_BAD)
            out.append((e, e))
        else:
            e = r.choice(BAR_ESCAPES)
            out.append((e, e))
    return out


def bar_text(elems, closed=True):
    return "|" + "".join(e[0] for e in elems) + ("|" if closed else "")


def str_text(elems):
    return '"' + "".join(e[1] for e in elems) + '"'


def gen_bar_ident(r, valid=True):
    return bar_text(bar_elems(r, bad=not valid), closed=valid or r.random() < 0.6)


def bar_family(r, quick):
    """systematic part: every prefix of 0..2 plain characters over the classes (one representative each, another one
    drawn at random) x every kind of first escape x a suffix; then random sequences.  Returns element lists."""
    reps = [(c[0], c[0]) for c in BAR_PLAIN_CLASSES.values()]
    firsts = [(e, e) for e in ["\\|", "\\x41;", "\\x3bb;", "\\u{6f22}", "\\t", "\\\\", "\\\n  ", "\\x1F600;"]]
    prefixes = [[]] + [[a] for a in reps] + [[a, b] for a in reps for b in reps]
    suffixes = [[], [("é", "é")], [("a", "a"), ("\\x42;", "\\x42;")], [(" ", " "), ("\\|", "\\|"), ("漢", "漢")]]
    fam = []
    for pre in prefixes:
        for f in firsts:
            for suf in (suffixes if not quick else [suffixes[(len(fam) + len(pre)) % len(suffixes)]]):
                fam.append(pre + [f] + suf)
    # the same with other representatives of each class, and longer prefixes
    for _ in range(300 if quick else 6000):
        pre = [bar_elem_plain(r) for _ in range(r.randrange(1, 5))]
        fam.append(pre + [(lambda e: (e, e))(r.choice(BAR_ESCAPES))] + bar_elems(r, r.randrange(0, 4)))
    for _ in range(200 if quick else 4000):
        fam.append(bar_elems(r))
    return fam


def embed_ident(r, ident, other):
    """the identifier inside larger data, after multi-byte text (byte offsets of the token differ from character
    offsets), under quote shorthands, next to other bar identifiers"""
    k = r.randrange(12)
    shape = ["(@1)", "(a @1 \"s\")", "'@1", "#(@1 @2)", "(define @1 1)", "(@1 . @2)", "`(,@1)", "(quote @1)", "\"é漢\" @1",
             "λ漢 (@2 @1)", "#!é\n@1", "(a (b #(@2 (@1))) . c)"][k]
    return shape.replace("@1", ident).replace("@2", other)


# ----- programs of the fragment the AST model covers -----------------------------------------------------------
PROG_IDS = ["x", "y", "z", "f", "g", "acc", "n", "lst", "k2", "+", "*", "-", "<", "=", "car", "cons", "list", "null?", "a-b", "é",
            "set-x!", "->v"]


def gen_quoted(r, depth):
    k = r.randrange(10)
    if depth <= 0 or k < 4:
        return r.choice([str(r.randrange(-50, 50)), r.choice(PROG_IDS), "#t", "#f", '"s%d"' % r.randrange(9), "if", "define",
                         "lambda", "quote-x", "#\\a", "1/2", "()"])
    n = r.randrange(0, 4)
    items = [gen_quoted(r, depth - 1) for _ in range(n)]
    if k < 7:
        return "(" + " ".join(items) + ")"
    if k == 7:
        return "#(" + " ".join(items) + ")"
    if k == 8 and n >= 1:
        return "(" + " ".join(items) + " . " + gen_quoted(r, depth - 1) + ")"
    return "#u8(" + " ".join(str(r.randrange(256)) for _ in range(n)) + ")"


def gen_prog_expr(r, depth, odd=False):
    """one expression of the fragment: atoms, application, if, define, lambda, begin, set!, quote, let"""
    k = r.randrange(20)
    e = lambda: gen_prog_expr(r, depth - 1, odd)
    if depth <= 0 or k < 5:
        j = r.randrange(10)
        if j < 3:
            return str(gen_int(r))
        if j < 6:
            return r.choice(PROG_IDS)
        if j == 6:
            return r.choice(["#t", "#f", "#true", "#false"])
        if j == 7:
            return '"' + "".join(r.choice("abc xyz-é0") for _ in range(r.randrange(0, 5))) + '"'
        if j == 8 and odd:
            return r.choice(['"a\\"b"', '"a\\\\b"', '"a\\nb"', "|a b|", "|x\\x41;|", "#\\a", "#\\space", "1/2", "|'|"])
        return r.choice(["#\\a", "#\\z", "1/2", "-3/4"]) if r.random() < 0.5 else str(r.randrange(100))
    ids = lambda n: [r.choice(PROG_IDS[:9]) + str(i) for i in range(n)]
    if k < 8:
        return "(" + " ".join([r.choice(PROG_IDS) if r.random() < 0.7 else e()] + [e() for _ in range(r.randrange(0, 4))]) + ")"
    if k == 8:
        return "(if %s %s%s)" % (e(), e(), " " + e() if r.random() < 0.7 else "")
    if k == 9:
        return "(%s %s %s)" % (r.choice(["define", "define", "defn"]), r.choice(PROG_IDS[:9]), e())
    if k == 10:
        a = ids(r.randrange(0, 4))
        return "(define (%s) %s)" % (" ".join([r.choice(PROG_IDS[:9])] + a), " ".join(e() for _ in range(r.randrange(1, 4))))
    if k in (11, 12):
        a = ids(r.randrange(0, 4))
        return "(%s (%s) %s)" % (r.choice(["lambda", "lambda", "fn", "λ"]), " ".join(a), " ".join(e() for _ in range(r.randrange(1, 4))))
    if k == 13:
        return "(begin%s)" % "".join(" " + e() for _ in range(r.randrange(0, 4)))
    if k == 14:
        return "(set! %s %s)" % (r.choice(PROG_IDS[:9]), e())
    if k in (15, 16):
        q = gen_quoted(r, 3)
        return "'" + q if r.random() < 0.5 else "(quote %s)" % q
    if k == 17:
        a = ids(r.randrange(0, 4))
        return "(let (%s) %s)" % (" ".join("(%s %s)" % (x, e()) for x in a), " ".join(e() for _ in range(r.randrange(1, 3))))
    if k == 18:
        return "(lambda %s %s)" % (r.choice(PROG_IDS[:9]), e())          # one rest identifier
    # malformed special forms and forms outside the model (the tie covers totality and the error / unmodelled split)
    return r.choice(["(if)", "(if 1)", "(if 1 2 3 4)", "(set! x)", "(set! x 1 2)", "(define x)", "(lambda)", "(lambda (x))", "(quote)",
                     "(quote 1 2)", "(let loop ((i 0)) i)", "(%plain-let ((x 1)) x)", "#(1 2)", "(f . x)", "(lambda (x . r) x)",
                     "(define (f . r) r)", "(return! 1)", "(let ((x)) x)", "(let (x) x)", "(define ((f a) b) a)", "(begin . 1)"])


def gen_program(r, odd=False):
    return " ".join(gen_prog_expr(r, r.randrange(1, 5), odd) for _ in range(r.randrange(1, 4)))


# ----- data for `print` (the writer that quotes symbols) -------------------------------------------------------

def gen_print_name(r, backslash=False):
    """a symbol name `print` writes between bars: at least one whitespace character, any other characters (all byte
    lengths, `|`, delimiters, `#`, digits ...); no backslash unless asked for (print does not escape it)"""
    pool = sum(BAR_PLAIN_CLASSES.values(), []) + ["|", "|", '"', "1", "#t"] + (["\\"] if backslash else [])
    n = r.randrange(1, 7)
    cs = [r.choice(pool) for _ in range(n)]
    cs.insert(r.randrange(len(cs) + 1), r.choice(BAR_PLAIN_CLASSES["blank"]))
    if backslash and "\\" not in cs:
        cs.insert(r.randrange(len(cs) + 1), "\\")
    return "".join(cs)


def gen_print_datum(r, depth=2, backslash=False):
    k = r.randrange(10)
    if depth <= 0 or k < 4:
        j = r.randrange(8)
        if j < 4:
            return "y" + hx(gen_print_name(r, backslash))
        if j == 4:
            return "y" + hx(r.choice(NAMES_OK))
        if j == 5:
            return "i%d" % gen_int(r)
        return "s" + hx(gen_text_payload(r))
    n = r.choice([1, 1, 2, 3])
    if k < 7:
        return " ".join(["L%d" % n] + [gen_print_datum(r, depth - 1, backslash) for _ in range(n)])
    if k < 9:
        return " ".join(["V%d" % n] + [gen_print_datum(r, depth - 1, backslash) for _ in range(n)])
    return "P %s y%s" % (gen_print_datum(r, depth - 1, backslash), hx(gen_print_name(r, backslash)))


def gen_ident(r):
    k = r.randrange(10)
    if k < 4:
        return "".join(r.choice(LETTERS + "-!?*<>=/+.:%_0123456789") for _ in range(r.randrange(1, 8)))
    if k < 6:
        return gen_bar_ident(r, valid=r.random() < 0.8)
    if k == 6:
        return r.choice(["if", "define", "defn", "fn", "λ", "lambda", "quote", "let", "begin", "set!", "require", "...",
                         "return!", "%plain-let", "#%define", "#%plain-lambda", "syntax-rules", "define-syntax",
                         "unquote", "quasiquote", "unquote-splicing", "#%unquote"])
    if k == 7:
        return r.choice(["+", "-", "+a", "-a", "++", "--", "+1a", "-1a", "1+", "1-", "->x", "+|a b|", "1|a b|", ".a",
                         "..", "a.b", "+.", "-.", "+e", "e", "i", "+i", "-i", "+ii", "a'b", "a\\'b", "a\\", "a\\ b",
                         # digit strings with `_` (num-bigint's digit separator: a number for string->number, K12n)
                         "1_0", "1_000/3", "_1", "1_", "1__0", "+1_0", "-1_0", "#x1_f", "#b1_0", "1_0.5", "1_0e2", "1/1_0",
                         "1_0+2i", "1_0@2", "12345678901234567890_1", "-_1", "#e1_0"])
    if k == 8:
        return "#" + r.choice(["t", "f", "true", "false", "tru", ":kw", ":", "a", "a'b", "a,b", "a,@b", "%x", "xyz",
                               "xff", "b2", "<a", "<", "!", "u8", "u", "u8x", "\\"])
    return "".join(rnd_char(r) for _ in range(r.randrange(1, 5)))


def gen_token(r):
    k = r.randrange(22)
    if k < 3:
        return gen_string_lit(r, valid=r.random() < 0.6)
    if k < 5:
        return gen_char_lit(r)
    if k < 9:
        return gen_number(r)
    if k < 13:
        return gen_ident(r)
    if k == 13:
        return r.choice([";c\n", ";;@doc\n", "; x", "#|c|#", "#| #| n |# |#", "#|", "#| |", "#;", "#;#;", "#; "])
    if k == 14:
        return r.choice(["#(", "#u8(", "#[", "#u8[", "#{", "# (", "#u8 (", "#u9("])
    if k == 15:
        return r.choice(["'", "`", ",", ",@", "#'", "#`", "#,", "#,@", "' ", ", @"])
    if k == 16:
        return r.choice([".", " . ", ". ", " ."])
    if k == 17:
        return r.choice(["#<<E\nab\nE", "#<<\nx", "#<< E\n", "#<<E", "#<<E\r\nabE", "##", "#!x\n", "#<"])
    return r.choice(["(", ")", "[", "]", "{", "}", "(", ")", "()", "(())"])


def gen_token_text(r):
    n = r.randrange(1, 12)
    sep = lambda: r.choice(["", " ", " ", " ", "\n", "\t", "\u2003"])
    return "".join(gen_token(r) + sep() for _ in range(n))


def gen_balanced(r, depth=0):
    """mostly valid S-expression text"""
    k = r.randrange(10)
    if depth > 4 or k < 4:
        return r.choice([gen_number, gen_ident, gen_char_lit, lambda q: gen_string_lit(q, True)])(r)
    if k < 7:
        o, c = r.choice([("(", ")"), ("[", "]"), ("#(", ")"), ("(", ")"), ("{", "}")])
        items = [gen_balanced(r, depth + 1) for _ in range(r.randrange(0, 4))]
        if o == "(" and len(items) >= 2 and r.random() < 0.2:
            items.insert(len(items) - 1, ".")
        if r.random() < 0.1:
            items.insert(r.randrange(len(items) + 1), r.choice(["#;", ";c\n", "#|c|#"]))
        return o + " ".join(items) + c
    if k == 7:
        return "#u8(" + " ".join(r.choice(["0", "255", "#xff", "256", "-1", "1.0", "a", "7"]) for _ in range(r.randrange(0, 4))) + ")"
    return r.choice(["'", "`", ",", ",@", "#'", "#`", "#,", "#,@"]) + gen_balanced(r, depth + 1)


def mutate(r, s):
    if not s:
        return s
    k = r.randrange(4)
    i = r.randrange(len(s))
    if k == 0:
        return s[:i] + s[i + 1:]
    if k == 1:
        return s[:i] + rnd_char(r) + s[i:]
    if k == 2:
        return s[:i] + rnd_char(r) + s[i + 1:]
    return s[:i]


def directed_texts():
    big = 10 ** 4
    t = [
        # `#!` first lines: skipped by TokenStream::new (byte offsets and the character iterator must agree)
        "#!/usr/bin/env steel\n(alpha \"beta\" 42)", "#!/opt/été/bin/steel\n(alpha \"beta\" 42)",
        "#!/opt/été/bin/steel", "#!é", "#!é\n", "#!λ漢🎉\n'(a . b) #\\é \"ü\"", "#!/bin/é\r\n(a)\r\n", "#!\r\n1",
        "#!\n\n(a)", "#!ééééééééééééééééééééééééééééééé\nx", "#! é (not a datum\n\"s\"", " #!é\n(a)", "\n#!é\n(a)",
        "#!🎉🎉🎉\n#!🎉\n(a)", "#!a\u2028b\n(c)", "#!\x00é\n(c)",
        "", " ", "\x00", "(\x00)", "\"\x00\"", "a\x00b", "#\\\x00", "\ufeff(a)", "#!shebang\n(a)", "#!", "#!\n", "#",
        "(" * big + ")" * big, "(" * big, ")" * 3, "[" * big + "]" * big, "#(" * big + ")" * big,
        "'" * big + "a", "`" * big + "a", "," * big + "a", ",@" * big + "a", "#'" * big + "a",
        "(a . " * 2000 + "b" + ")" * 2000,
        "\"" + "a" * big, "#|" * big, "#|" * 200 + "|#" * 200, "#|" * 200 + "|#" * 199, "|" + "a" * big, ";" + "a" * big,
        "#;" * 300 + "a", "(" + "#;" * 254 + "a b)", "\"\\x" + "0" * big + "41;\"", "1" * big, "#x" + "f" * big,
        "1/" + "0" * 50, "1/0", "#x1/0", "1/2/3", "1@", "@1", "1@2@3", "+i", "-i", "i", "1+i", "1+2i+3i", "+inf.0i",
        "1e", "1e+", "1.2.3", ".", "..", "...", "....", "+.", "-.5e-3", "1e400", "-1e400", "#e1", "#x-ff", "#b102",
        "{1 2}", "(1 2}", "[1 2)", "#u8(1 2 . 3)", "#(1 . 2)", "( . 1)", "(1 . )", "(1 . 2 3)", "(1 . 2 . 3)",
        "(1 #; . 2)", "(#; 1 . 2)", "(1 . #;2 3)", "(1 . 2 #;3)", "#;", "#; ", "(#;)", "#;#;1 2 3", "#;(1 . )",
        "'", "`", ",", ",@", "#'", "(')", "'(quasiquote a)", "`(quote a)", ",(quasiquote a)", "'(unquote a)",
        "(quasiquote (unquote (a)))", "`,(a)", "`(a ,b ,@c)", "``,,a", "(quote a) 'b", "(quasiquote a) ,b",
        "(if 1 2 . 3)", "(quote . x)", "(lambda (x) . 1)", "(begin . 1)", "(define . x)", "(let ((a 1)) . 2)",
        "1@-2147483648/-1", "1@1/-2147483648", "1@1/-2", "é/2", "1é/2", "λ/2", "#xé/2", "+é/2", "(1/é)", "é/é/é",
        "|a", "|a\\", "|a\\|", "||", "|\\\n|", "|a\\x41;b|", "+|a|", "1|a|", "a|b|c", "|a||b|",
        "\"a\\\n   b\"", "\"a\\  \n  \n b\"", "\"a\\ b\"", "\"\\", "\"\\x", "\"\\u{", "\"\\x41", "\"\\q\" \"abc",
        "#\\", "#\\ ", "#\\  ", "#\\(", "#\\)(", "#\\u{", "#\\u{}", "#\\u{41}", "#\\x41", "#\\xffffffff", "#\\é",
        "#t #f #true #false #tr", "#:k #: #:k'x", "#<<E\nbody E\nE", "#<<\n", "#<<E", "#<< E\nx", "##", "###",
        ";@doc\n(define x 1)", ";; @doc\nx", "a;b\nc", "a#|b|#c", "a#;b c", "\u2028a\u3000b\x85c",
        "(string->number \"é/2\")",
        "1_0", "1_000/3", "(1_0 . _1)", "#(1_ 1__0 -1_0 +1_0)", "#x1_f", "#u8(1_0)", "'1_0", "1_0|a|", "(string->number \"1_0\")",
    ]
    return t


# ----- data ---------------------------------------------------------------------------------------------

NAMES_PLAIN = ["a", "abc", "x1", "list", "hello-world", "set-car!", "a.b", "a|b", "<=?", "*", "/", "-", "->x", "...", "λx",
               "é", "漢字", "if", "define", "quote", "let", "begin", "lambda", "set!", "require", "-a", "-1a", "1+", "a#b",
               "%x", "!", "$", "&", "~", "^", "_", "a_b", "#:kw", "#%prim", "e", "i", "x", "u", "nan", "inf", "-", "--"]
NAMES_ODD = ["", " ", "a b", "a\tb", "a\nb", "(", ")", "a(b", "a)b", "[", "]", "{", "}", "'", "a'b", "`", ",", ",@a", ";",
             "a;b", "\"", "a\"b", "\\", "a\\b", "|", "|a|", "||", "a|", "#", "#t", "#f", "#true", "#\\a", "#(", "#u8(",
             "#|", "#;", "##", "#<", "#<<", "#!", "#x10", "#b1", "#d1", "#e1", "#xyz", ".", "..", "1", "12", "-1", "+1", "1/2",
             "1.5", "1e5", "+inf.0", "-nan.0", "+i", "1+2i", "1@2", ".5", "-.5", "+", "++", "+a", "+λ", "+ a", "1 ",
             "1_0", "1_000/3", "_1", "1_", "1__0", "-1_0", "#x1_f", "12345678901234567890_1", "1_0.5",
             "defn", "fn", "λ", "#%define", "#%plain-lambda", "unquote", "quasiquote", "unquote-splicing", "\x00", "\x7f",
             "\u00a0", "\u200b", "\u2028", "\u3000", "\U0001f600", "a\U0010ffff", "\ufeff", "A", "ABC"]
HEADS = ["unquote", "quasiquote", "unquote-splicing", "quote"]
NAMES_OK = ["a", "abc", "x1", "list", "hello-world", "set-car!", "a.b", "<=?", "*", "/", "λx", "é", "漢字", "if", "define",
            "quote", "let", "begin", "lambda", "set!", "require", "a#b", "%x", "!", "$", "&", "~", "^", "_", "e", "i", "x"]


def gen_text_payload(r):
    n = r.choice([0, 1, 1, 2, 3, 5, 8])
    return "".join(r.choice([r.choice(LETTERS), r.choice(SYNTAX), r.choice(WS), r.choice(ODD), r.choice(DIGITS),
                             chr(r.choice([0x5c, 0x22, 0x27, 0x7c])), rnd_char(r)]) for _ in range(n))


def gen_symbol_name(r):
    k = r.random()
    if k < 0.55:
        return r.choice(NAMES_PLAIN)
    if k < 0.85:
        return r.choice(NAMES_ODD)
    return gen_text_payload(r)


def gen_int(r):
    k = r.randrange(8)
    if k < 4:
        return r.randrange(-1000, 1000)
    if k == 4:
        return r.choice([0, 1, -1, 2 ** 31, -2 ** 31, 2 ** 63 - 1, 2 ** 63, -2 ** 63, -2 ** 63 - 1, 2 ** 64, 10 ** 30, -10 ** 30])
    return r.randrange(-2 ** r.randrange(1, 200), 2 ** r.randrange(1, 200))


def gen_atom(r, floats, plain=False):
    k = r.randrange(16 if floats else 14)
    if k < 3:
        return "i%d" % gen_int(r)
    if k == 3:
        n, d = gen_int(r), abs(gen_int(r)) or 1
        return "r%d/%d" % (n, d)
    if k == 4:
        return r.choice(["t", "f"])
    if k < 7:
        c = rnd_char(r) if r.random() < 0.6 else r.choice(" \t\n\r\x00()[]{};'`,\"\\|#xuUX.λ")
        return "c%x" % ord(c)
    if k < 10:
        return "s" + hx(gen_text_payload(r))
    if k < 13:
        return "y" + hx(r.choice(NAMES_OK) if plain else gen_symbol_name(r))
    if k == 13:
        return "B" + bytes(r.randrange(256) for _ in range(r.randrange(0, 5))).hex()
    v = r.choice([0.0, -0.0, 1.5, -2.25, 1e21, 1e-7, 123456789.125, float("inf"), float("-inf"), 5e-324, 1.7976931348623157e308,
                  r.random(), r.uniform(-1e6, 1e6), 0.1, 1 / 3, 1e22, 1e16, 123456789012345680.0])
    return "F%016x" % struct.unpack(">Q", struct.pack(">d", v))[0]


def gen_datum(r, depth, floats=False, heads=False, plain=False):
    """datum notation; depth = remaining nesting"""
    if depth <= 0 or r.random() < 0.35:
        return gen_atom(r, floats, plain)
    k = r.randrange(10)
    n = r.choice([0, 1, 1, 2, 2, 3, 4])
    if k < 5:
        items = [gen_datum(r, depth - 1, floats, heads, plain) for _ in range(n)]
        if heads and items and r.random() < 0.3:
            items[0] = "y" + hx(r.choice(HEADS))
        return " ".join(["L%d" % len(items)] + items)
    if k < 7:
        items = [gen_datum(r, depth - 1, floats, heads, plain) for _ in range(n)]
        return " ".join(["V%d" % len(items)] + items)
    if k < 9:
        return "P " + gen_datum(r, depth - 1, floats, heads, plain) + " " + gen_datum(r, depth - 1, floats, heads, plain)
    name = r.choice(HEADS if heads else ["quote", "quote", "quasiquote"])
    if heads and r.random() < 0.3:
        # (unquote atom ...) / (unquote-splicing atom ...): inside the class of the round-trip theorem
        return " ".join(["L%d" % (1 + n), "y" + hx(r.choice(["unquote", "unquote-splicing"]))] +
                        [gen_atom(r, False, True) for _ in range(n)])
    return "L2 y%s %s" % (hx(name), gen_datum(r, depth - 1, floats, heads, plain))


WIDE_ITEMS = ["V0", "L0", "s", "B", "V1 i1", "L1 i1", "B00", "s61", "c61", "y61", "i0", "t", "r1/2", "P i1 i2", "V1 V0", "L1 L0",
              "L2 y71756f7465 L0", "V2 V0 L0", "P V0 V0", "i-123456789012345678901234567890"]


def gen_wide(r, k):
    """one list / vector holding hundreds of empty or tiny containers and atoms, then a few ordinary atoms: a writer
    that leaks a nesting level (or any other per-element state) while printing one element shows on the later ones"""
    n = r.choice([130, 140, 200, 260, 400])
    if k < len(WIDE_ITEMS):
        items = [WIDE_ITEMS[k]] * n                      # homogeneous: one kind of element
    else:
        items = [r.choice(WIDE_ITEMS) for _ in range(n)]
    tail = ["y656e64", "s7461696c", "i42", "c7a", "V1 i7"]
    body = items + tail
    count = n + len(tail)
    return " ".join(["%s%d" % (r.choice(["L", "L", "V"]), count)] + body)


def gen_chain(r, depth, nest_only=False):
    """a single spine of the given depth (lists, vectors, pairs mixed; `nest_only`: every step nests, so the
    writer's recursion depth is exactly `depth` + 1)"""
    d = gen_atom(r, False)
    for _ in range(depth):
        k = r.choice([0, 1, 3]) if nest_only else r.randrange(4)
        if k == 0:
            d = "L1 " + d
        elif k == 1:
            d = "V2 i1 " + d
        elif k == 2:
            d = "P i0 " + d
        else:
            d = "L2 %s y%s" % (d, hx("z"))
    return d


# ----- classification of data (python side of the class predicates) ----------------------------------------

def parse_notation(toks, i=0):
    t = toks[i]
    tag, body = t[0], t[1:]
    if tag in "LV":
        n = int(body)
        items = []
        i += 1
        for _ in range(n):
            d, i = parse_notation(toks, i)
            items.append(d)
        return (tag, items), i
    if tag == "P":
        a, i = parse_notation(toks, i + 1)
        d, i = parse_notation(toks, i)
        return ("P", [a, d]), i
    return (tag, body), i + 1


RUST_WS = set(" \t\n\r\x0b\x0c\x85\xa0\u1680\u2028\u2029\u202f\u205f\u3000") | {chr(c) for c in range(0x2000, 0x200b)}
ALIASED = {"defn", "fn", "λ", "#%define", "#%plain-lambda"}
QQ = {"unquote", "quasiquote", "unquote-splicing"}
RENAMED = {"unquote", "unquote-splicing"}


def is_plain_char(c):
    """Lean: isPlainChar"""
    return not (c in "()[]{}'\"`;," or c in RUST_WS) and c not in "\\|"


def symbol_is_plain(name):
    """exact copy of the Lean guard `symOK` of read_write_partial (names the writer prints readably)"""
    if not name:
        return False
    c = name[0]
    if not is_plain_char(c) or c in "#+-." or c in "0123456789":
        return False
    if any(not is_plain_char(x) for x in name[1:]):
        return False
    return name not in ("defn", "fn", "λ")


def datum_features(tree, depth=1, feats=None):
    feats = feats if feats is not None else {"depth": 0, "odd_symbol": False, "aliased": False, "qq_head": False,
                                             "float": False, "nodes": 0, "kinds": set()}
    tag, body = tree
    feats["nodes"] += 1
    feats["kinds"].add(tag)
    feats["depth"] = max(feats["depth"], depth)
    if tag == "y":
        name = unhx(body)
        if name in ALIASED:
            feats["aliased"] = True
        elif not symbol_is_plain(name):
            feats["odd_symbol"] = True
    elif tag == "F":
        feats["float"] = True
    elif tag in "LVP":
        # exact copy of the Lean guard (Model.lean WF: headOK || restAtomic; pairs: !isQQ car): the head is `unquote` /
        # `unquote-splicing` and a compound datum follows it (a list headed by `quasiquote` is inside the class)
        if body and body[0][0] == "y" and unhx(body[0][1]) in RENAMED and (
                tag == "P" or any(x[0] in "LVPB" for x in body[1:])):
            feats["qq_head"] = True
        for x in body:
            datum_features(x, depth + 1, feats)
    return feats


# --------------------------------------------------------------------------------------------- the check

class Check:
    def __init__(self, ctx):
        self.ctx = ctx
        self.real = Runner([C.bin_path("c12")], per_line_timeout=30.0)
        self.model = Runner([C.driver_path("c12driver")], per_line_timeout=60.0)
        self.stats = {"texts": 0, "text_ops": 0, "lex_agree": 0, "read_agree": 0, "read_unmodelled": 0, "data": 0,
                      "data_roundtrip_ok": 0, "data_model_agree": 0, "data_real_only": 0, "prefixes": 0,
                      "token_kinds": {}, "error_kinds": {}, "datum_kinds": {}, "known_hits": {}, "max_depth": 0,
                      "distinct_texts": set(), "distinct_data": set(), "samples": [], "model_disagreements": [],
                      "pretty_same": 0, "pretty_diff": 0, "pretty_total": 0}
        listed = {k.get("id"): k for k in ctx.load_known()}
        self.open = {kid: cls for kid, (cls, _) in PROPOSED.items() if kid in listed}
        self.n_viol = 0
        self.noted = set()

    # ---- reporting -----------------------------------------------------------------------------
    def known(self, kid, detail):
        self.stats["known_hits"][kid] = self.stats["known_hits"].get(kid, 0) + 1
        cls = self.open[kid]
        self.ctx.known_finding("id=%s class=%s %s" % (kid, cls, detail))

    def violation(self, label, requests, what, extra=""):
        self.n_viol += 1
        # at most 4 replay files per kind of failure (so that one kind does not hide the others), 28 in all
        self.per_label = getattr(self, "per_label", {})
        self.per_label[label] = self.per_label.get(label, 0) + 1
        if self.per_label[label] > 4 or len(self.ctx.violations) >= 28:
            return
        name = "C12-%s-%d.txt" % (label, self.n_viol)
        body = "# C12 violation: %s\n# replay: ./check C12 --replay findings/%s\n" % (what, name)
        for rq in requests:
            body += rq + "\n"
        if extra:
            body += "".join("# " + l + "\n" for l in extra.splitlines())
        self.ctx.violation(name, body)

    def model_disagreement(self, request, real, model):
        self.stats["model_disagreements"].append((request, real, model))

    # ---- texts ------------------------------------------------------------------------------------
    def shrink_text(self, text, still_fails):
        """greedy chunk removal; `still_fails(text)` re-runs the real code"""
        cur = text
        chunk = max(1, len(cur) // 2)
        budget = 60
        while chunk >= 1 and budget > 0:
            i = 0
            changed = False
            while i < len(cur) and budget > 0:
                cand = cur[:i] + cur[i + chunk:]
                budget -= 1
                if cand != cur and still_fails(cand):
                    cur = cand
                    changed = True
                else:
                    i += chunk
            if not changed:
                chunk //= 2
        return cur

    def real_one(self, op, text):
        return self.real.run(["%s %s" % (op, hx(text))])[0] or "CRASH no output"

    def check_texts(self, texts, label, with_pretty=False):
        heavy = [t for t in texts if len(t) > 3000]
        if heavy and len(heavy) < len(texts):
            self.check_texts([t for t in texts if len(t) <= 3000], label, with_pretty)
            self.check_texts(heavy, label, False)
            return
        ctx = self.ctx
        st = self.stats
        ops = ("lex", "read", "parse") + (("pretty",) if with_pretty else ())
        reqs = []
        for t in texts:
            h = hx(t)
            for op in ops:
                reqs.append("%s %s" % (op, h))
        mreqs = []
        for t in texts:
            h = hx(t)
            mreqs += ["lex " + h, "read " + h]
        if heavy:
            # parsing a text nested 10^4 deep takes seconds: one child process per request, all in parallel
            real = C.pool_map(lambda rq: self.real.run([rq], batch=1)[0], reqs)
            model = C.pool_map(lambda rq: self.model.run([rq], batch=1)[0], mreqs)
        else:
            real = pool_run(self.real, reqs)
            model = pool_run(self.model, mreqs)
        for i, t in enumerate(texts):
            st["texts"] += 1
            st["distinct_texts"].add(t)
            rl = dict(zip(ops, real[i * len(ops):(i + 1) * len(ops)]))
            ml = {"lex": model[2 * i], "read": model[2 * i + 1]}
            for op in ops:
                st["text_ops"] += 1
                line = rl[op] or "CRASH no output"
                # (T) totality
                if line.startswith("panic") or line.startswith("CRASH") or "NONTERMINATION" in line:
                    self.classify_text_failure(label, op, t, line, ml, rl.get("lex") or "")
                    continue
                # (B) spans
                bad = span_violations(t, line)
                if bad:
                    self.violation(label + "-span", ["%s %s" % (op, hx(t))],
                                   "span %s outside the text or not on a character boundary (len %d)" % (bad[:3], len(t.encode())),
                                   "real: " + line[:400])
                    continue
            # statistics
            for k in re.findall(r" (?:E:)?([a-z-]+)[:@]", rl["lex"] or ""):
                st["token_kinds"][k] = st["token_kinds"].get(k, 0) + 1
            m = re.match(r"err (\S+?)(?::\S*)? ", rl["read"] or "")
            if m:
                st["error_kinds"][m.group(1)] = st["error_kinds"].get(m.group(1), 0) + 1
            if with_pretty and (rl.get("pretty") or "").startswith("ok"):
                st["pretty_total"] += 1
                # the printed program is itself reader input: a panic on it must be one of K12e's texts, reached
                # through K12j (an identifier such as `'` printed bare in front of a (quasiquote ..) form)
                for hexed in re.findall(r"=reparse-panic:([0-9a-f]*)", rl["pretty"]):
                    printed = unhx(hexed)
                    if "K12e" in self.open and "K12j" in self.open and quote_context_class(printed) and pretty_cause(rl["lex"] or ""):
                        self.known("K12e", "replay=%s reader panics on a printed program (identifier printed bare, K12j)" % PROPOSED["K12e"][1])
                    else:
                        self.violation(label + "-total", ["parse " + hexed],
                                       "the reader panicked on the text the AST printer produced for %r" % t[:80],
                                       "printed text: %r" % printed[:300])
                if "=diff" in rl["pretty"] or "=reparse" in rl["pretty"]:
                    st["pretty_diff"] += 1
                    if pretty_cause(rl["lex"] or ""):
                        st["pretty_diff_k12j"] = st.get("pretty_diff_k12j", 0) + 1
                        if "K12j" in self.open:
                            self.known("K12j", "replay=%s printed program does not parse back to the same tree" % PROPOSED["K12j"][1])
                    elif len(st["samples"]) < 12:
                        st["samples"].append({"pretty_not_inverse(other cause)": t[:120], "real": rl["pretty"][:200]})
                else:
                    st["pretty_same"] += 1
            # model comparison (classification only)
            if rl["lex"] and not rl["lex"].startswith(("panic", "CRASH")):
                if ml["lex"] is None or ml["lex"].startswith("CRASH"):
                    self.model_disagreement("lex " + hx(t), rl["lex"], ml["lex"])
                elif norm_model(ml["lex"]) == norm_zero(rl["lex"]):
                    st["lex_agree"] += 1
                else:
                    self.model_disagreement("lex " + hx(t), rl["lex"], norm_model(ml["lex"]))
            if rl["read"] and not rl["read"].startswith(("panic", "CRASH")):
                mr = ml["read"] or "CRASH"
                if mr.startswith("err unmodelled"):
                    st["read_unmodelled"] += 1
                elif same_modulo_other(norm_model(mr), norm_zero(re.sub(r"^err convert:\S+ ", "err convert ", rl["read"]))):
                    st["read_agree"] += 1
                else:
                    self.model_disagreement("read " + hx(t), rl["read"], norm_model(mr))

    def classify_text_failure(self, label, op, text, line, ml, real_lex=""):
        """the real reader failed on a text: known finding (class predicate and model prediction) or violation"""
        mread = (ml.get("read") or "")
        req = "%s %s" % (op, hx(text))
        if line.startswith("panic"):
            if "ParsingContext" in line and "K12e" in self.open and mread.startswith("err panic:assert"):
                return self.known("K12e", "replay=%s reader panics: %s" % (PROPOSED["K12e"][1], line[:120]))
            # the same panic also shows through the other entry points
            if op in ("parse", "pretty") and "ParsingContext" in line and "K12e" in self.open and quote_context_class(text):
                return self.known("K12e", "replay=%s reader panics: %s" % (PROPOSED["K12e"][1], line[:120]))

        def still(tx):
            l2 = self.real_one(op, tx)
            return l2.split(" ")[0] == line.split(" ")[0] and l2[:40] == line[:40]
        small = self.shrink_text(text, still) if len(text) <= 4000 and self.n_viol < 12 else text
        self.violation(label + "-total", ["%s %s" % (op, hx(small))],
                       "the reader failed instead of accepting or rejecting the text: " + line[:200],
                       "text: %r\nmodel read: %s\noriginal request: %s" % (small[:300], mread[:200], req[:400]))

    # ---- data -------------------------------------------------------------------------------------
    def check_data(self, data, label):
        st = self.stats
        reqs = ["roundtrip " + d for d in data]
        real = pool_run(self.real, reqs)
        model = pool_run(self.model, reqs)
        for d, rl, ml in zip(data, real, model):
            st["data"] += 1
            st["distinct_data"].add(d)
            tree, _ = parse_notation(d.split())
            feats = datum_features(tree)
            st["max_depth"] = max(st["max_depth"], feats["depth"])
            for k in feats["kinds"]:
                st["datum_kinds"][k] = st["datum_kinds"].get(k, 0) + 1
            rl = rl or "CRASH no output"
            ml = ml or "CRASH"
            if rl.startswith("panic") and feats["odd_symbol"] and ml.startswith("text="):
                # an unquoted symbol name (K12a) makes the written text one on which the reader panics (K12e)
                mback = dict(kv.split("=", 1) for kv in ml.split(" ")).get("back", "")
                if "ParsingContext" in rl and mback.startswith("err_panic:assert") and "K12e" in self.open and "K12a" in self.open:
                    self.known("K12e", "replay=%s reader panics: %s" % (PROPOSED["K12e"][1], rl[:100]))
                    continue
            if rl.startswith(("panic", "CRASH", "err", "bad")):
                self.violation(label + "-write", ["roundtrip " + d], "writing or reading back a datum failed: " + rl[:200])
                continue
            rf = dict(kv.split("=", 1) for kv in rl.split(" "))
            ok = rf["equal"] == "true"
            if ok:
                st["data_roundtrip_ok"] += 1
            if ml == "unmodelled":
                st["data_real_only"] += 1
                if not ok:
                    self.classify_data_failure(label, d, feats, rf, None)
                continue
            mf = dict(kv.split("=", 1) for kv in ml.split(" ")) if ml.startswith("text=") else {}
            agree = False
            # `(read port)` itself: the first datum of the text; the eof object when the text holds none or is
            # rejected by the parser; an error when the datum has no value (the `.` atom)
            if rf["first"] == "none" or (rf["first"].startswith("err_") and rf["first"] != "err_convert"):
                expected_back = [EOF_DUMP]
            elif rf["first"] == "err_convert":
                expected_back = ["E"]
            else:
                expected_back = [rf["first"]]
            if not (rf["back"] in expected_back or (expected_back == ["E"] and rf["back"].startswith("E"))):
                self.violation(label + "-readport", ["roundtrip " + d],
                               "(read port) returned %s but the first datum of the text is %s" % (rf["back"][:80], rf["first"][:80]))
                continue
            if mf:
                mback = norm_model(mf["back"])
                rcount = int(rf["count"])
                rdirect = norm_zero(re.sub(r"^err_convert:[0-9a-f]*_", "err_convert_", rf["direct"]))
                if mback.startswith("err_unmodelled"):
                    same_back = True
                    st["data_model_unmodelled"] = st.get("data_model_unmodelled", 0) + 1
                elif rcount < 0:
                    same_back = mback == rdirect
                elif rcount == 0:
                    same_back = mback == "ok_0"
                else:
                    n = len(rdirect.split("_"))
                    mtoks = mback.split("_")
                    same_back = mtoks[:2] == ["ok", str(rcount)] and same_modulo_other("_".join(mtoks[2:2 + n]), rdirect) \
                        and (rcount > 1 or len(mtoks) == 2 + n)
                agree = mf["text"] == rf["text"] and same_back and mf["equal"] == rf["equal"]
            if agree:
                st["data_model_agree"] += 1
            else:
                self.model_disagreement("roundtrip " + d, rl, ml)
            if not ok:
                self.classify_data_failure(label, d, feats, rf, agree)
            elif len(st["samples"]) < 6 and feats["nodes"] > 6:
                st["samples"].append({"datum": d[:200], "written": unhx(rf["text"])[:200], "roundtrip": "equal"})

    # ---- `|...|` identifiers ----------------------------------------------------------------------
    def check_bar_family(self, fam, r, quick):
        """(i) the identifiers as texts - alone, inside larger data, malformed - through check_texts (totality, spans,
        tokens vs model); (ii) on the real code alone: the identifier `|B|` names the characters the string "B" holds
        (the same escape reader serves both), so a symbol that loses or changes characters is a violation of the
        property whatever the model says"""
        st = self.stats
        texts = []
        for i, el in enumerate(fam):
            b = bar_text(el)
            texts.append(b)
            if i % 2 == 0:
                texts.append(embed_ident(r, b, bar_text(fam[(i * 7 + 1) % len(fam)])))
        for _ in range(150 if quick else 5000):
            b = gen_bar_ident(r, valid=False)
            texts.append(b if r.random() < 0.5 else embed_ident(r, b, gen_bar_ident(r)))
        self.check_texts(texts, "bar")
        reqs = []
        for el in fam:
            reqs += ["lex " + hx(bar_text(el)), "lex " + hx(str_text(el))]
        real = pool_run(self.real, reqs)
        for i, el in enumerate(fam):
            a, b = real[2 * i] or "CRASH", real[2 * i + 1] or "CRASH"
            st["bar_idents"] = st.get("bar_idents", 0) + 1
            if a.startswith(("panic", "CRASH")) or b.startswith(("panic", "CRASH")):
                if b.startswith(("panic", "CRASH")):
                    self.violation("bar-total", [reqs[2 * i + 1]], "the lexer failed on a string literal: " + b[:200])
                continue                     # the identifier's own failure is reported by check_texts above
            ma = re.match(r"^tokens id:([0-9a-f]*)@0-(\d+)$", a)
            mb = re.match(r"^tokens str:([0-9a-f]*)@0-(\d+)$", b)
            if not mb:
                self.model_disagreement(reqs[2 * i + 1], b, "generator: a valid string literal expected")
                continue
            if not ma:
                self.violation("bar-ident", [reqs[2 * i], reqs[2 * i + 1]],
                               "the characters %r are read as a string but not as an identifier between bars: %s" % (
                                   unhx(mb.group(1))[:60], a[:200]))
                continue
            if mb.group(1) == "" and el:
                # only line continuations: the lexer falls back to the raw slice (IdentBuffer empty) - modelled
                st["bar_raw_fallback"] = st.get("bar_raw_fallback", 0) + 1
                continue
            if ma.group(1) != mb.group(1):
                self.violation("bar-ident", [reqs[2 * i], reqs[2 * i + 1]],
                               "|B| names %r but the string \"B\" holds %r (B = %r)" % (
                                   unhx(ma.group(1))[:80], unhx(mb.group(1))[:80], bar_text(el)[1:-1][:80]))
                continue
            st["bar_same_as_string"] = st.get("bar_same_as_string", 0) + 1
            if el and "\\" in bar_text(el) and any(len(e[0].encode()) > 1 and not e[0].startswith("\\") for e in el):
                st["bar_multibyte_with_escape"] = st.get("bar_multibyte_with_escape", 0) + 1

    # ---- programs: Parser::parse and the AST printer ------------------------------------------------
    def check_programs(self, progs, label):
        """tie: the ExprKind trees and their Display text, real vs the model of the lowering / printer (Ast.lean);
        oracle on the real code alone: parse(pretty(ast)) = ast (`back=` is the dump of the re-parsed text)"""
        st = self.stats
        reqs = ["ast " + hx(t) for t in progs]
        real = pool_run(self.real, reqs)
        model = pool_run(self.model, reqs)
        for t, rq, rl, ml in zip(progs, reqs, real, model):
            st["programs"] = st.get("programs", 0) + 1
            rl = rl or "CRASH no output"
            ml = ml or "CRASH"
            if rl.startswith(("panic", "CRASH")):
                self.classify_text_failure(label, "ast", t, rl, {"read": ""}, "")
                continue
            bad = span_violations(t, rl) if rl.startswith("err") else []
            if bad:
                self.violation(label + "-span", [rq], "span %s outside the text" % bad[:3], "real: " + rl[:300])
                continue
            rm = re.match(r"ok (\d+) ast=(\S*) text=(\S*) back=(\S*)$", rl)
            mm = re.match(r"ok (\d+) ast=(\S*) text=(\S*)$", ml)
            # tie
            if ml == "unmodelled" or ml.startswith("err unmodelled"):
                st["programs_unmodelled"] = st.get("programs_unmodelled", 0) + 1
            elif rm and mm:
                if norm_model(mm.group(2)) == norm_zero(rm.group(2)) and mm.group(3) == rm.group(3) and mm.group(1) == rm.group(1):
                    st["programs_model_agree"] = st.get("programs_model_agree", 0) + 1
                    for tag in re.findall(r"(?:^|_)([IDFGQSLT])", rm.group(2)):
                        st.setdefault("ast_nodes", {})[tag] = st.setdefault("ast_nodes", {}).get(tag, 0) + 1
                else:
                    self.model_disagreement(rq, rl, ml)
            elif (rm is None) != (mm is None):
                self.model_disagreement(rq, rl, ml)
            else:
                st["programs_both_reject"] = st.get("programs_both_reject", 0) + 1
            # oracle
            if not rm:
                continue
            st["parse_pretty_programs"] = st.get("parse_pretty_programs", 0) + 1
            if rm.group(4) == "ok:%s:%s" % (rm.group(1), rm.group(2)):
                st["parse_pretty_programs_same"] = st.get("parse_pretty_programs_same", 0) + 1
                continue
            printed = unhx(rm.group(3))
            atoms = re.findall(r"a(id|str):([0-9a-f]*)", rm.group(2))
            k12j = any((kind == "str" and (b'"' in bytes.fromhex(h) or b"\\" in bytes.fromhex(h) or b"\n" in bytes.fromhex(h))) or
                       (kind == "id" and not symbol_is_plain(unhx(h)) and unhx(h) not in ("+", "-", "#%prim.void", "->v"))
                       for kind, h in atoms)
            if rm.group(4) == "panic":
                if "K12e" in self.open and "K12j" in self.open and quote_context_class(printed) and k12j:
                    self.known("K12e", "replay=%s reader panics on a printed program (identifier printed bare, K12j)" % PROPOSED["K12e"][1])
                else:
                    self.violation(label + "-total", ["parse " + rm.group(3)], "the reader panicked on the text the AST printer produced for %r" % t[:80])
            elif k12j and "K12j" in self.open:
                self.known("K12j", "replay=%s printed program does not parse back to the same tree" % PROPOSED["K12j"][1])
            elif re.search(r"(^|_)F\d+r", rm.group(2)) or "aid:232323" in rm.group(2):
                # rest arguments are printed like fixed ones / named let introduces the unreadable identifier ###0
                st["parse_pretty_rest_or_named_let"] = st.get("parse_pretty_rest_or_named_let", 0) + 1
                if "K12o" in self.open:
                    self.known("K12o", "replay=%s the AST printer drops the rest-argument marker" % PROPOSED["K12o"][1])
                else:
                    # not listed (any more): a failing input of the property
                    self.violation(label + "-parse-pretty", ["ast " + hx(t)],
                                   "parse(pretty(ast)) is not ast: the AST printer drops the rest-argument marker / prints a fresh identifier: %r -> %r" % (t[:60], printed[:60]))
            else:
                self.violation(label + "-parse-pretty", [rq], "parse(pretty(ast)) differs from ast: %r is printed %r" % (t[:80], printed[:80]),
                               "ast : %s\nback: %s" % (rm.group(2)[:300], rm.group(4)[:300]))

    # ---- print: the writer that quotes symbols -----------------------------------------------------
    def check_print(self, data, label):
        """(R) for `(print d)`: the text is `'d`, so `(read)` of it must give `(quote d)`"""
        st = self.stats
        reqs = ["printrt " + d for d in data]
        real = pool_run(self.real, reqs)
        model = pool_run(self.model, reqs)
        for d, rl, ml in zip(data, real, model):
            st["print_data"] = st.get("print_data", 0) + 1
            rl = rl or "CRASH no output"
            ml = ml or "CRASH"
            if rl.startswith(("panic", "CRASH", "err", "bad")):
                self.violation(label + "-print", ["printrt " + d], "printing or reading back a datum failed: " + rl[:200])
                continue
            rf = dict(kv.split("=", 1) for kv in rl.split(" "))
            mf = dict(kv.split("=", 1) for kv in ml.split(" ")) if ml.startswith("text=") else {}
            agree = bool(mf) and mf["text"] == rf["text"] and mf["equal"] == rf["equal"] and (
                mf["back"] == "ok_1_" + rf["direct"] if rf["count"] == "1" else not mf["back"].startswith("ok_1_"))
            if agree:
                st["print_model_agree"] = st.get("print_model_agree", 0) + 1
            else:
                self.model_disagreement("printrt " + d, rl, ml)
            if rf["equal"] == "true":
                st["print_roundtrip_ok"] = st.get("print_roundtrip_ok", 0) + 1
                if "7c" in rf["text"]:
                    st["print_with_bars"] = st.get("print_with_bars", 0) + 1
                continue
            names = [unhx(t[1:]) for t in d.split() if t.startswith("y")]
            if agree and any("\\" in n for n in names) and "K12m" in self.open:
                self.known("K12m", "replay=%s print does not escape a backslash inside |..|" % PROPOSED["K12m"][1])
                continue
            self.violation(label + "-print-roundtrip", ["printrt " + d],
                           "read(print d) is not (quote d): text %r reads back as %s" % (unhx(rf["text"])[:80], rf["back"][:80]),
                           "model agrees with the real code: %s" % agree)

    def classify_data_failure(self, label, d, feats, rf, agree):
        """real read(write d) is not equal? d"""
        text = unhx(rf["text"])
        why = "text %r reads back as %s" % (text[:80], rf["back"][:80])
        if agree:
            if feats["depth"] > 128 and "K12d" in self.open and "..." in text:
                return self.known("K12d", "replay=%s %s" % (PROPOSED["K12d"][1], "datum of depth %d written with `...`" % feats["depth"]))
            if feats["odd_symbol"] and "K12a" in self.open:
                return self.known("K12a", "replay=%s %s" % (PROPOSED["K12a"][1], "a symbol is written without quoting"))
            if feats["aliased"] and "K12b" in self.open:
                return self.known("K12b", "replay=%s %s" % (PROPOSED["K12b"][1], "defn/fn/λ/#%define/#%plain-lambda read back as define/lambda"))
            if feats["qq_head"] and "K12c" in self.open:
                return self.known("K12c", "replay=%s %s" % (PROPOSED["K12c"][1], "(unquote ..) renamed to (#%unquote ..) by the reader"))
        small = self.shrink_datum(d) if self.n_viol < 12 else d
        self.violation(label + "-roundtrip", ["roundtrip " + small],
                       "read(write d) is not equal? to d: " + why,
                       "original: roundtrip %s\nmodel agrees with the real code: %s" % (d[:400], agree))

    def shrink_datum(self, d):
        def fails(x):
            l = self.real.run(["roundtrip " + x])[0] or ""
            return " equal=false" in l
        tree, _ = parse_notation(d.split())

        def show(t):
            tag, body = t
            if tag in "LV":
                return " ".join(["%s%d" % (tag, len(body))] + [show(x) for x in body])
            if tag == "P":
                return "P " + show(body[0]) + " " + show(body[1])
            return tag + body
        budget = [40]

        def go(t):
            tag, body = t
            if tag in "LVP":
                for x in body:
                    if budget[0] > 0:
                        budget[0] -= 1
                        if fails(show(x)):
                            return go(x)
            return t
        return show(go(tree))


def pretty_cause(real_lex):
    """class predicate of K12j on the real token stream"""
    for tok in real_lex.split()[1:]:
        kind, _, rest = tok.partition(":")
        payload = rest.split("@")[0]
        try:
            if kind == "str" and (b'"' in bytes.fromhex(payload) or b"\\" in bytes.fromhex(payload)):
                return True
            if kind == "id" and not symbol_is_plain(bytes.fromhex(payload).decode("utf-8", "replace")):
                return True
        except ValueError:
            pass
    return False


def quote_context_class(text):
    return re.search(r"['`,]@?\s*[(\[]\s*(quasiquote|unquote|unquote-splicing|quote)\b", text) is not None


def load_corpus():
    cdir = os.path.join(C.VERIF, "corpus", "C12")
    items = []
    if os.path.isdir(cdir):
        for fn in sorted(os.listdir(cdir)):
            for l in open(os.path.join(cdir, fn), encoding="utf-8"):
                l = l.rstrip("\n")
                if l.strip() and not l.startswith("#"):
                    items.append((fn, l))
    return items


def scheme_sources(limit_files, limit_bytes):
    """text of /repo's own Scheme files: valid programs for the prefix / mutation streams"""
    out = []
    roots = [os.path.join(C.REPO, "crates/steel-core/src/scheme"), os.path.join(C.REPO, "crates/steel-core/src/tests/success"),
             os.path.join(C.REPO, "cogs")]
    for root in roots:
        for d, _, files in os.walk(root):
            for fn in sorted(files):
                if fn.endswith((".scm", ".rkt")):
                    try:
                        s = open(os.path.join(d, fn), encoding="utf-8").read()
                    except (OSError, UnicodeDecodeError):
                        continue
                    if 0 < len(s) <= limit_bytes:
                        out.append(s)
                    if len(out) >= limit_files:
                        return out
    return out


def run(ctx):
    t0 = time.time()
    # translate (needs the harness binary: the table is the toolchain's, extracted by running it)
    ok, log = C.build_harness(ctx, ["c12"])
    if not ok:
        ctx.violation("C12-harness-build.txt", "the harness no longer builds against /repo:\n" + log, no_input=True)
        ctx.coverage = {"obligations": 0, "discharged": 0, "checker_cmd": "lake build SteelVerif.C12.Props",
                        "trusted_base": C.TRUSTED_BASE}
        return ctx.finish()
    rc, tout = C.sh(["python3", os.path.join(C.VERIF, "translate", "c12_unicode.py"), C.bin_path("c12"),
                     os.path.join(C.LEAN, "SteelVerif", "C12", "GenUnicode.lean")], timeout=300)
    ctx.log(tout.strip())
    if rc != 0:
        ctx.violation("C12-translator.txt", "translate/c12_unicode.py failed:\n" + tout, no_input=True)
    pr = C.prove(ctx, "C12", ["c12driver"])
    if not os.path.exists(C.driver_path("c12driver")):
        ctx.violation("C12-driver-build.txt", pr["log"][-3000:], no_input=True)
        ctx.coverage = {"obligations": pr["obligations"], "discharged": pr["discharged"],
                        "checker_cmd": "lake build SteelVerif.C12.Props", "trusted_base": C.TRUSTED_BASE}
        return ctx.finish()
    ck = Check(ctx)
    ctx.log("open findings listed in KNOWN_FINDINGS.txt: " + (", ".join(sorted(ck.open)) or "none"))
    # is_whitespace of the model == Rust's
    rc, ws_model, _ = C.run_bin([C.driver_path("c12driver"), "wstable"], "", timeout=120)
    rc2, uni, _ = C.run_bin([C.bin_path("c12"), "unitable"], "", timeout=120)
    ws_real = []
    for l in uni.splitlines():
        a, b, cls = l.split()
        if "w" in cls[2:] or cls.endswith("w") or cls.endswith("wd"):
            if ws_real and int(ws_real[-1][1], 16) + 1 == int(a, 16):
                ws_real[-1] = (ws_real[-1][0], b)
            else:
                ws_real.append((a, b))
    if [tuple(l.split()) for l in ws_model.splitlines()] != ws_real:
        ctx.violation("C12-whitespace-table.txt", "char::is_whitespace differs from the model's isWs\nreal: %s\nmodel: %s\n"
                      % (ws_real, ws_model), no_input=True)

    r = random.Random(ctx.seed * 7919 + 12)
    quick = ctx.quick()
    # 1. corpus
    corpus = load_corpus()
    ctexts, cdata, cevals, cprint = [], [], [], []
    for fn, l in corpus:
        op, _, arg = l.partition(" ")
        if op == "text":
            ctexts.append(bytes.fromhex(arg).decode("utf-8"))
        elif op == "lit":
            ctexts.append(arg)
        elif op == "roundtrip":
            cdata.append(arg)
        elif op == "eval":
            cevals.append(arg)
        elif op == "printrt":
            cprint.append(arg)
    if ctexts:
        ck.check_texts(ctexts, "corpus", with_pretty=True)
    if cdata:
        ck.check_data(cdata, "corpus")
    if cprint:
        ck.check_print(cprint, "corpus")
    for src in cevals:
        line = ck.real.run(["eval " + hx(src)])[0] or "CRASH"
        if line.startswith(("panic", "CRASH")):
            ck.violation("corpus-eval", ["eval " + hx(src)], "evaluating %r failed: %s" % (src, line[:200]))
    ctx.log("corpus: %d texts, %d data, %d programs" % (len(ctexts), len(cdata), len(cevals)))

    # 2. generated texts
    n_text = int(os.environ.get("C12_TEXTS", 3000 if quick else 500000))
    texts = directed_texts()
    srcs = scheme_sources(40 if quick else 400, 30000)
    valid = []
    for _ in range(200 if quick else 4000):
        valid.append(" ".join(gen_balanced(r) for _ in range(r.randrange(1, 4))))
    texts += valid
    texts += srcs[: (10 if quick else 200)]
    # every prefix of valid inputs
    pref_src = valid[: (25 if quick else 600)] + [s[:400] for s in srcs[: (3 if quick else 60)]]
    pre = []
    for s in pref_src:
        for i in range(len(s)):
            pre.append(s[:i])
    ck.stats["prefixes"] = len(pre)
    texts += pre
    budget = max(0, n_text - len(texts))
    for i in range(budget):
        k = i % 10
        if k < 3:
            texts.append(gen_random_text(r))
        elif k < 7:
            texts.append(gen_token_text(r))
        elif k < 9:
            base = r.choice(valid) if r.random() < 0.7 or not srcs else r.choice(srcs)[:600]
            for _ in range(r.randrange(1, 4)):
                base = mutate(r, base)
            texts.append(base)
        else:
            texts.append(" ".join(gen_balanced(r) for _ in range(r.randrange(1, 3))))
    # a `#!` first line in front of a share of the texts (2 in 25)
    for i in range(len(texts)):
        if i % 25 in (7, 19) and len(texts[i]) < 3000:
            texts[i] = gen_shebang(r) + texts[i]
    ctx.log("texts: %d (of which %d prefixes, %d from /repo)" % (len(texts), len(pre), len(srcs)))
    step = 20000
    for i in range(0, len(texts), step):
        ck.check_texts(texts[i:i + step], "text", with_pretty=(i == 0))
        if ck.n_viol > 12:
            break
    ctx.log("texts done: lex agree %d/%d, read agree %d (+%d unmodelled) [%.0fs]" % (
        ck.stats["lex_agree"], ck.stats["texts"], ck.stats["read_agree"], ck.stats["read_unmodelled"], time.time() - t0))

    # 2b. `|...|` identifiers: every mix of characters of all byte lengths and escapes at every position
    fam = bar_family(r, quick)
    ck.check_bar_family(fam, r, quick)
    ctx.log("bar identifiers: %d, same characters as the string literal on %d (%d with a multi-byte character and an escape) [%.0fs]" % (
        ck.stats.get("bar_idents", 0), ck.stats.get("bar_same_as_string", 0), ck.stats.get("bar_multibyte_with_escape", 0),
        time.time() - t0))

    # 2c. programs of the fragment of the AST model: Parser::parse + Display, real vs model; parse(pretty(ast)) = ast
    progs = [gen_program(r) for _ in range(700 if quick else 60000)] + [gen_program(r, odd=True) for _ in range(150 if quick else 8000)]
    ck.check_programs(progs, "prog")
    ctx.log("programs: %d, trees and printed text agree with the model on %d (+%d unmodelled, %d rejected by both); parse(pretty(ast)) = ast on %d of %d [%.0fs]" % (
        ck.stats.get("programs", 0), ck.stats.get("programs_model_agree", 0), ck.stats.get("programs_unmodelled", 0),
        ck.stats.get("programs_both_reject", 0), ck.stats.get("parse_pretty_programs_same", 0), ck.stats.get("parse_pretty_programs", 0),
        time.time() - t0))

    # 3. generated data
    n_data = int(os.environ.get("C12_DATA", 2000 if quick else 200000))
    maxd = 6 if quick else 40
    data = []
    for i in range(n_data):
        k = i % 10
        depth = r.randrange(0, maxd + 1)
        if k < 6:
            data.append(gen_datum(r, min(depth, 6 if quick else 9)))
        elif k == 6:
            data.append(gen_datum(r, min(depth, 5), floats=True, plain=True))
        elif k == 7:
            data.append(gen_datum(r, min(depth, 5), heads=True))
        elif k == 8:
            data.append(gen_chain(r, depth))
        else:
            data.append(gen_atom(r, False))
    # the writer's depth limit (class of K12d): chains around 128, in both tiers
    data += [gen_chain(r, dd, nest_only=True) for dd in (120, 126, 127, 128, 129, 140)]
    # wide data: hundreds of empty / tiny containers in one datum (every kind homogeneously, then mixed)
    data += [gen_wide(r, k) for k in range(len(WIDE_ITEMS) + (6 if quick else 300))]
    for i in range(0, len(data), step):
        ck.check_data(data[i:i + step], "data")
        if ck.n_viol > 12:
            break
    # 3b. symbols with arbitrary names through the writer that quotes them (`print`), read back
    pdata = [gen_print_datum(r) for _ in range(600 if quick else 40000)]
    # names with backslashes: finding K12m (print did not escape them), repaired by /repo e9628a79 - always generated, a
    # failure is a VIOLATION unless K12m is listed open again
    pdata += [gen_print_datum(r, backslash=True) for _ in range(40 if quick else 2000)]
    ck.check_print(pdata, "data")
    st = ck.stats
    ctx.log("print round trips: %d, hold on %d (%d with |..| in the text), model agrees on %d" % (
        st.get("print_data", 0), st.get("print_roundtrip_ok", 0), st.get("print_with_bars", 0), st.get("print_model_agree", 0)))
    ctx.log("data done: %d, round trip holds on %d, model agrees on %d (+%d real-only) [%.0fs]" % (
        st["data"], st["data_roundtrip_ok"], st["data_model_agree"], st["data_real_only"], time.time() - t0))

    # 4. the leftover-text defect of the shared reader (K12i) is exercised by its replay only
    if "K12i" in ck.open:
        src = '(list (read (open-input-string "1 2")) (read (open-input-string "3")))'
        line = ck.real.run(["eval " + hx(src)])[0] or "CRASH"
        if line == "ok L2 i1 i2":
            ck.known("K12i", "replay=%s (read p1) left `2` in the shared reader; (read p2) returned it instead of 3" % PROPOSED["K12i"][1])
        elif line != "ok L2 i1 i3":
            ck.violation("reader-state", ["eval " + hx(src)], "unexpected result " + line[:200])

    # 4b. `_` in digit strings (K12n): the reader makes a symbol of `1_0` (checked above, tokens vs model, and by the
    # symbol round trips); string->number must not make a number of it
    src = '(list (string->number "1_0") (string->number "1_000/3") (symbol? (read (open-input-string "1_0"))))'
    line = ck.real.run(["eval " + hx(src)])[0] or "CRASH"
    if line == "ok L3 i10 r1000/3 t":
        if "K12n" in ck.open:
            ck.known("K12n", "replay=%s (string->number \"1_0\") => 10 while (read) of 1_0 is a symbol" % PROPOSED["K12n"][1])
        else:
            ctx.notes.append("string->number accepts `_` between digits (proposed finding K12n, not listed): " + line)
    elif line != "ok L3 f f t":
        ck.violation("strnum-underscore", ["eval " + hx(src)], "unexpected result " + line[:200])

    # 5. native recursion of the reader (K12l): one probe far beyond the depth the check requires (10^4)
    deep = "'" * 100000 + "a"
    line = Runner([C.bin_path("c12")], per_line_timeout=60.0).run(["parse " + hx(deep)])[0] or "CRASH"
    if line.startswith("CRASH"):
        if "K12l" in ck.open:
            ck.known("K12l", "replay=%s 10^5 nested quote shorthands: %s" % (PROPOSED["K12l"][1], line[:80]))
        else:
            ck.violation("deep", ["parse " + hx(deep)], "the reader died on 10^5 nested quote shorthands: " + line[:120])
    elif line.startswith("panic"):
        ck.violation("deep", ["parse " + hx(deep)], "the reader panicked on 10^5 nested quote shorthands: " + line[:120])

    # decide
    if not pr["ok"] and not ctx.violations:
        body = "proof obligations of SteelVerif.C12.Props that no longer check:\n" + "\n".join(
            "%s: %s" % f for f in pr["failed"]) + "\n"
        ctx.violation("C12-proof-broken.txt", body, no_input=True)
    dis = st["model_disagreements"]
    with open(os.path.join(ctx.scratch, "disagreements.txt"), "w") as f:
        for rq, a, b in dis:
            f.write("%s\n  real : %s\n  model: %s\n" % (rq, a, b))
    if dis and not ctx.violations:
        rq, a, b = dis[0]
        ctx.violation("C12-model-mismatch.txt",
                      "# correspondence SteelVerif.C12 model <-> crates/steel-parser no longer holds (%d requests disagree);\n"
                      "# no violation of the property exhibited\n%s\n# real : %s\n# model: %s\n" % (len(dis), rq, (a or "")[:600], (b or "")[:600]),
                      no_input=True)
    elif dis:
        ctx.notes.append("%d model/real disagreements (first: %s)" % (len(dis), dis[0][0][:200]))

    nontrivial_texts = sum(1 for t in st["distinct_texts"] if len(t) >= 3)
    ctx.coverage = {
        "obligations": pr["obligations"],
        "discharged": pr["discharged"],
        "checker_cmd": "cd lean && lake build SteelVerif.C12.Props && lake env lean SteelVerif/C12/Audit.lean",
        "trusted_base": C.TRUSTED_BASE + [
            "translate/c12_unicode.py + harness `unitable`: the escape table of Rust's formatter (regenerated every run)",
            "Python float() as the reference for decimal -> f64 when comparing float tokens",
        ],
        "evaluations": st["text_ops"] + st["data"],
        "distinct_nontrivial": nontrivial_texts + len(st["distinct_data"]),
        "rule": "texts = directed list + grammar-directed token sequences + mostly-valid S-expressions + every prefix of "
                "valid ones + mutations of /repo's Scheme sources + random Unicode (PRNG seeded by VERIF_SEED); "
                "non-trivial text = at least 3 characters, distinct = different strings; data = structurally generated "
                "(all kinds, strings/symbols/characters with arbitrary code points), distinct = different notation",
        "samples": st["samples"][:10],
        "texts": st["texts"],
        "text_requests_on_real_code": st["text_ops"],
        "prefix_texts": st["prefixes"],
        "lex_lines_agreeing_with_model": st["lex_agree"],
        "read_lines_agreeing_with_model": st["read_agree"],
        "read_lines_unmodelled": st["read_unmodelled"],
        "data": st["data"],
        "data_roundtrip_equal_on_real_code": st["data_roundtrip_ok"],
        "data_where_model_predicts_real_exactly": st["data_model_agree"],
        "data_checked_on_real_code_only(inexact numbers)": st["data_real_only"],
        "max_datum_depth": st["max_depth"],
        "programs": st.get("programs", 0),
        "programs_where_model_predicts_trees_and_printed_text": st.get("programs_model_agree", 0),
        "programs_unmodelled": st.get("programs_unmodelled", 0),
        "programs_rejected_by_both": st.get("programs_both_reject", 0),
        "ast_nodes_compared": st.get("ast_nodes", {}),
        "parse_pretty_programs_checked_on_real_code": st.get("parse_pretty_programs", 0),
        "parse_pretty_programs_same": st.get("parse_pretty_programs_same", 0),
        "bar_identifiers": st.get("bar_idents", 0),
        "bar_identifiers_same_characters_as_string_literal": st.get("bar_same_as_string", 0),
        "bar_identifiers_multibyte_before_or_after_escape": st.get("bar_multibyte_with_escape", 0),
        "bar_identifiers_raw_slice_fallback": st.get("bar_raw_fallback", 0),
        "print_roundtrips": st.get("print_data", 0),
        "print_roundtrips_equal_on_real_code": st.get("print_roundtrip_ok", 0),
        "print_roundtrips_with_bar_quoted_symbol": st.get("print_with_bars", 0),
        "print_where_model_predicts_real_exactly": st.get("print_model_agree", 0),
        "parse_pretty_checked": st["pretty_total"],
        "parse_pretty_same": st["pretty_same"],
        "parse_pretty_different": st["pretty_diff"],
        "parse_pretty_different_with_K12j_cause": st.get("pretty_diff_k12j", 0),
        "token_kinds_seen": st["token_kinds"],
        "read_error_kinds_seen": st["error_kinds"],
        "datum_constructors_seen": st["datum_kinds"],
        "known_finding_hits": st["known_hits"],
        "model_disagreements": len(dis),
        "axioms": pr.get("axioms", {}),
        "proof_failures": ["%s: %s" % f for f in pr["failed"]],
    }
    ctx.assumptions = ["text is valid UTF-8 (the Rust API takes &str)", "floats outside the theorems",
                       "nesting depth of written data <= 128 (writer limit) in the theorem"]
    return ctx.finish("proof")


def replay(ctx, path):
    C.build_harness(ctx, ["c12"])
    lines = [l.rstrip("\n") for l in open(path, encoding="utf-8") if l.strip() and not l.startswith("#")]
    real = Runner([C.bin_path("c12")]).run(lines)
    model = Runner([C.driver_path("c12driver")]).run(lines)
    for l, a, b in zip(lines, real, model):
        print(">>> " + l[:300])
        op, _, arg = l.partition(" ")
        if op in ("lex", "read", "parse", "pretty", "eval"):
            try:
                print("    text : %r" % bytes.fromhex(arg).decode("utf-8", errors="replace")[:300])
            except ValueError:
                pass
        print("    real : " + (a or "<none>")[:1000])
        print("    model: " + (norm_model(b) if b else "<none>")[:1000])
    return 0
