"""C06 — earlier definitions keep their meaning across any evaluation history.

translate  : translate/c06_scan.py regenerates lean/SteelVerif/C06/GenScan.lean (the op codes the slot
             recycler scans) from crates/steel-core/src/values/closed.rs.
prove      : lake build SteelVerif.C06.Props (+ axiom audit): scan list covers every global-indexing op
             code, SymbolMap add/get/roll_back laws, the recycler never frees a slot that a surviving
             global's value mentions.
correspond : (unit) random add/get/rollback/free sequences on the real `SymbolMap` vs the model, exact
             state comparison; (history) generated evaluation histories on one real `Engine` (crossing the
             recycling threshold) vs the specification S (binding cells) and the mechanism model M.
oracle     : S.  A real≠S difference is a violation unless it falls in the class of an open finding.
"""
import os
import random
import re

from . import common as C

PID = "C06"
META = {
    "ready": True,
    "category": "proof",
    "technique": "Lean 4 theorems about the symbol-map / slot-recycler model (roll-back restores, recycler closure, scan-list coverage from a regenerated table) + differential histories real Engine vs specification",
    "level_text": "Proved for all inputs (SteelVerif/C06/Props.lean): the recycler's scan list (regenerated from closed.rs on every run) covers every op code that indexes the global vector; SymbolMap.get after add; roll_back after any sequence of definitions (incl. repeated names) restores map, values, shadow list and free list when no recycled slot was reused (Rollback.lean: rollback_restores_partial for every well-formed map, reachable_wf / rollback_restores_reachable for every state built by add / roll_back; the unguarded statement is proved false — not_rollbackRestores, the witness is finding K06c); the recycler's fixed point never frees a slot mentioned by the value of any surviving slot (so freed slots are unreachable from live code). The refinement of whole evaluation histories (slots refine binding cells) is NOT proved; it is checked by running generated histories (define / redefine / set! / calls / compile-time and run-time failures, enough redefinitions to trigger slot recycling) on one real Engine against the executable specification S, and the real SymbolMap against the model on random unit-level operation sequences.",
    "level_note": "Trusted: Lean kernel, the translator regexes, harness/driver/comparison. Hand list of global-indexing op codes (those the compiler emits in the jit2 configuration). History-level refinement and the compiler's choice of op codes rest on the differential run only.",
}

VARS = ["v%d" % i for i in range(8)]
FNS = ["f%d" % i for i in range(8)]
SETTERS = ["s%d" % i for i in range(3)]
NATIVES = {0: "+", 1: "*"}          # built-in procedures that accept no operands: (+) = 0, (*) = 1
PRIMS = ["p%d" % i for i in range(3)]


def to_steel(form):
    t = form.split()
    k = t[0]
    if k == "defc":
        return "(define %s %s)" % (t[1], t[2])
    if k == "deff":
        parts = []
        for r in t[2:]:
            n, kind = r.split(":")
            parts.append(n if kind == "r" else "(%s)" % n)
        return "(define (%s) (list %s))" % (t[1], " ".join(parts))
    if k == "defw":
        # the same observable behaviour as `deff f t:c`, but the reference to t lives in a CAPTURED closure of an instance
        # of one shared lambda expression (instances share the function id and differ in their captures)
        return "(define %s (c06wrap (lambda () (%s))))" % (t[1], t[2])
    if k == "wrapdef":
        return "(define (c06wrap f) (lambda () (list (f))))"
    if k == "defs":
        return "(define (%s v) (set! %s v) 0)" % (t[1], t[2])
    if k == "set":
        return "(begin (set! %s %s) 0)" % (t[1], t[2])
    if k == "defn":
        return "(define %s %s)" % (t[1], NATIVES[int(t[2])])
    if k == "setn":
        return "(begin (set! %s %s) 0)" % (t[1], NATIVES[int(t[2])])
    if k == "call":
        return "(%s)" % t[1]
    if k == "calls":
        return "(%s %s)" % (t[1], t[2])
    if k == "read":
        return t[1]
    if k == "fail":
        return "(undefined-zzz-fn 1)"
    if k == "rfail":
        return '(error "boom")'
    raise ValueError(form)


def gen_history(rng, npieces, stream):
    """Returns list of pieces (each a list of abstract forms).  `stream`: 'main' avoids the classes of
    the open findings; 'k06a' / 'k06b' deliberately produce them."""
    kind = {}          # name -> 'var' | 'fn' | 'setter'
    counter = [100]
    pieces = [["wrapdef"]]

    def fresh():
        counter[0] += 1
        return counter[0]

    def defined(k):
        return [n for n, kk in kind.items() if kk == k]

    for i in range(npieces):
        r = rng.random()
        piece = []
        if r < 0.30 or not defined("var"):
            v = rng.choice(VARS)
            if kind.get(v, "var") == "var":
                piece.append("defc %s %d" % (v, fresh()))
                kind[v] = "var"
        elif r < 0.50:
            f = rng.choice(FNS)
            if kind.get(f, "fn") == "fn":
                cands = defined("var") + [g for g in defined("fn") if g != f] + defined("prim")
                refs = rng.sample(cands, min(len(cands), rng.randint(1, 3)))
                callable_ = [n for n in refs if kind[n] != "var"]
                if callable_ and rng.random() < 0.35:
                    piece.append("defw %s %s" % (f, callable_[0]))
                else:
                    piece.append("deff %s %s" % (f, " ".join("%s:%s" % (n, "r" if kind[n] == "var" else "c") for n in refs)))
                kind[f] = "fn"
        elif r < 0.53:
            # a global that holds a built-in procedure; functions call it, later pieces assign it
            pn = rng.choice(PRIMS)
            if kind.get(pn, "prim") == "prim":
                if pn in kind and rng.random() < 0.6:
                    piece.append("setn %s %d" % (pn, rng.randint(0, 1)))
                else:
                    piece.append("defn %s %d" % (pn, rng.randint(0, 1)))
                    kind[pn] = "prim"
        elif r < 0.56 and defined("var"):
            s = rng.choice(SETTERS)
            piece.append("defs %s %s" % (s, rng.choice(defined("var"))))
            kind[s] = "setter"
        elif r < 0.64 and defined("var"):
            piece.append("set %s %d" % (rng.choice(defined("var")), fresh()))
        elif r < 0.70 and defined("setter"):
            piece.append("calls %s %d" % (rng.choice(defined("setter")), fresh()))
        elif r < 0.76 and defined("var"):
            # failing build after a redefinition: must change nothing
            v = rng.choice(defined("var"))
            piece.append("defc %s %d" % (v, fresh()))
            if rng.random() < 0.4:
                piece.append("defc %s %d" % (v, fresh()))      # the same name twice
            piece.append("fail")
        elif r < 0.80 and defined("var"):
            piece.append("set %s %d" % (rng.choice(defined("var")), fresh()))
            piece.append("rfail")
            if stream == "k06b" and rng.random() < 0.5:
                piece.append("defc %s %d" % (rng.choice(defined("var")), fresh()))
        else:
            # churn: push the number of shadowed slots over the recycling threshold
            for _ in range(rng.randint(3, 9)):
                piece.append("defc junk %d" % fresh())
                pieces.append(piece)
                piece = []
            kind["junk"] = "junkvar"
        if piece:
            pieces.append(piece)
        if stream == "k06a" and rng.random() < 0.08:
            v, f = rng.choice(VARS), rng.choice(FNS)
            if kind.get(v, "var") == "var" and kind.get(f, "fn") == "fn":
                pieces.append(["defc %s %d" % (v, fresh()), "deff %s %s:r" % (f, v)])
                kind[v], kind[f] = "var", "fn"
                pieces.append(["set %s %d" % (v, fresh())])
        if i % 7 == 6:
            obs = ["call %s" % f for f in defined("fn") + defined("prim")] + ["read %s" % v for v in defined("var")]
            if obs:
                pieces.append(obs)
    obs = ["call %s" % f for f in defined("fn") + defined("prim")] + ["read %s" % v for v in defined("var")]
    if obs:
        pieces.append(obs)
    return pieces


def gen_chain_history(rng, depth, churn):
    """Directed family: a live procedure reaches, through `depth` procedures that have all been redefined
    since (so their slots are shadowed), an old binding; then enough shadowing to make the recycler run, then
    new definitions that take whatever slots were freed.  The old chain must keep its meaning."""
    counter = [1000]

    def fresh():
        counter[0] += 1
        return counter[0]

    pieces = [["wrapdef"], ["defc v0 %d" % fresh()], ["deff c0 v0:r"]]
    for i in range(1, depth + 1):
        refs = ["c%d:c" % (i - 1)]
        if i >= 2 and rng.random() < 0.3:
            refs.append("c%d:c" % rng.randrange(i - 1))        # extra edges: the graph is not always a path
        if len(refs) == 1 and rng.random() < 0.5:
            pieces.append(["defw c%d c%d" % (i, i - 1)])        # the link lives in a captured closure
        else:
            pieces.append(["deff c%d %s" % (i, " ".join(refs))])
    pieces.append(["deff top c%d:c" % depth])
    pieces.append(["call top"])
    order = list(range(depth + 1))
    rng.shuffle(order)
    for i in order:                                             # every link of the chain is now shadowed
        pieces.append(["deff c%d v0:r" % i] if rng.random() < 0.7 else ["defc c%d %d" % (i, fresh())])
    for _ in range(churn):
        pieces.append(["defc junk %d" % fresh()])
        if rng.random() < 0.05:
            pieces.append(["call top"])
    for i in range(2 * depth + 12):
        pieces.append(["deff w%d v0:r" % i] if rng.random() < 0.5 else ["defc w%d %d" % (i, fresh())])
    pieces.append(["call top", "read v0"])
    for _ in range(churn // 2):
        pieces.append(["defc junk %d" % fresh()])
    for i in range(depth + 6):
        pieces.append(["defc x%d %d" % (i, fresh())])
    pieces.append(["call top"] + ["call w%d" % i for i in range(3) if False])
    return pieces


def in_k06a_class(pieces, idx):
    """A global defined in a unit together with a function reading it, assigned by a later unit."""
    same_unit = set()
    for p in pieces[: idx + 1]:
        defs = {f.split()[1] for f in p if f.split()[0] == "defc"}
        for f in p:
            t = f.split()
            if t[0] == "deff":
                for r in t[2:]:
                    if r.split(":")[0] in defs:
                        same_unit.add(r.split(":")[0])
    assigned = set()
    setters = {}
    for p in pieces[: idx + 1]:
        for f in p:
            t = f.split()
            if t[0] == "set":
                assigned.add(t[1])
            if t[0] == "defs":
                setters[t[1]] = t[2]
            if t[0] == "calls" and t[1] in setters:
                assigned.add(setters[t[1]])
    return bool(same_unit & assigned)


def in_k06b_class(pieces, idx):
    """A unit that fails at run time contained a definition (after the failing form) of a name that was
    already defined."""
    seen = set()
    for p in pieces[: idx + 1]:
        forms = [f.split() for f in p]
        if any(t[0] == "rfail" for t in forms):
            after = False
            for t in forms:
                if t[0] == "rfail":
                    after = True
                elif after and t[0] in ("defc", "deff", "defs", "defw") and t[1] in seen:
                    return True
        for t in forms:
            if t[0] in ("defc", "deff", "defs", "defw"):
                seen.add(t[1])
    return False


def run_histories(ctx, histories, label, stats, known):
    drv = C.driver_path("c06driver")
    # One harness process serves at most 24 histories (= 24 engines), in parallel processes: an engine never gives
    # its JIT code memory back, and after ~160 engines in one process the next JIT compilation panics ("unable to make
    # memory readable+executable") - a resource leak of the engine (reported under C07), not a C06 matter.
    # the harness prints the `init` line of the NEXT engine after every `reset`: drop what follows a batch's last reset
    def upto_last_reset(text):
        i = text.rfind("\nreset\n")
        return text[: i + len("\nreset\n")] if i >= 0 else text

    def run_batch(batch):
        steel = "\n".join("\n".join(" ".join(to_steel(f) for f in p) for p in h) + "\nreset" for h in batch) + "\n"
        return C.run_bin([C.bin_path("c06"), "hist"], steel, timeout=1200)

    def run_batch_safe(batch):
        """A batch that does not finish is re-run one history per process; a history that hangs on its own keeps the
        output it produced (the piece in flight shows as `hang`)."""
        rc, out, err = C.run_bin([C.bin_path("c06"), "hist"], "\n".join(
            "\n".join(" ".join(to_steel(f) for f in p) for p in h) + "\nreset" for h in batch) + "\n", timeout=420)
        if rc not in (124, -9):
            return rc, out, err
        outs = []
        for h in batch:
            steel = "\n".join(" ".join(to_steel(f) for f in p) for p in h) + "\nreset\n"
            rc1, out1, err1 = C.run_bin([C.bin_path("c06"), "hist"], steel, timeout=90)
            if rc1 in (124, -9):
                lines = out1.splitlines()
                done = max(0, len(lines) - 1)              # lines[0] is the init line
                lines += ["hang ## s=0 f=0 t=0 e=0"] * (len(h) - done)
                out1 = "\n".join(lines) + "\nreset\n"
            outs.append(out1)
        return 0, "".join(upto_last_reset(o) for o in outs), ""

    batches = [histories[i:i + 24] for i in range(0, len(histories), 24)]
    res = C.pool_map(run_batch_safe, batches) if len(batches) > 1 else [run_batch_safe(b) for b in batches]
    rrc = max([r[0] for r in res] + [0], key=abs)
    rout = "".join(upto_last_reset(r[1]) for r in res)
    rerr = "".join(r[2][-800:] for r in res if r[0] != 0)
    rh = C.split_on(rout.splitlines(), "reset")
    inits = []
    for chunk in rh:
        m = re.match(r"init ## s=(\d+) f=(\d+) t=(\d+) e=(\d+)", chunk[0]) if chunk else None
        inits.append(m.groups() if m else ("0", "0", "100", "1"))
    def for_driver(f):
        t = f.split()
        if t[0] == "defw":
            return "deff %s %s:c" % (t[1], t[2])
        if t[0] == "wrapdef":
            return "defc c06wrap 0"
        return f
    abstract = "\n".join("init %s %s %s\n" % (i[0], i[2], i[3]) + "\n".join(";".join(for_driver(f) for f in p) for p in h) + "\nreset"
                         for h, i in zip(histories, inits)) + "\n"
    rc, mout, merr = C.run_bin([drv, "hist"], abstract, timeout=600)
    if rc != 0 or rrc != 0:
        ctx.violation("C06-%s-crash.txt" % label, "driver rc=%d harness rc=%d\n%s\n%s" % (rc, rrc, merr[-1500:], rerr[-1500:]),
                      no_input=(rrc == 0))
        return
    mh = C.split_on(mout.splitlines(), "reset")
    for hi, (h, ml, rl) in enumerate(zip(histories, mh, rh)):
        stats["histories"] += 1
        rl = rl[1:]                      # drop the init line
        prev = {"s": int(inits[hi][0]), "f": int(inits[hi][1])}
        k06c = False
        for pi, (piece, mline, rline) in enumerate(zip(h, ml, rl)):
            stats["evaluations"] += 1
            m = re.match(r"S=(.*?) M=(.*?) ## (.*)$", mline)
            sres, mres = novoid(m.group(1).strip()), novoid(m.group(2).strip())
            real, _, tail = rline.partition(" ## ")
            real = real.strip()
            real_norm = "err" if real.startswith("err") else real
            t = dict(kv.split("=") for kv in tail.split())
            if int(t["s"]) < prev["s"]:
                stats["recycles_seen"] += 1
            free_before = prev["f"]
            prev = {"s": int(t["s"]), "f": int(t["f"])}
            # class of K06c: a build that fails after it (re)defined a name while reclaimed slots were available
            if free_before > 0 and "fail" in piece and any(f.split()[0] in ("defc", "deff", "defs", "defw") for f in piece):
                k06c = True
            key = (sres, tuple(piece))
            if any(f.startswith(("call", "read")) for f in piece):
                stats["seen"].add(key)
            if mres != sres:
                stats["model_vs_spec"] += 1
            if real.startswith(("panic", "hang")):
                # K06b: a name entered into the symbol map by a unit that failed before defining it: assigning or reading
                # it panics (env.rs unwrap) with the global lock held, and the next evaluation hangs
                if in_k06b_class(h, pi) and "K06b" in known:
                    ctx.known_finding("id=K06b %s" % known["K06b"])
                    stats["known_hits"]["K06b"] = stats["known_hits"].get("K06b", 0) + 1
                else:
                    ctx.violation("C06-%s-%d-%d.txt" % (label, hi, pi), replay_text(h, pi, real, sres, mres))
                break
            if real_norm == sres:
                continue
            # the real engine disagrees with the specification: is it an open finding?
            cls = None
            if in_k06a_class(h, pi):
                cls = "K06a"
            elif in_k06b_class(h, pi) and (real_norm == mres or mres != sres):
                # as for K06c: the model deviates from S here too, but an unassigned slot reads differently in M
                # (the value the skipped define would have given) and in the engine (void / free identifier / panic)
                cls = "K06b"
            elif k06c and (real_norm == mres or mres != sres):
                # The model deviates from S here too.  It cannot always predict WHICH value shows: the real recycler keeps
                # the reclaimed slots in a hash set, so the slot a later definition takes is not determined; once a failed
                # build has taken a reclaimed slot the damage spreads differently in M and in the engine.
                cls = "K06c"
            if cls and cls in known:
                ctx.known_finding("id=%s %s" % (cls, known[cls]))
                stats["known_hits"][cls] = stats["known_hits"].get(cls, 0) + 1
                break   # the rest of this history is tainted
            ctx.violation("C06-%s-%d-%d.txt" % (label, hi, pi), replay_text(h, pi, real, sres, mres))
            break
        else:
            continue
    if len(stats["samples"]) < 2 and histories:
        h = histories[0]
        stats["samples"].append({"pieces": [";".join(p) for p in h[:12]], "steel": [" ".join(to_steel(f) for f in p) for p in h[:12]],
                                 "real": rh[0][:12] if rh else []})


def novoid(res):
    """The harness does not print void values (every define yields one); drop them on the model side too."""
    if not res.startswith("ok"):
        return res
    vals = [v for v in res[2:].strip().split("|") if v and v != "#<void>"]
    return ("ok " + "|".join(vals)).strip()


def replay_text(h, pi, real, sres, mres):
    lines = ["# history (abstract form; one piece per line; replay: ./check C06 --replay <this file>)"]
    lines += [";".join(p) for p in h[: pi + 1]]
    lines += ["# steel source of the pieces:"] + ["# " + " ".join(to_steel(f) for f in p) for p in h[: pi + 1]]
    lines += ["# last piece: real engine = %s ; specification S = %s ; mechanism model M = %s" % (real, sres, mres)]
    return "\n".join(lines) + "\n"


def unit_sequences(rng, n, length):
    seqs = []
    names = ["a", "b", "c", "d"]
    for _ in range(n):
        ops, ln = [], 0
        cps = []
        for _ in range(rng.randint(3, length)):
            r = rng.random()
            if r < 0.55:
                ops.append("add %s" % rng.choice(names)); ln += 1
            elif r < 0.70:
                ops.append("get %s" % rng.choice(names))
            elif r < 0.80:
                cps.append(ln); ops.append("mark")
            elif r < 0.90 and cps:
                cps.pop(); ops.append("rollbackmark")
            elif r < 0.95:
                # a recycler run: reclaimed slots are handed out again below the current length, so later definitions
                # and roll-backs no longer see slots in increasing order
                ops.append("recycle" + "".join(" %d" % rng.randrange(0, max(1, ln)) for _ in range(rng.randint(0, 2))))
                cps = []          # the engine never rolls back across a recycler run
                ops.append("mark"); ops.append("rollbackmark")      # forget older marks on both sides
            else:
                ops.append("state")
        ops.append("state")
        seqs.append(ops)
    # directed: the current definition of a name sits in a reclaimed slot BELOW an older shadowed slot of the same name,
    # the free list is empty again, then a build that redefines the name fails
    for nm in names:
        for extra in (0, 1, 3):
            ops = ["add %s" % nm, "add %s" % nm, "recycle", "add %s" % nm] + ["add z%d" % i for i in range(extra)]
            ops += ["state", "len", "add %s" % nm, "add q", "rollback %d" % (3 + extra), "state", "get %s" % nm]
            seqs.append(ops)
            ops = ["add %s" % nm, "add other", "add %s" % nm, "add %s" % nm, "recycle 0", "add %s" % nm, "add %s" % nm, "state",
                   "len", "add other", "add %s" % nm, "rollback %d" % 4, "state", "get %s" % nm, "get other"]
            seqs.append(ops)
    return seqs


def run_units(ctx, seqs, stats):
    text = "\n".join("\n".join(s) + "\nreset" for s in seqs) + "\n"
    rc, mout, _ = C.run_bin([C.driver_path("c06driver"), "unit"], text, timeout=300)
    rrc, rout, rerr = C.run_bin([C.bin_path("c06"), "unit"], text, timeout=300)
    ms, rs = C.split_on(mout.splitlines(), "reset"), C.split_on(rout.splitlines(), "reset")
    for i, (s, a, b) in enumerate(zip(seqs, ms, rs)):
        stats["unit_sequences"] += 1
        if a != b:
            k = next((j for j, (x, y) in enumerate(zip(a, b)) if x != y), 0)
            stats["unit_disagree"].append("sequence %s\n# line %d: real=%s model=%s" % (" ; ".join(s), k + 1, b[k] if k < len(b) else "?", a[k] if k < len(a) else "?"))


def run(ctx):
    stats = {"histories": 0, "evaluations": 0, "recycles_seen": 0, "model_vs_spec": 0, "seen": set(),
             "samples": [], "known_hits": {}, "unit_sequences": 0, "unit_disagree": []}
    known = {k["id"]: k["text"].split(" ", 5)[-1] for k in ctx.load_known() if "id" in k}
    rc, out = C.sh(["python3", os.path.join(C.VERIF, "translate", "c06_scan.py")], timeout=60)
    translator_ok = rc == 0
    ctx.log("translator: " + out.strip()[-200:])
    pr = C.prove(ctx, "C06", ["SteelVerif.C06.Rollback", "c06driver"])
    ok, log = C.build_harness(ctx, ["c06"])
    if not ok or not os.path.exists(C.driver_path("c06driver")):
        ctx.violation("C06-build.txt", "harness or driver does not build:\n" + log + pr["log"][-2000:], no_input=True)
        ctx.coverage = {"obligations": pr["obligations"], "discharged": pr["discharged"],
                        "checker_cmd": "lake build SteelVerif.C06.Props", "trusted_base": C.TRUSTED_BASE}
        return ctx.finish()

    rng = random.Random(ctx.seed)
    # corpus
    corpus = []
    cdir = os.path.join(C.VERIF, "corpus", "C06")
    for fn in sorted(os.listdir(cdir)):
        if fn.endswith(".hist"):
            corpus.append([l.strip().split(";") for l in open(os.path.join(cdir, fn)) if l.strip() and not l.startswith("#")])
    run_histories(ctx, corpus, "corpus", stats, {})
    # main stream (outside every finding class) + finding streams
    nh, ln = (24, 60) if ctx.quick() else (300, 160)
    run_histories(ctx, [gen_history(rng, ln, "main") for _ in range(nh)], "main", stats, known)
    chains = [gen_chain_history(rng, d, 130) for d in ((1, 2, 3, 4, 6) if ctx.quick() else (1, 2, 3, 4, 5, 6, 8, 12, 3, 4, 5))]
    run_histories(ctx, chains, "chain", stats, known)
    for stream in ("k06a", "k06b"):
        run_histories(ctx, [gen_history(rng, ln, stream) for _ in range(max(4, nh // 6))], stream, stats, known)
    for kid in known:
        if kid not in stats["known_hits"]:
            ctx.notes.append("open finding %s was not reproduced by this run" % kid)
    run_units(ctx, unit_sequences(rng, 400 if ctx.quick() else 20000, 30), stats)

    if not translator_ok and not ctx.violations:
        ctx.violation("C06-translator.txt", "translate/c06_scan.py no longer parses closed.rs:\n" + out, no_input=True)
    if not pr["ok"] and not ctx.violations:
        ctx.violation("C06-proof-broken.txt", "proof obligations of SteelVerif.C06.Props that no longer check:\n" +
                      "\n".join("%s: %s" % f for f in pr["failed"]) + "\n", no_input=True)
    if stats["unit_disagree"] and not ctx.violations:
        ctx.violation("C06-unit-correspondence.txt", "real SymbolMap and model disagree:\n" + "\n".join(stats["unit_disagree"][:5]) + "\n",
                      no_input=True)
    ctx.coverage = {
        "obligations": pr["obligations"], "discharged": pr["discharged"],
        "checker_cmd": "cd lean && lake build SteelVerif.C06.Props SteelVerif.C06.Rollback && lake env lean SteelVerif/C06/Audit.lean",
        "trusted_base": C.TRUSTED_BASE + ["translate/c06_scan.py (regex extraction of the recycler's op-code match)",
                                          "hand list of global-indexing op codes in Props.lean"],
        "evaluations": stats["evaluations"], "distinct_nontrivial": len(stats["seen"]),
        "rule": "history = pieces from a seeded generator (define/redefine variables and functions that read/call earlier globals, setters, set!, failing builds incl. a name defined twice, run-time failures, churn that crosses the recycling threshold); every 7th piece calls every named function and reads every variable; non-trivial = an observing piece with a distinct (expected result, forms) pair",
        "samples": stats["samples"], "histories": stats["histories"],
        "recycling_events_observed_on_real_engine": stats["recycles_seen"],
        "model_M_vs_spec_S_differences": stats["model_vs_spec"],
        "unit_sequences": stats["unit_sequences"], "unit_disagreements": len(stats["unit_disagree"]),
        "known_finding_hits": stats["known_hits"], "axioms": pr.get("axioms", {}),
        "proof_failures": ["%s: %s" % f for f in pr["failed"]],
    }
    return ctx.finish("proof")


def replay(ctx, path):
    h = [l.strip().split(";") for l in open(path) if l.strip() and not l.startswith("#")]
    C.build_harness(ctx, ["c06"])
    steel = "\n".join(" ".join(to_steel(f) for f in p) for p in h) + "\n"
    rout = C.run_bin([C.bin_path("c06"), "hist"], steel, timeout=120)[1]
    m = re.match(r"init ## s=(\d+) f=(\d+) t=(\d+) e=(\d+)", rout)
    init = "init %s %s %s\n" % (m.group(1), m.group(3), m.group(4)) if m else ""
    abstract = init + "\n".join(";".join(p) for p in h) + "\n"
    mout = C.run_bin([C.driver_path("c06driver"), "hist"], abstract, timeout=120)[1]
    for p, r, ml in zip(h, rout.splitlines()[1:], mout.splitlines()):
        print("%-40s real: %-30s model: %s" % (";".join(p)[:40], r[:30], ml[:60]))
    return 0
