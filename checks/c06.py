"""C06 — earlier definitions keep their meaning across any evaluation history.

translate  : translate/c06_scan.py regenerates lean/SteelVerif/C06/GenScan.lean (the op codes the slot
             recycler scans, the fixed-point shape of `recycle`) from crates/steel-core/src/values/closed.rs.
prove      : lake build SteelVerif.C06.Props (+ axiom audit of every theorem named in Audit.lean):
             `slots_refine_cells` (all histories: M = symbol map + shadow/free lists + global vector + roll-back +
             recycler with trigger refines S = binding cells, inside the decidable guards of K06b/K06c/use-before-define),
             `propagate_refines_partial` (the unit-local constant propagation is invisible inside the guard of K06a),
             `slots_refine_cells_real` (both), `live_slots_owned` (the invariant), the corollaries, and one decided witness
             outside each guard = the replay of each open finding; the older unit-level theorems (scan list, add/get,
             roll_back, recycler closure).
correspond : (unit) random add/get/rollback/recycle sequences on the real `SymbolMap` vs the model, exact state
             comparison; (history) generated evaluation histories on one real `Engine` (crossing the recycling
             threshold) vs the specification S and the model (propagation + M); after EVERY step of a main history every
             function defined so far is called and every variable read.  The driver evaluates the guards of the theorems
             on every piece: inside them model = S is re-checked (it is a theorem), outside them a real != S difference
             is attributed to the finding whose guard failed only if the model predicts the engine's answer.
             (continuations) generated histories in which a continuation with pending code that reads globals is stored,
             the globals / procedures are redefined, the recycler runs, reclaimed slots are reused, the continuation is
             resumed: real engine vs the values the binding-cell semantics demands (this family found K06d, fixed in /repo f2f700ff);
             corpus/C06/*.scm.
oracle     : S.  A real != S difference is a violation unless it falls in the class of an open finding.
"""
import os
import random
import re

from . import common as C

PID = "C06"
META = {
    "ready": True,
    "category": "proof",
    "technique": "Lean 4 refinement theorem over all evaluation histories (slots refine binding cells: simulation with an abstraction map slot -> cell through SymbolMap.add / roll_back / slot recycler / run of the forms; a second simulation for the unit-local constant propagation) + regenerated recycler scan table + differential histories real Engine vs specification vs model with the theorems' guards evaluated per step",
    "level_text": "Proved for ALL histories (any length, any number of recycler runs, any initial threshold/epoch; SteelVerif/C06/Props.lean): slots_refine_cells - the mechanism model M (SymbolMap.add/get/roll_back with shadow and free lists, global vector, build failure with roll-back, run-time failure keeping completed definitions, gc_shadowed_roots trigger with threshold doubling/epoch, GlobalSlotRecycler fixed point) gives exactly the results of the specification S (names -> binding cells, fresh cell per define, set! writes the cell, failed build is a no-op) on every history inside three decidable guards: guardC (a build fails only while no reclaimed slot awaits reuse, or defines nothing - negation of K06c), guardB (no definition after an (error ...) form in the unit - K06b), guardU (no definition after a form that reads/calls/assigns in the same unit). live_slots_owned: after every such history there is an injective map slot -> cell under which every function stored in a slot in use mentions only slots that are in use, not on the free list and owned by the cell the specification's function captured (preserved by add, roll-back, recycler run, every form). propagate_refines_partial: the compiler's unit-local constant propagation (modelled: (define x k) into function bodies of the same unit that assign x nowhere) is invisible to S inside the decidable guard histOKA (no form assigns a frozen cell - negation of K06a); slots_refine_cells_real composes both for the pipeline propagate-then-M. slots_refine_cells_any_reuse_order: the same with an oracle permuting the free list before every unit (the real recycler's hash-set order decides which reclaimed slot a definition takes; the result does not depend on it). Liveness (LemmasLiveness.lean): recycle_dead_iff / recycle_frees_unreached - a recycler run reclaims EXACTLY the shadowed slots not reached from the unshadowed globals (through mentions, transitively through reached shadowed slots); recycle_frees_candidate_cycles - shadowed slots mentioned only by each other (recursive / mutually recursive procedures) are reclaimed; walking_candidates_keeps_self_mention - the variant that walks candidates as roots keeps a self-mentioning candidate (decided); gen_recycler_roots_exclude_candidates - translator obligation that the source's first root walk excludes candidates (one loop, guarded); pending_shadows_bounded / slots_bounded - after every history inside the guards the pending shadows are within the threshold, so slots in use <= settled (named or retained-because-reached) + threshold; retained_slots_are_not_reconsidered - decided witness that a retained slot whose referrer is later redefined stays in use (the engine's 'after one pass ignore it forever'), i.e. names + threshold alone is not a bound. Tie for liveness: histories redefining recursive and mutually recursive procedures across the threshold, engine's free-list length against the model's (gap <= 4, never negative; reported as liveness_gap_max). Corollaries: redefinition_only_affects_later_code, set_visible_to_all (unconditional, from any reachable state), failed_unit_is_noop_partial; the unguarded statements are proved FALSE with decided witnesses that are the replays of K06a, K06b, K06c (k06a_outside_guard, k06b_outside_guard, k06c_outside_guard, not_failedUnitIsNoop, not_rollbackRestores, not_pipeline_refines_unguarded, use_before_define_outside_guard). Unit level: recycler scan list (regenerated from closed.rs on every run) covers every op code that indexes the global vector and the recycler hands the code a live continuation resumes to that scan (gen_recycler_scans_continuations); the recycler's fixed point never frees a slot mentioned by a surviving slot; roll_back restores map, values, shadow list and free list when no recycled slot was reused. Tie: histories on one real Engine (define / redefine / set! / setters / built-ins in globals / captured closures / failing builds / run-time failures / churn across the recycling threshold / chains through shadowed bindings) compared with S after every step with every function called; the driver evaluates the theorems' guards on every piece - inside them model = S is re-checked, outside them a deviation is attributed to a finding only when the model predicts the engine's answer; the engine's shadowed count / threshold / epoch are compared with the model's at every step (reported); real SymbolMap vs model on random unit-level sequences incl. recycler runs.",
    "level_note": "Trusted: Lean kernel, the translator regexes, harness/driver/comparison. M is hand-written after compiler/map.rs, values/closed.rs, engine.rs (tied by the unit-level and history-level correspondence, not by translation); the values of M are abstract (a function = the list of global slots / literals its body mentions; the compiler's choice of op codes is C01's matter; hand list of global-indexing op codes in LemmasRecycler.lean). Not modelled: inlining of small procedures into callers of the same unit (same finding class K06a as the constant propagation, which is modelled), lambda-lifted hidden globals (the engine keeps 1-2 more slots alive than M in some recycler runs: reported as free_count_max_excess_of_model; the opposite direction would be reported as a note), continuations (not in the history language of the Lean model: a continuation is a value whose pending code mentions global slots exactly like a function's body, and the recycler has to scan it like one - tied by the translator (continuation_code_scanned; obligation gen_recycler_scans_continuations) and by the generated continuation histories real vs binding-cell semantics; this is how K06d was found - fixed in /repo f2f700ff, its histories are corpus entries d20/d21). The engine rejects a name defined twice in one unit (BadSyntax) before touching the symbol map; M and S accept it - such units only occur together with a failing form in the generated histories.",
}

VARS = ["v%d" % i for i in range(8)]
FNS = ["f%d" % i for i in range(8)]
SETTERS = ["s%d" % i for i in range(3)]
NATIVES = {0: "+", 1: "*"}          # built-in procedures that accept no operands: (+) = 0, (*) = 1
PRIMS = ["p%d" % i for i in range(3)]


def to_steel(form):
    t = form.split()
    k = t[0]
    if k == "defc":
        return "(define %s %s)" % (t[1], t[2])
    if k == "deff":
        parts = []
        for r in t[2:]:
            n, kind = r.split(":")
            parts.append(n if kind == "r" else "(%s)" % n)
        return "(define (%s) (list %s))" % (t[1], " ".join(parts))
    if k == "defw":
        # the same observable behaviour as `deff f t:c`, but the reference to t lives in a CAPTURED closure of an instance
        # of one shared lambda expression (instances share the function id and differ in their captures)
        return "(define %s (c06wrap (lambda () (%s))))" % (t[1], t[2])
    if k == "wrapdef":
        return "(define (c06wrap f) (lambda () (list (f))))"
    if k == "defs":
        return "(define (%s v) (set! %s v) 0)" % (t[1], t[2])
    if k == "set":
        return "(begin (set! %s %s) 0)" % (t[1], t[2])
    if k == "defn":
        return "(define %s %s)" % (t[1], NATIVES[int(t[2])])
    if k == "setn":
        return "(begin (set! %s %s) 0)" % (t[1], NATIVES[int(t[2])])
    if k == "call":
        return "(%s)" % t[1]
    if k == "calls":
        return "(%s %s)" % (t[1], t[2])
    if k == "read":
        return t[1]
    if k == "fail":
        return "(undefined-zzz-fn 1)"
    if k == "rfail":
        return '(error "boom")'
    raise ValueError(form)


def gen_history(rng, npieces, stream, obs_every=7):
    """Returns list of pieces (each a list of abstract forms).  `stream`: 'main' avoids the classes of
    the open findings; 'k06a' / 'k06b' / 'k06c' deliberately produce them.  Every `obs_every`-th step is followed by a piece
    that calls every function and reads every variable defined so far (1 = after every step)."""
    kind = {}          # name -> 'var' | 'fn' | 'setter'
    counter = [100]
    pieces = [["wrapdef"]]

    def fresh():
        counter[0] += 1
        return counter[0]

    def defined(k):
        return [n for n, kk in kind.items() if kk == k]

    for i in range(npieces):
        r = rng.random()
        if stream == "k06c" and defined("var"):
            # many redefinitions (the recycler runs early) and many builds that fail after redefining
            r = rng.choice([0.72, 0.72, 0.95, 0.95, 0.95, r, r])
        piece = []
        if r < 0.30 or not defined("var"):
            v = rng.choice(VARS)
            if kind.get(v, "var") == "var":
                piece.append("defc %s %d" % (v, fresh()))
                kind[v] = "var"
        elif r < 0.50:
            f = rng.choice(FNS)
            if kind.get(f, "fn") == "fn":
                cands = defined("var") + [g for g in defined("fn") if g != f] + defined("prim")
                refs = rng.sample(cands, min(len(cands), rng.randint(1, 3)))
                callable_ = [n for n in refs if kind[n] != "var"]
                if callable_ and rng.random() < 0.35:
                    piece.append("defw %s %s" % (f, callable_[0]))
                else:
                    piece.append("deff %s %s" % (f, " ".join("%s:%s" % (n, "r" if kind[n] == "var" else "c") for n in refs)))
                kind[f] = "fn"
        elif r < 0.53:
            # a global that holds a built-in procedure; functions call it, later pieces assign it
            pn = rng.choice(PRIMS)
            if kind.get(pn, "prim") == "prim":
                if pn in kind and rng.random() < 0.6:
                    piece.append("setn %s %d" % (pn, rng.randint(0, 1)))
                else:
                    piece.append("defn %s %d" % (pn, rng.randint(0, 1)))
                    kind[pn] = "prim"
        elif r < 0.56 and defined("var"):
            s = rng.choice(SETTERS)
            piece.append("defs %s %s" % (s, rng.choice(defined("var"))))
            kind[s] = "setter"
        elif r < 0.64 and defined("var"):
            piece.append("set %s %d" % (rng.choice(defined("var")), fresh()))
        elif r < 0.70 and defined("setter"):
            piece.append("calls %s %d" % (rng.choice(defined("setter")), fresh()))
        elif r < 0.76 and defined("var"):
            # failing build after a redefinition: must change nothing
            v = rng.choice(defined("var"))
            piece.append("defc %s %d" % (v, fresh()))
            if rng.random() < 0.4:
                piece.append("defc %s %d" % (v, fresh()))      # the same name twice
            piece.append("fail")
        elif r < 0.80 and defined("var"):
            piece.append("set %s %d" % (rng.choice(defined("var")), fresh()))
            piece.append("rfail")
            if stream == "k06b" and rng.random() < 0.5:
                piece.append("defc %s %d" % (rng.choice(defined("var")), fresh()))
        elif r < 0.83 and defined("var"):
            # units with several definitions (inside every guard): a variable that the unit itself assigns in a procedure body is
            # NOT constant-propagated into the unit's functions; a procedure called by another procedure of the same unit
            # may be inlined by the compiler, which nothing can observe as long as it is not assigned
            v, f, g, st = rng.choice(VARS), rng.choice(FNS), rng.choice(FNS), rng.choice(SETTERS)
            if rng.random() < 0.5:
                if kind.get(v, "var") == "var" and kind.get(f, "fn") == "fn" and kind.get(st, "setter") == "setter":
                    forms = ["defc %s %d" % (v, fresh()), "deff %s %s:r" % (f, v), "defs %s %s" % (st, v)]
                    rng.shuffle(forms)
                    piece += forms
                    kind[v], kind[f], kind[st] = "var", "fn", "setter"
            elif f != g and kind.get(f, "fn") == "fn" and kind.get(g, "fn") == "fn":
                v0 = rng.choice(defined("var"))
                piece += ["deff %s %s:r" % (g, v0), "deff %s %s:c %s:r" % (f, g, v0)]
                kind[f], kind[g] = "fn", "fn"
        else:
            # churn: push the number of shadowed slots over the recycling threshold
            for _ in range(rng.randint(3, 9)):
                piece.append("defc junk %d" % fresh())
                pieces.append(piece)
                piece = []
            kind["junk"] = "junkvar"
        if piece:
            pieces.append(piece)
        if stream == "k06a" and rng.random() < 0.08:
            v, f = rng.choice(VARS), rng.choice(FNS)
            if kind.get(v, "var") == "var" and kind.get(f, "fn") == "fn":
                unit = ["defc %s %d" % (v, fresh()), "deff %s %s:r" % (f, v)]
                if rng.random() < 0.4:
                    unit.reverse()                   # the propagation does not depend on the order inside the unit
                pieces.append(unit)
                kind[v], kind[f] = "var", "fn"
                pieces.append(["set %s %d" % (v, fresh())])
        if i % obs_every == obs_every - 1:
            obs = ["call %s" % f for f in defined("fn") + defined("prim")] + ["read %s" % v for v in defined("var")]
            if obs:
                pieces.append(obs)
    obs = ["call %s" % f for f in defined("fn") + defined("prim")] + ["read %s" % v for v in defined("var")]
    if obs:
        pieces.append(obs)
    return pieces


def gen_chain_history(rng, depth, churn, obs_every=20, more_churn=()):
    """Directed family: a live procedure reaches, through `depth` procedures that have all been redefined
    since (so their slots are shadowed), an old binding; then enough shadowing to make the recycler run, then
    new definitions that take whatever slots were freed.  The old chain must keep its meaning."""
    counter = [1000]

    def fresh():
        counter[0] += 1
        return counter[0]

    pieces = [["wrapdef"], ["defc v0 %d" % fresh()], ["deff c0 v0:r"]]
    for i in range(1, depth + 1):
        refs = ["c%d:c" % (i - 1)]
        if i >= 2 and rng.random() < 0.3:
            refs.append("c%d:c" % rng.randrange(i - 1))        # extra edges: the graph is not always a path
        if len(refs) == 1 and rng.random() < 0.5:
            pieces.append(["defw c%d c%d" % (i, i - 1)])        # the link lives in a captured closure
        else:
            pieces.append(["deff c%d %s" % (i, " ".join(refs))])
    pieces.append(["deff top c%d:c" % depth])
    pieces.append(["call top"])
    order = list(range(depth + 1))
    rng.shuffle(order)
    for i in order:                                             # every link of the chain is now shadowed
        pieces.append(["deff c%d v0:r" % i] if rng.random() < 0.7 else ["defc c%d %d" % (i, fresh())])
    for k in range(churn):
        pieces.append(["defc junk %d" % fresh()])
        if k % obs_every == obs_every - 1:
            pieces.append(["call top"])
    for i in range(2 * depth + 12):
        pieces.append(["deff w%d v0:r" % i] if rng.random() < 0.5 else ["defc w%d %d" % (i, fresh())])
    pieces.append(["call top", "read v0"])
    for _ in range(churn // 2):
        pieces.append(["defc junk %d" % fresh()])
    for i in range(depth + 6):
        pieces.append(["defc x%d %d" % (i, fresh())])
    pieces.append(["call top"] + ["call w%d" % i for i in range(3) if False])
    # further phases: cross the next thresholds (400, 800, then the epoch reset to 100) with the chain still alive
    for ph, extra in enumerate(more_churn):
        for k in range(extra):
            pieces.append(["defc junk %d" % fresh()])
            if k % (4 * obs_every) == 4 * obs_every - 1:
                pieces.append(["call top"])
        for i in range(depth + 6):
            pieces.append(["defc y%d_%d %d" % (ph, i, fresh())])
        pieces.append(["call top", "read v0"])
    return pieces


def gen_cycle_history(rng, rounds):
    """Directed family for the LIVENESS of the recycler (recycle_frees_unreached / recycle_frees_candidate_cycles): recursive
    procedures (they mention their own slot) and mutually recursive pairs (cycles between slots) are redefined `rounds`
    times, across the recycling threshold, never called; nothing else refers to the old versions, so every recycler run must
    reclaim all of them: the engine's free list must be as long as the model's after every step, up to the few versions
    shadowed by the unit in flight (see run_histories); a recycler that walks candidates as roots never reclaims any."""
    counter = [5000]

    def fresh():
        counter[0] += 1
        return counter[0]

    pieces = [["wrapdef"], ["defc v0 %d" % fresh()]]
    shapes = []
    for _ in range(rng.randint(1, 3)):
        shapes.append(rng.choice(["self", "pair", "self2"]))
    per_round = sum(2 if sh == "pair" else 1 for sh in shapes)
    rounds = max(rounds, 120 // per_round + 2)          # always enough shadowings to make the recycler run
    for k in range(rounds):
        for si, sh in enumerate(shapes):
            if sh == "self":
                pieces.append(["deff r%d r%d:c v0:r" % (si, si)])
            elif sh == "self2":
                pieces.append(["deff r%d v0:r r%d:c r%d:c" % (si, si, si)])
            else:
                pieces.append(["deff p%d q%d:c" % (si, si), "deff q%d p%d:c v0:r" % (si, si)])
        if k % 10 == 9:
            pieces.append(["read v0"])
        if rng.random() < 0.1:
            pieces.append(["defc v0 %d" % fresh()])
    for i in range(12):
        pieces.append(["defc z%d %d" % (i, fresh())])
    pieces.append(["read v0"])
    return pieces


def in_k06b_class(pieces, idx):
    """A unit that fails at run time contained a definition (after the failing form) of a name that was
    already defined."""
    seen = set()
    for p in pieces[: idx + 1]:
        forms = [f.split() for f in p]
        if any(t[0] == "rfail" for t in forms):
            after = False
            for t in forms:
                if t[0] == "rfail":
                    after = True
                elif after and t[0] in ("defc", "deff", "defs", "defw") and t[1] in seen:
                    return True
        for t in forms:
            if t[0] in ("defc", "deff", "defs", "defw"):
                seen.add(t[1])
    return False


def run_histories(ctx, histories, label, stats, known):
    drv = C.driver_path("c06driver")
    # One harness process serves at most 24 histories (= 24 engines), in parallel processes: an engine never gives
    # its JIT code memory back, and after ~160 engines in one process the next JIT compilation panics ("unable to make
    # memory readable+executable") - a resource leak of the engine (reported under C07), not a C06 matter.
    # the harness prints the `init` line of the NEXT engine after every `reset`: drop what follows a batch's last reset
    def upto_last_reset(text):
        i = text.rfind("\nreset\n")
        return text[: i + len("\nreset\n")] if i >= 0 else text

    def run_batch(batch):
        steel = "\n".join("\n".join(" ".join(to_steel(f) for f in p) for p in h) + "\nreset" for h in batch) + "\n"
        return C.run_bin([C.bin_path("c06"), "hist"], steel, timeout=1200)

    def run_batch_safe(batch):
        """A batch that does not finish is re-run one history per process; a history that hangs on its own keeps the
        output it produced (the piece in flight shows as `hang`)."""
        if len(batch) > 1:
            rc, out, err = C.run_bin([C.bin_path("c06"), "hist"], "\n".join(
                "\n".join(" ".join(to_steel(f) for f in p) for p in h) + "\nreset" for h in batch) + "\n", timeout=240)
            if rc not in (124, -9):
                return rc, out, err
        def run_one(h):
            steel = "\n".join(" ".join(to_steel(f) for f in p) for p in h) + "\nreset\n"
            rc1, out1, err1 = C.run_bin([C.bin_path("c06"), "hist"], steel, timeout=60)
            if rc1 in (124, -9):
                lines = out1.splitlines()
                done = max(0, len(lines) - 1)              # lines[0] is the init line
                lines += ["hang ## s=0 f=0 t=0 e=0"] * (len(h) - done)
                out1 = "\n".join(lines) + "\nreset\n"
            return out1

        outs = C.pool_map(run_one, batch, workers=8)
        return 0, "".join(upto_last_reset(o) for o in outs), ""

    # the k06b stream is known to make the engine hang (finding K06b): one history per process there, so that a hang costs one
    # short time-out instead of the batch's
    per = 1 if label == "k06b" else 24
    batches = [histories[i:i + per] for i in range(0, len(histories), per)]
    res = C.pool_map(run_batch_safe, batches) if len(batches) > 1 else [run_batch_safe(b) for b in batches]
    rrc = max([r[0] for r in res] + [0], key=abs)
    rout = "".join(upto_last_reset(r[1]) for r in res)
    rerr = "".join(r[2][-800:] for r in res if r[0] != 0)
    rh = C.split_on(rout.splitlines(), "reset")
    inits = []
    for chunk in rh:
        m = re.match(r"init ## s=(\d+) f=(\d+) t=(\d+) e=(\d+)", chunk[0]) if chunk else None
        inits.append(m.groups() if m else ("0", "0", "100", "1"))
    def for_driver(f):
        t = f.split()
        if t[0] == "defw":
            return "deff %s %s:c" % (t[1], t[2])
        if t[0] == "wrapdef":
            return "defc c06wrap 0"
        return f
    abstract = "\n".join("init %s %s %s\n" % (i[0], i[2], i[3]) + "\n".join(";".join(for_driver(f) for f in p) for p in h) + "\nreset"
                         for h, i in zip(histories, inits)) + "\n"
    rc, mout, merr = C.run_bin([drv, "hist"], abstract, timeout=600)
    if rc != 0 or rrc != 0:
        ctx.violation("C06-%s-crash.txt" % label, "driver rc=%d harness rc=%d\n%s\n%s" % (rc, rrc, merr[-1500:], rerr[-1500:]),
                      no_input=(rrc == 0))
        return
    mh = C.split_on(mout.splitlines(), "reset")
    dist = stats["dist"]
    for hi, (h, ml, rl) in enumerate(zip(histories, mh, rh)):
        stats["histories"] += 1
        rl = rl[1:]                      # drop the init line
        prev = {"s": int(inits[hi][0]), "f": int(inits[hi][1])}
        k06c = False
        outside = set()                  # guards of slots_refine_cells that some piece so far is outside of
        rec_m = rec_r = 0
        for pi, (piece, mline, rline) in enumerate(zip(h, ml, rl)):
            stats["evaluations"] += 1
            m = re.match(r"S=(.*?) M=(.*?) ## (.*)$", mline)
            sres, mres = novoid(m.group(1).strip()), novoid(m.group(2).strip())
            mt = dict(kv.split("=") for kv in m.group(3).split())
            real, _, tail = rline.partition(" ## ")
            real = real.strip()
            real_norm = "err" if real.startswith("err") else real
            t = dict(kv.split("=") for kv in tail.split())
            if int(t["s"]) < prev["s"]:
                stats["recycles_seen"] += 1
                rec_r += 1
            free_before = prev["f"]
            prev = {"s": int(t["s"]), "f": int(t["f"])}
            # distribution of what the histories exercise (from the model's run and from the real engine's free list)
            for gname in ("gc", "gb", "gu", "ga"):
                if mt.get(gname) == "0":
                    outside.add(gname)
                    dist["pieces_outside_" + gname] += 1
            inside = mt.get("ok") == "1" and mt.get("oka") == "1"
            dist["pieces_inside_guards" if inside else "pieces_after_leaving_guards"] += 1
            dist["max_frozen_cells"] = max(dist["max_frozen_cells"], int(mt.get("fz", 0)))
            dist["rollbacks"] += mt.get("rb") == "1"
            dist["recyclings_model"] += mt.get("rc") == "1"
            rec_m += mt.get("rc") == "1"
            dist["units_changed_by_constant_propagation"] += mt.get("pr") == "1"
            dist["runtime_failures"] += any(f.split()[0] == "rfail" for f in piece) and "fail" not in piece
            dist["max_shadow_depth"] = max(dist["max_shadow_depth"], int(mt.get("d", 0)))
            if mt.get("ok") == "1":
                # policy-level state (DESIGN §3: reported, not a violation): the trigger state must agree exactly; the
                # number of reclaimed slots may differ when the engine keeps a slot alive that the abstract values of M
                # do not mention
                if (int(mt["s"]), int(mt["t"]), int(mt["e"])) != (int(t["s"]), int(t["t"]), int(t["e"])):
                    dist["trigger_state_differs_inside_guards"] += 1
                    if len(dist["difference_samples"]) < 3:
                        dist["difference_samples"].append({"stream": label, "piece": ";".join(piece), "index": pi,
                                                           "real": tail, "model": m.group(3)[:24]})
                if label == "cycle":
                    dist["liveness_gap_max"] = max(dist["liveness_gap_max"], int(mt["f"]) - int(t["f"]))
                # The engine is allowed to lag the model by the versions shadowed by the unit whose build triggered the run
                # (observed: one slot per recursive definition of that unit that also reads a variable; at most 2 definitions
                # per unit in this family, two runs at most) - never to reclaim more, and never to let garbage accumulate.
                if label == "cycle" and not (0 <= int(mt["f"]) - int(t["f"]) <= 4):
                    # liveness: in these histories every shadowed slot is garbage (recursive procedures that only mention
                    # themselves / each other); the model reclaims them all (recycle_frees_candidate_cycles) - so must the engine
                    ctx.violation("C06-%s-%d-%d-liveness.txt" % (label, hi, pi), replay_text(h, pi, real, sres, mres) +
                                  "# free list: engine %s slots, model %s slots: the engine's recycler did not reclaim what the model's "
                                  "(recycle_frees_unreached) reclaims, or reclaimed more\n" % (t["f"], mt["f"]))
                    break
                if int(mt["f"]) != int(t["f"]):
                    dist["free_count_differs_inside_guards"] += 1
                    dist["free_count_max_excess_of_model"] = max(dist["free_count_max_excess_of_model"],
                                                                 int(mt["f"]) - int(t["f"]))
                    dist["free_count_max_excess_of_engine"] = max(dist["free_count_max_excess_of_engine"],
                                                                  int(t["f"]) - int(mt["f"]))
            # class of K06c: a build that fails after it (re)defined a name while reclaimed slots were available
            if (free_before > 0 and "fail" in piece and any(f.split()[0] in ("defc", "deff", "defs", "defw") for f in piece)) \
                    or "gc" in outside:
                k06c = True
            key = (sres, tuple(piece))
            if any(f.startswith(("call", "read")) for f in piece):
                stats["seen"].add(key)
                dist["observing_pieces"] += 1
                dist["observations"] += sum(1 for f in piece if f.startswith(("call", "read")))
            if mres != sres:
                stats["model_vs_spec"] += 1
                if inside:
                    # slots_refine_cells_real says this cannot happen: the driver does not run the M / S of the theorem
                    ctx.violation("C06-%s-%d-%d-model.txt" % (label, hi, pi), replay_text(h, pi, real, sres, mres) +
                                  "# the model (propagation + M) deviates from S INSIDE the guards of slots_refine_cells_real\n")
                    break
            if real.startswith(("panic", "hang")):
                # K06b: a name entered into the symbol map by a unit that failed before defining it: assigning or reading
                # it panics (env.rs unwrap) with the global lock held, and the next evaluation hangs
                if in_k06b_class(h, pi) and "gb" in outside and "K06b" in known:
                    ctx.known_finding("id=K06b %s" % known["K06b"])
                    stats["known_hits"]["K06b"] = stats["known_hits"].get("K06b", 0) + 1
                else:
                    ctx.violation("C06-%s-%d-%d.txt" % (label, hi, pi), replay_text(h, pi, real, sres, mres))
                break
            if real_norm == sres:
                continue
            # the real engine disagrees with the specification: is it an open finding?
            cls = None
            if "ga" in outside and real_norm == mres:
                # outside the guard of `propagate_refines_partial` (decided by the driver: some piece so far assigned a cell
                # whose definition was propagated); the model (constant propagation, then slots) predicts the engine's value
                cls = "K06a"
            elif in_k06b_class(h, pi) and "gb" in outside and (real_norm == mres or mres != sres):
                # as for K06c: the model deviates from S here too, but an unassigned slot reads differently in M
                # (the value the skipped define would have given) and in the engine (void / free identifier / panic)
                cls = "K06b"
            elif k06c and (real_norm == mres or mres != sres):
                # The model deviates from S here too.  It cannot always predict WHICH value shows: the real recycler keeps
                # the reclaimed slots in a hash set, so the slot a later definition takes is not determined; once a failed
                # build has taken a reclaimed slot the damage spreads differently in M and in the engine.
                cls = "K06c"
            if cls and cls in known:
                ctx.known_finding("id=%s %s" % (cls, known[cls]))
                stats["known_hits"][cls] = stats["known_hits"].get(cls, 0) + 1
                break   # the rest of this history is tainted
            ctx.violation("C06-%s-%d-%d.txt" % (label, hi, pi), replay_text(h, pi, real, sres, mres))
            break
        dist["recyclings_per_history"].append(max(rec_m, rec_r))
    if len(stats["samples"]) < 2 and histories:
        h = histories[0]
        stats["samples"].append({"pieces": [";".join(p) for p in h[:12]], "steel": [" ".join(to_steel(f) for f in p) for p in h[:12]],
                                 "real": rh[0][:12] if rh else []})


def novoid(res):
    """The harness does not print void values (every define yields one); drop them on the model side too."""
    if not res.startswith("ok"):
        return res
    vals = [v for v in res[2:].strip().split("|") if v and v != "#<void>"]
    return ("ok " + "|".join(vals)).strip()


def replay_text(h, pi, real, sres, mres):
    lines = ["# history (abstract form; one piece per line; replay: ./check C06 --replay <this file>)"]
    lines += [";".join(p) for p in h[: pi + 1]]
    lines += ["# steel source of the pieces:"] + ["# " + " ".join(to_steel(f) for f in p) for p in h[: pi + 1]]
    lines += ["# last piece: real engine = %s ; specification S = %s ; mechanism model M = %s" % (real, sres, mres)]
    return "\n".join(lines) + "\n"


def gen_kont_history(rng, churn):
    """Directed family (outside the Form language of the Lean model): a continuation is captured while code that reads
    globals is pending - in `depth` nested procedures (shape 'fn') or in the top-level code of a definition (shape 'top') -
    and stored in a global; some of those globals and procedures are then REdefined, `churn` redefinitions of another
    name follow (churn > 100 crosses the recycling threshold), then fresh definitions that take whatever slots were
    reclaimed; finally the continuation is resumed.  The pending code was compiled against the OLD bindings and those
    were never assigned, so it must still read the old values.
    Returns (lines of Steel source, expected output per line or None = do not compare, index of the first resuming line,
    whether anything the pending code reads was redefined)."""
    m = rng.randint(1, 3)
    shape = rng.choice(["fn", "fn", "top"])
    vals = [rng.randint(10, 99) for _ in range(m)]
    lines, exp = [], []

    def emit(src, expected=""):
        lines.append(src)
        exp.append(expected)

    for i in range(m):
        emit("(define kg%d %d)" % (i, vals[i]))
    emit("(define kk #f)")
    reads = " ".join("kg%d" % i for i in range(m))
    shown = " ".join(str(v) for v in vals)
    if shape == "fn":
        depth = rng.randint(1, 3)
        emit("(define (kf1) (list (call/cc (lambda (c) (set! kk c) 0)) %s))" % reads)
        for d in range(2, depth + 1):
            emit("(define (kf%d) (list (kf%d) %s))" % (d, d - 1, reads))

        def result(first):
            r = "(%s %s)" % (first, shown)
            for _ in range(2, depth + 1):
                r = "(%s %s)" % (r, shown)
            return r
        emit("(kf%d)" % depth, result(0))
        redefinable = ["(define (kf%d) 0)" % d for d in range(1, depth + 1)]
    else:
        emit("(define kr (list (call/cc (lambda (c) (set! kk c) 0)) %s))" % reads)
        emit("kr", "(0 %s)" % shown)
        redefinable = []
    redefs = [("(define kg%d %d)" % (i, 100 + i)) for i in range(m) if rng.random() < 0.7]
    redefs += [r for r in redefinable if rng.random() < 0.7]
    rng.shuffle(redefs)
    for r in redefs:
        emit(r)
    for i in range(churn):
        emit("(define kjunk %d)" % i)
    for i in range(220 if churn > 100 else 3):
        emit("(define kw%d %d)" % (i, 1000 + i))
    first_resume = len(lines)
    if shape == "fn":
        emit("(kk 5)", result(5))
    else:
        emit("(kk 5)", None)              # re-executes the definition of kr; what the evaluation itself returns is not compared
        emit("kr", "(5 %s)" % shown)
    return lines, exp, first_resume, bool(redefs)


def run_scm_corpus(ctx, stats, known):
    """corpus/C06/*.scm: raw Steel histories (one top-level evaluation per line) with expectations `;=> <output>` at the
    end of a line; `; class: <finding id>` names the finding a deviation belongs to while that finding is open."""
    cdir = os.path.join(C.VERIF, "corpus", "C06")
    for fn in sorted(os.listdir(cdir)):
        if not fn.endswith(".scm"):
            continue
        src, exp, cls = [], [], None
        for l in open(os.path.join(cdir, fn)):
            l = l.rstrip("\n")
            mcls = re.match(r";\s*class:\s*(\w+)", l)
            if mcls:
                cls = mcls.group(1)
            if not l.strip() or l.lstrip().startswith(";"):
                continue
            code, sep, want = l.partition(";=>")
            src.append(code.strip())
            exp.append(want.strip() if sep else None)
        rc, out, err = C.run_bin([C.bin_path("c06"), "hist"], "\n".join(src) + "\n", timeout=300)
        stats["dist"]["scm_corpus_histories"] += 1
        for li, (code, want, r) in enumerate(zip(src, exp, out.splitlines()[1:])):
            real = r.partition(" ## ")[0].strip()
            if want is None or real == ("ok " + want).strip():
                continue
            if cls and cls in known:
                ctx.known_finding("id=%s %s" % (cls, known[cls]))
                stats["known_hits"][cls] = stats["known_hits"].get(cls, 0) + 1
            else:
                ctx.violation("C06-corpus-%s" % fn, "\n".join(src[: li + 1]) +
                              "\n; line %d: real engine = %s ; expected = ok %s\n" % (li + 1, real, want))
            break
        if rc != 0:
            ctx.violation("C06-corpus-%s-crash.txt" % fn, "harness rc=%d\n%s" % (rc, err[-1000:]), no_input=True)


def run_kont_family(ctx, rng, n, stats, known):
    """Continuation histories on the real engine against the values the binding-cell semantics demands."""
    cases = [gen_kont_history(rng, rng.choice([0, 3, 130, 150])) for _ in range(n)]

    def run_batch(batch):
        text = "\n".join("\n".join(c[0]) + "\nreset" for c in batch) + "\n"
        return C.run_bin([C.bin_path("c06"), "hist"], text, timeout=600)

    batches = [cases[i:i + 20] for i in range(0, len(cases), 20)]     # one process serves at most 20 engines (see run_histories)
    res = C.pool_map(run_batch, batches) if len(batches) > 1 else [run_batch(b) for b in batches]
    bad_rc = [r for r in res if r[0] != 0]
    if bad_rc:
        ctx.violation("C06-kont-crash.txt", "harness rc=%d\n%s" % (bad_rc[0][0], bad_rc[0][2][-1500:]), no_input=True)
        return
    chunks = []
    for r in res:
        # the harness prints the init line of the NEXT engine after every reset: drop what follows a batch's last reset
        text = r[1]
        i = text.rfind("\nreset\n")
        chunks += C.split_on((text[: i + len("\nreset\n")] if i >= 0 else text).splitlines(), "reset")
    kd = stats["dist"]["continuation_histories"]
    for ci, ((lines, exp, first_resume, redefined), chunk) in enumerate(zip(cases, chunks)):
        kd["run"] += 1
        rl = chunk[1:]
        recycled, prev_s, bad = False, None, None
        for li, (src, e, r) in enumerate(zip(lines, exp, rl)):
            real, _, tail = r.partition(" ## ")
            t = dict(kv.split("=") for kv in tail.split())
            if prev_s is not None and int(t["s"]) < prev_s:
                recycled = True
            prev_s = int(t["s"])
            real = real.strip()
            if e is None:
                continue
            want = ("ok " + e).strip()
            if real != want:
                bad = (li, real, want)
                break
        kd["with_recycling_before_resume"] += recycled
        kd["with_redefinition_of_pending_code"] += redefined
        if bad is None:
            continue
        li, real, want = bad
        replay = "\n".join(lines[: li + 1]) + "\n; line %d: real engine = %s ; binding-cell semantics = %s\n" % (li + 1, real, want)
        # class of K06d: the continuation is resumed after a recycler run that happened after a binding read by the pending
        # code was redefined (the recycler does not scan the code a live continuation resumes)
        if li >= first_resume and recycled and redefined:
            kd["deviations_in_class_K06d"] += 1
            if "K06d" in known:
                ctx.known_finding("id=K06d %s" % known["K06d"])
                stats["known_hits"]["K06d"] = stats["known_hits"].get("K06d", 0) + 1
            else:
                ctx.violation("C06-kont-%d.scm" % ci, replay)
        else:
            ctx.violation("C06-kont-%d.scm" % ci, replay)


def unit_sequences(rng, n, length):
    seqs = []
    names = ["a", "b", "c", "d"]
    for _ in range(n):
        ops, ln = [], 0
        cps = []
        for _ in range(rng.randint(3, length)):
            r = rng.random()
            if r < 0.55:
                ops.append("add %s" % rng.choice(names)); ln += 1
            elif r < 0.70:
                ops.append("get %s" % rng.choice(names))
            elif r < 0.80:
                cps.append(ln); ops.append("mark")
            elif r < 0.90 and cps:
                cps.pop(); ops.append("rollbackmark")
            elif r < 0.95:
                # a recycler run: reclaimed slots are handed out again below the current length, so later definitions
                # and roll-backs no longer see slots in increasing order
                ops.append("recycle" + "".join(" %d" % rng.randrange(0, max(1, ln)) for _ in range(rng.randint(0, 2))))
                cps = []          # the engine never rolls back across a recycler run
                ops.append("mark"); ops.append("rollbackmark")      # forget older marks on both sides
            else:
                ops.append("state")
        ops.append("state")
        seqs.append(ops)
    # directed: the current definition of a name sits in a reclaimed slot BELOW an older shadowed slot of the same name,
    # the free list is empty again, then a build that redefines the name fails
    for nm in names:
        for extra in (0, 1, 3):
            ops = ["add %s" % nm, "add %s" % nm, "recycle", "add %s" % nm] + ["add z%d" % i for i in range(extra)]
            ops += ["state", "len", "add %s" % nm, "add q", "rollback %d" % (3 + extra), "state", "get %s" % nm]
            seqs.append(ops)
            ops = ["add %s" % nm, "add other", "add %s" % nm, "add %s" % nm, "recycle 0", "add %s" % nm, "add %s" % nm, "state",
                   "len", "add other", "add %s" % nm, "rollback %d" % 4, "state", "get %s" % nm, "get other"]
            seqs.append(ops)
    return seqs


def run_units(ctx, seqs, stats):
    text = "\n".join("\n".join(s) + "\nreset" for s in seqs) + "\n"
    rc, mout, _ = C.run_bin([C.driver_path("c06driver"), "unit"], text, timeout=300)
    rrc, rout, rerr = C.run_bin([C.bin_path("c06"), "unit"], text, timeout=300)
    ms, rs = C.split_on(mout.splitlines(), "reset"), C.split_on(rout.splitlines(), "reset")
    for i, (s, a, b) in enumerate(zip(seqs, ms, rs)):
        stats["unit_sequences"] += 1
        if a != b:
            k = next((j for j, (x, y) in enumerate(zip(a, b)) if x != y), 0)
            stats["unit_disagree"].append("sequence %s\n# line %d: real=%s model=%s" % (" ; ".join(s), k + 1, b[k] if k < len(b) else "?", a[k] if k < len(a) else "?"))


def run(ctx):
    stats = {"histories": 0, "evaluations": 0, "recycles_seen": 0, "model_vs_spec": 0, "seen": set(),
             "samples": [], "known_hits": {}, "unit_sequences": 0, "unit_disagree": [],
             "dist": {"pieces_inside_guards": 0, "pieces_after_leaving_guards": 0, "pieces_outside_gc": 0,
                      "pieces_outside_gb": 0, "pieces_outside_gu": 0, "pieces_outside_ga": 0, "max_frozen_cells": 0, "liveness_gap_max": 0, "rollbacks": 0, "runtime_failures": 0,
                      "recyclings_model": 0, "units_changed_by_constant_propagation": 0, "max_shadow_depth": 0,
                      "trigger_state_differs_inside_guards": 0, "free_count_differs_inside_guards": 0,
                      "free_count_max_excess_of_model": 0, "free_count_max_excess_of_engine": 0, "observing_pieces": 0, "observations": 0,
                      "recyclings_per_history": [], "difference_samples": [],
                      "scm_corpus_histories": 0, "continuation_histories": {"run": 0, "with_recycling_before_resume": 0,
                                                 "with_redefinition_of_pending_code": 0, "deviations_in_class_K06d": 0}}}
    known = {k["id"]: k["text"].split(" ", 5)[-1] for k in ctx.load_known() if "id" in k}
    rc, out = C.sh(["python3", os.path.join(C.VERIF, "translate", "c06_scan.py")], timeout=60)
    translator_ok = rc == 0
    ctx.log("translator: " + out.strip()[-200:])
    pr = C.prove(ctx, "C06", ["SteelVerif.C06.Rollback", "c06driver"])
    ok, log = C.build_harness(ctx, ["c06"])
    if not ok or not os.path.exists(C.driver_path("c06driver")):
        ctx.violation("C06-build.txt", "harness or driver does not build:\n" + log + pr["log"][-2000:], no_input=True)
        ctx.coverage = {"obligations": pr["obligations"], "discharged": pr["discharged"],
                        "checker_cmd": "lake build SteelVerif.C06.Props", "trusted_base": C.TRUSTED_BASE}
        return ctx.finish()

    rng = random.Random(ctx.seed)
    # corpus
    corpus = []
    cdir = os.path.join(C.VERIF, "corpus", "C06")
    for fn in sorted(os.listdir(cdir)):
        if fn.endswith(".hist"):
            corpus.append([l.strip().split(";") for l in open(os.path.join(cdir, fn)) if l.strip() and not l.startswith("#")])
    run_histories(ctx, corpus, "corpus", stats, {})
    # main stream (outside every finding class) + finding streams
    nh, ln = (24, 60) if ctx.quick() else (300, 160)
    # after EVERY step of a main history every function defined so far is called and every variable read (real vs S;
    # inside the guards M = S is a theorem and is re-checked on the driver's output)
    # (thorough tier: a third of the histories observe after every step, the others after every 5th)
    run_histories(ctx, [gen_history(rng, ln, "main", obs_every=1 if (ctx.quick() or i % 3 == 0) else 5) for i in range(nh)],
                  "main", stats, known)
    chains = [gen_chain_history(rng, d, 130, obs_every=3) for d in ((1, 2, 3, 4, 6) if ctx.quick() else (1, 2, 3, 4, 5, 6, 8, 12, 3, 4, 5))]
    run_histories(ctx, chains, "chain", stats, known)
    # long histories: the second recycler run (threshold 400), in the thorough tier also the third (800) and the run after
    # the epoch reset (threshold back to 100)
    longs = [gen_chain_history(rng, 3, 130, obs_every=5, more_churn=(420,))] if ctx.quick() else \
        [gen_chain_history(rng, d, 130, obs_every=5, more_churn=(420, 830, 130)) for d in (2, 5)]
    run_histories(ctx, longs, "long", stats, known)
    # liveness of the recycler: garbage cycles must be reclaimed (exact comparison of the free list's length)
    run_histories(ctx, [gen_cycle_history(rng, r) for r in ((40, 70) if ctx.quick() else (40, 70, 110, 150, 220, 60))],
                  "cycle", stats, known)
    for stream in ("k06a", "k06b", "k06c"):
        run_histories(ctx, [gen_history(rng, ln, stream) for _ in range(max(4, nh // 6))], stream, stats, known)
    run_scm_corpus(ctx, stats, known)
    run_kont_family(ctx, rng, 12 if ctx.quick() else 120, stats, known)
    d = stats["dist"]
    if d["trigger_state_differs_inside_guards"]:
        ctx.notes.append("shadowed count / threshold / epoch of the model differ from the engine's in %d evaluations inside the guards "
                         "(policy-level state, see distribution.difference_samples)" % d["trigger_state_differs_inside_guards"])
    if d["free_count_max_excess_of_engine"]:
        ctx.notes.append("the engine reclaimed up to %d slots more than the model in some recycler run: the model's values mention "
                         "slots the engine's values do not (expected where the compiler inlined a procedure into a caller of the "
                         "same unit - not modelled; every function is still called after every step)" % d["free_count_max_excess_of_engine"])
    for kid in known:
        if kid not in stats["known_hits"]:
            ctx.notes.append("open finding %s was not reproduced by this run" % kid)
    run_units(ctx, unit_sequences(rng, 400 if ctx.quick() else 20000, 30), stats)

    if not translator_ok and not ctx.violations:
        ctx.violation("C06-translator.txt", "translate/c06_scan.py no longer parses closed.rs:\n" + out, no_input=True)
    if not pr["ok"] and not ctx.violations:
        ctx.violation("C06-proof-broken.txt", "proof obligations of SteelVerif.C06.Props that no longer check:\n" +
                      "\n".join("%s: %s" % f for f in pr["failed"]) + "\n", no_input=True)
    if stats["unit_disagree"] and not ctx.violations:
        ctx.violation("C06-unit-correspondence.txt", "real SymbolMap and model disagree:\n" + "\n".join(stats["unit_disagree"][:5]) + "\n",
                      no_input=True)
    ctx.coverage = {
        "obligations": pr["obligations"], "discharged": pr["discharged"],
        "checker_cmd": "cd lean && lake build SteelVerif.C06.Props SteelVerif.C06.Rollback && lake env lean SteelVerif/C06/Audit.lean",
        "theorems": "liveness: recycle_frees_unreached, recycle_dead_iff, recycle_frees_candidate_cycles, recycle_inUse, pending_shadows_bounded, slots_bounded, walking_candidates_keeps_self_mention, retained_slots_are_not_reconsidered, gen_recycler_roots_exclude_candidates; history level: slots_refine_cells, slots_refine_cells_from, slots_refine_cells_any_reuse_order, live_slots_owned, propagate_refines_partial, slots_refine_cells_real, step_refines, pstep, redefinition_only_affects_later_code, set_visible_to_all, failed_unit_is_noop_partial + decided witnesses k06a/k06b/k06c/use_before_define_outside_guard, not_failedUnitIsNoop, not_pipeline_refines_unguarded; unit level: scan_complete, gen_recycler_fixpoint, get_add, recycle_safe, recycle_frees_only_shadowed, rollback_restores_partial, not_rollbackRestores, reachable_wf",
        "trusted_base": C.TRUSTED_BASE + ["translate/c06_scan.py (regex extraction of the recycler's op-code match)",
                                          "hand list of global-indexing op codes in LemmasRecycler.lean"],
        "evaluations": stats["evaluations"], "distinct_nontrivial": len(stats["seen"]),
        "continuation_code_scanned_by_recycler": "continuation_code_scanned=True" in out,
        "rule": "history = pieces from a seeded generator (define/redefine variables and functions that read/call earlier globals, setters, set!, failing builds incl. a name defined twice, run-time failures, churn that crosses the recycling threshold); after EVERY piece of a main history (every 3rd churn piece of a chain history, every 7th piece of the finding streams) a piece calls every named function and reads every variable; the driver evaluates guardC/guardB/guardU/guardA of the theorems per piece; non-trivial = an observing piece with a distinct (expected result, forms) pair",
        "samples": stats["samples"], "histories": stats["histories"],
        "recycling_events_observed_on_real_engine": stats["recycles_seen"],
        "distribution": dict(stats["dist"], recyclings_per_history={
            "histories_without": sum(1 for x in stats["dist"]["recyclings_per_history"] if x == 0),
            "histories_with_1": sum(1 for x in stats["dist"]["recyclings_per_history"] if x == 1),
            "histories_with_2_or_more": sum(1 for x in stats["dist"]["recyclings_per_history"] if x >= 2),
            "max": max(stats["dist"]["recyclings_per_history"] or [0])}),
        "model_M_vs_spec_S_differences": stats["model_vs_spec"],
        "unit_sequences": stats["unit_sequences"], "unit_disagreements": len(stats["unit_disagree"]),
        "known_finding_hits": stats["known_hits"], "axioms": pr.get("axioms", {}),
        "proof_failures": ["%s: %s" % f for f in pr["failed"]],
    }
    return ctx.finish("proof")


def replay(ctx, path):
    C.build_harness(ctx, ["c06"])
    if path.endswith(".scm"):
        # raw Steel source, one top-level evaluation per line (continuation histories): real engine only
        src = [l.rstrip("\n") for l in open(path) if l.strip() and not l.lstrip().startswith(";")]
        rout = C.run_bin([C.bin_path("c06"), "hist"], "\n".join(src) + "\n", timeout=120)[1]
        for l, r in zip(src, rout.splitlines()[1:]):
            if not l.startswith(("(define kjunk", "(define kw")):
                print("%-70s real: %s" % (l[:70], r[:60]))
        return 0
    h = [l.strip().split(";") for l in open(path) if l.strip() and not l.startswith("#")]
    steel = "\n".join(" ".join(to_steel(f) for f in p) for p in h) + "\n"
    rout = C.run_bin([C.bin_path("c06"), "hist"], steel, timeout=120)[1]
    m = re.match(r"init ## s=(\d+) f=(\d+) t=(\d+) e=(\d+)", rout)
    init = "init %s %s %s\n" % (m.group(1), m.group(3), m.group(4)) if m else ""
    abstract = init + "\n".join(";".join(p) for p in h) + "\n"
    mout = C.run_bin([C.driver_path("c06driver"), "hist"], abstract, timeout=120)[1]
    for p, r, ml in zip(h, rout.splitlines()[1:], mout.splitlines()):
        print("%-40s real: %-30s model: %s" % (";".join(p)[:40], r[:30], ml[:60]))
    return 0
