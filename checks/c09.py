"""C09 — tail calls run in constant space at any iteration count.

prove      : lake build SteelVerif.C09.Props (+ audit): the tail-call instruction reuses the frame, every call in
             tail position is compiled to it, a program whose procedures call only in tail position never has a
             suspended caller after any number of steps, the frame limit turns runaway recursion into an error.
correspond : loop shapes (self, mutual among k, through a parameter, apply, rest arguments, let-bound temporaries,
             captured variables, cond/when/and/or tails, named let) on the real engine, JIT on and off, with the
             `#%verif-stack-depth` probe at an early and a late iteration: both depths (frames, operand stack) must
             be equal, the loop must complete N iterations and give the expected value; deep non-tail recursion
             must return a value or an error, never crash.  The model VM runs the fragment-expressible shapes
             and generated fragment programs (tail-aware code vs reference semantics, frame depth).
"""
import os
import random
import re
import sys

from . import common as C

sys.path.insert(0, C.VERIF)
from gen.frag import gen_frag_program  # noqa: E402

PID = "C09"
META = {
    "ready": True,
    "category": "proof",
    "technique": "Lean 4 invariant over all executions of the tail-aware VM (frame depth never grows when calls are in tail position) + stack-depth probes on the real engine over loop shapes, JIT on/off",
    "level_text": "Proved for every program of the lowered core, every iteration count and every reachable state (SteelVerif/C09/Props.lean): tailcall_reuses_frame, step_depth, tail_positions_marked (all calls in tail position => the generated code contains no frame-pushing call), loop_constant_space / maxDepth_constant (such a program never has a suspended caller, whatever the number of steps), loop_operand_stack_bounded (its operand stack never holds more than largest arity + longest body, a bound in which the step count does not occur), loop_never_overflows (it never hits the frame limit), tail_loop_any_count (one concrete self-recursive loop halts with 1+...+n for EVERY n under every frame limit, after 11n+9 instructions), depth_bounded / frames_never_exceed_limit and call_at_limit_overflows (for every program the frame stack stays within the limit and the call beyond it yields an error value). deep_recursion_overflows (one concrete non-tail recursion ends with the error value for every limit and every depth >= limit). On the closure core of C01 (SteelVerif/C01/Core.lean: the REAL op codes FUNC / TAILCALL / TCOJMP / CALLGLOBAL(TAIL), one shared operand stack, first-class closures, captured and boxed variables, rest arguments; its code generator is PROVED correct in C01: compile_correct_core) SteelVerif/C09/PropsCore.lean proves: tail_positions_marked_core (every application in tail position of a lambda body - the body, both arms of a tail if, the body of a tail let, the last form of a tail begin, to any depth; computed, global and self callees - is emitted as TAILCALL / CALLGLOBALTAIL+TAILCALL / TCOJMP, never FUNC; nontail_app_is_func for the converse), step_frames_core (only FUNC and CALLGLOBAL ever add a frame, and at most one), C01 tail_call_constant_frames / tail_call_stack_height / tail_call_global_constant_frames (a tail call through a variable, a capture or a call result leaves the frame count and the frame base unchanged and the stack is base ++ args), core_tail_loop_any_count (a TCOJMP loop halts for EVERY n after 11n+10 instructions with at most 1 frame and 5 operands at every point), the frame limit (stepLimited follows check_stack_overflow): frames_never_exceed_limit_core, call_at_limit_overflows_core, tail_call_never_overflows_core, runLimited_eq_run, deep_recursion_errors_core (non-tail recursion ends in the overflow error for every limit, never stuck). Not yet proved in general: core_loop_constant_space for EVERY tail-only closure program (stated in PropsCore.lean; its static and per-instruction halves are the theorems above). apply and handlers are not in the model; see the list at the end of Props.lean. The real engine is tied in by probes: for each loop shape the frame-stack length and the operand-stack length at an early and at a late iteration are read with the cfg(steel_verif) builtin #%verif-stack-depth and must be equal, for 10^6 (quick) / 10^7 (thorough) iterations, with STEEL_JIT on and off.",
    "level_note": "Trusted: Lean kernel, harness/probe, my transcription of code_gen.rs/vm.rs tail-call handling (tail-aware compile is validated against the reference semantics differentially, its correctness is not proved). Not modelled: native stack of the Rust vm() recursion, resident memory, Cranelift code.",
}


def shapes(n):
    """(name, steel source).  Every program ends with (list result early-depth late-depth)."""
    # probes at three iterations that are congruent modulo 30 (= lcm of the cycle lengths 1, 2, 3, 5), so that all
    # three are taken inside the same procedure of a mutual cycle: which procedure of the cycle the probe is in
    # changes the depth by a constant, the iteration count must not
    early = 7 + 30 * ((n - 37) // 30)
    mid = 7 + 30 * ((n // 2) // 30)
    pro = ("(define d1 #f) (define d2 #f) (define d3 #f) (define (probe i) (cond [(= i %d) (set! d1 (#%%verif-stack-depth))] "
           "[(= i %d) (set! d3 (#%%verif-stack-depth))] [(= i 7) (set! d2 (#%%verif-stack-depth))] [else #f]))\n" % (early, mid))
    end = "\n(list r d1 d2 d3)"
    s = []
    s.append(("self", pro + "(define (loop i acc) (probe i) (if (= i 0) acc (loop (- i 1) (+ acc 1))))\n(define r (loop %d 0))" % n + end))
    for k in (2, 3, 5):
        fs = "".join("(define (f%d i acc) (probe i) (if (= i 0) acc (f%d (- i 1) (+ acc 1))))\n" % (j, (j + 1) % k) for j in range(k))
        s.append(("mutual%d" % k, pro + fs + "(define r (f0 %d 0))" % n + end))
    s.append(("param", pro + "(define (loop f i acc) (probe i) (if (= i 0) acc (f f (- i 1) (+ acc 1))))\n(define r (loop loop %d 0))" % n + end))
    s.append(("apply", pro + "(define (loop i acc) (probe i) (if (= i 0) acc (apply loop (list (- i 1) (+ acc 1)))))\n(define r (loop %d 0))" % n + end))
    # apply whose callee takes all of its arguments as a rest list, and apply with leading operands before the list
    s.append(("apply-rest-only", pro + "(define (loop . st) (probe (car st)) (if (= (car st) 0) (cadr st) (apply loop (list (- (car st) 1) (+ (cadr st) 1)))))\n(define r (loop %d 0))" % n + end))
    s.append(("apply-spread", pro + "(define (loop i . st) (probe i) (if (= i 0) (car st) (apply loop (- i 1) (list (+ (car st) 1)))))\n(define r (loop %d 0))" % n + end))
    s.append(("apply-lambda-args", pro + "(define loop (lambda args (probe (car args)) (if (= (car args) 0) (cadr args) (apply loop (- (car args) 1) (+ (cadr args) 1) '()))))\n(define r (loop %d 0))" % n + end))
    s.append(("rest", pro + "(define (loop i . rest) (probe i) (if (= i 0) (car rest) (loop (- i 1) (+ (car rest) 1))))\n(define r (loop %d 0))" % n + end))
    s.append(("let-temps", pro + "(define (loop i acc) (probe i) (if (= i 0) acc (let ((j (- i 1)) (a (+ acc 1))) (let* ((b a) (c j)) (loop c b)))))\n(define r (loop %d 0))" % n + end))
    s.append(("captured", pro + "(define (make) (let ((c 0)) (define (loop i) (probe i) (if (= i 0) c (begin (set! c (+ c 1)) (loop (- i 1))))) loop))\n(define r ((make) %d))" % n + end))
    s.append(("cond-tail", pro + "(define (loop i acc) (probe i) (cond [(= i 0) acc] [(even? i) (loop (- i 1) (+ acc 1))] [else (when #true (loop (- i 1) (+ acc 1)))]))\n(define r (loop %d 0))" % n + end))
    s.append(("and-or-tail", pro + "(define (loop i acc) (probe i) (or (and (= i 0) acc) (and (> i 0) (loop (- i 1) (+ acc 1)))))\n(define r (loop %d 0))" % n + end))
    s.append(("named-let", pro + "(define r (let lp ((i %d) (acc 0)) (probe i) (if (= i 0) acc (lp (- i 1) (+ acc 1)))))" % n + end))
    s.append(("begin-tail", pro + "(define (loop i acc) (if (= i 0) acc (begin (probe i) (loop (- i 1) (+ acc 1)))))\n(define r (loop %d 0))" % n + end))
    s.append(("higher-order", pro + "(define (step k i acc) (k (- i 1) (+ acc 1)))\n(define (loop i acc) (probe i) (if (= i 0) acc (step loop i acc)))\n(define r (loop %d 0))" % n + end))
    return s


def model_shapes(n):
    """The shapes expressible in the lowered core, as driver text."""
    out = []
    out.append("fn 2 (if (p le (l 0) (c 0)) (l 1) (call 0 (p sub (l 0) (c 1)) (p add (l 1) (c 1))))\nmain (call 0 (c %d) (c 0))" % n)
    out.append("fn 2 (if (p le (l 0) (c 0)) (l 1) (call 1 (p sub (l 0) (c 1)) (p add (l 1) (c 1))))\n"
               "fn 2 (if (p le (l 0) (c 0)) (l 1) (call 2 (p sub (l 0) (c 1)) (p add (l 1) (c 1))))\n"
               "fn 2 (if (p le (l 0) (c 0)) (l 1) (call 0 (p sub (l 0) (c 1)) (p add (l 1) (c 1))))\nmain (call 0 (c %d) (c 0))" % n)
    out.append("fn 2 (if (p le (l 0) (c 0)) (l 1) (let (p sub (l 0) (c 1)) (let (p add (l 1) (c 1)) (seq (c 0) (call 0 (l 2) (l 3))))))\nmain (call 0 (c %d) (c 0))" % n)
    return out


def space_shapes():
    """Loops that carry heap values in their loop variables: (name, source with %d for the iteration count).
    Each old value is garbage as soon as it is replaced, so the peak resident memory must not depend on the count."""
    s = []
    s.append(("str-replaced", "(define (lp n label) (if (= n 0) label (lp (- n 1) (make-string 200 #\\x))))\n(string-length (lp %d \"start\"))"))
    s.append(("str-read", "(define (lp n label) (if (= n 0) label (lp (- n 1) (string-append (substring label 0 1) (make-string 199 #\\y)))))\n(string-length (lp %d \"start\"))"))
    s.append(("list-replaced", "(define (lp n l) (if (= n 0) l (lp (- n 1) (list n n n n n n n n))))\n(length (lp %d '()))"))
    s.append(("vector-replaced", "(define (lp n v) (if (= n 0) v (lp (- n 1) (make-vector 16 n))))\n(vector-length (lp %d (vector)))"))
    s.append(("two-carried", "(define (lp n a b) (if (= n 0) (list a b) (lp (- n 1) b (make-string 100 #\\z))))\n(length (lp %d \"p\" \"q\"))"))
    s.append(("mutual-carried", "(define (ev n s) (if (= n 0) s (od (- n 1) (make-string 150 #\\e))))\n(define (od n s) (if (= n 0) s (ev (- n 1) (list n s))))\n(ev %d \"s\")"))
    s.append(("closure-carried", "(define (lp n k) (if (= n 0) (k) (lp (- n 1) (let ((m (make-string 120 #\\c))) (lambda () (string-length m))))))\n(lp %d (lambda () 0))"))
    return s


def run_space(args):
    """Peak resident memory (kB) of one loop with `count` iterations; module = the text is a required file."""
    name, src, count, jit, module = args
    env = {"STEEL_JIT": "true" if jit else "false", "VH_RSS": "1"}
    text = src % count
    path = None
    if module:
        d = os.path.join(C.BUILD, "C09", "mods")
        os.makedirs(d, exist_ok=True)
        path = os.path.join(d, "space-%s-%d-%s-%d.scm" % (name, count, "jit" if jit else "nojit", os.getpid()))
        body = text.rsplit("\n", 1)
        with open(path, "w") as f:
            f.write(body[0] + "\n(displayln " + body[1] + ")\n")
        text = '(require "%s")' % path
    rc, out, err = C.run_bin([C.bin_path("vh"), "eval"], text + "\n", timeout=1800, env=env)
    if path:
        try:
            os.remove(path)
        except OSError:
            pass
    m = re.findall(r"## rss_kb=(\d+) hwm_kb=(\d+)", out)
    ok = rc == 0 and "=> ok" in out
    return name, count, jit, module, ok, int(m[-1][1]) if m else -1, (out + err)[-300:]


def run_one(args):
    name, src, jit = args
    env = {"STEEL_JIT": "true" if jit else "false"}
    if name.startswith("module:"):
        # the way `steel file.scm` runs a script: the text is a module, required from the top level; module-level
        # procedures are compiled (and JIT-compiled) differently from top-level ones
        d = os.path.join(C.BUILD, "C09", "mods")
        os.makedirs(d, exist_ok=True)
        path = os.path.join(d, "%s-%s-%d.scm" % (name[7:], "jit" if jit else "nojit", os.getpid()))
        body = src.rsplit("\n", 1)
        with open(path, "w") as f:
            f.write(body[0] + "\n(displayln " + body[1] + ")\n")
        rc, out, err = C.run_bin([C.bin_path("vh"), "eval"], '(require "%s")\n' % path, timeout=900, env=env)
        try:
            os.remove(path)
        except OSError:
            pass
        lines = [l for l in out.strip().splitlines() if l.strip()]
        last = lines[-1] if lines else ""
        if last.startswith("=> ok") and len(lines) >= 2:
            last = "=> ok " + lines[-2]          # the list printed by the module
        return name, jit, rc, last, err[-300:]
    rc, out, err = C.run_bin([C.bin_path("vh"), "eval"], src + "\n", timeout=900, env=env)
    return name, jit, rc, out.strip().splitlines()[-1] if out.strip() else "", err[-300:]


def run(ctx):
    stats = {"evaluations": 0, "seen": set(), "samples": [], "model": 0}
    pr = C.prove(ctx, "C09", ["c09driver"])
    ok, log = C.build_harness(ctx, ["vh"])
    if not ok or not os.path.exists(C.driver_path("c09driver")):
        ctx.violation("C09-build.txt", "harness or driver does not build:\n" + log + pr["log"][-2000:], no_input=True)
        ctx.coverage = {"obligations": pr["obligations"], "discharged": pr["discharged"],
                        "checker_cmd": "lake build SteelVerif.C09.Props", "trusted_base": C.TRUSTED_BASE}
        return ctx.finish()
    n = 1000000 if ctx.quick() else 10000000
    jobs = [(name, src, jit) for name, src in shapes(n) for jit in (True, False)]
    jobs += [("module:" + name, src, jit) for name, src in shapes(n) for jit in (True, False)]
    # non-tail recursion: deep but below the limit must work; it must never crash the host
    deep = "(define (deep n) (if (= n 0) 0 (+ 1 (deep (- n 1)))))\n(define r (deep %d))\n(list r 0 0 0)" % (200000 if ctx.quick() else 2000000)
    jobs += [("deep-nontail", deep, True), ("deep-nontail", deep, False)]
    for name, jit, rc, last, err in C.pool_map(run_one, jobs):
        stats["evaluations"] += 1
        stats["seen"].add((name, jit))
        m = re.match(r"=> ok .*\((\d+) (?:\((\d+) (\d+)\)|0) (?:\((\d+) (\d+)\)|0) (?:\((\d+) (\d+)\)|0)\)$", last)
        expect = n if name != "deep-nontail" else (200000 if ctx.quick() else 2000000)
        bad = None
        if rc != 0:
            bad = "the host process died (rc=%d) %s" % (rc, err)
        elif not m:
            bad = "unexpected result line: %s" % last[:200]
        elif int(m.group(1)) != expect:
            bad = "wrong value %s (expected %d)" % (m.group(1), expect)
        elif name != "deep-nontail" and not ((m.group(2), m.group(3)) == (m.group(4), m.group(5)) == (m.group(6), m.group(7))):
            bad = "stack depth changes with the iteration count: (frames, operands) = (%s, %s) near the start, (%s, %s) half way, (%s, %s) near the end" % (
                m.group(2), m.group(3), m.group(6), m.group(7), m.group(4), m.group(5))
        if len(stats["samples"]) < 3:
            stats["samples"].append({"shape": name, "jit": jit, "iterations": n, "result_line": last[-80:]})
        if bad:
            src = dict((nm, s) for nm, s in shapes(n)).get(name.replace("module:", ""), deep)
            ctx.violation("C09-%s-%s.scm" % (name.replace(":", "-"), "jit" if jit else "nojit"),
                          "; STEEL_JIT=%s ; %s%s\n%s\n" % (jit, "MODULE (the text below is a file, evaluated by (require \"file\")) ; " if name.startswith("module:") else "", bad, src))

    # the frame limit: non-tail recursion deeper than the limit (10^7 frames; the compiler unrolls a self call once,
    # so 2.4*10^7 levels) must end with an error value that a handler can catch, on every call path
    limit_src = ("(define (depth n) (if (= n 0) 0 (+ 1 (depth (- n 1)))))\n"
                 "(define (try n) (with-handler (lambda (e) 'error-value) (depth n)))\n"
                 "(define r (list (try 100000) (try 24000000) 'alive))\n(list r 0 0 0)")
    # the same when every level pushes two frames (the call and the thunk of an exception handler), entered at both
    # parities of the frame count: the limit must not be stepped over by frames that are pushed without a test.
    # The innermost handler receives the error value and counts it.  (No call/cc variant: capturing a continuation at
    # every level of a 10^7-deep recursion copies the stack each time and needs > 60 GB.)
    limit2_src = ("(define slot (vector #f))\n(define hit 0)\n"
                  "(define (deep n) (if (= n 0) 0 (+ 1 (call-with-exception-handler (lambda (e) (set! hit (+ hit 1)) 0) "
                  "(lambda () (+ 1 ((vector-ref slot 0) (- n 1))))))))\n(vector-set! slot 0 deep)\n"
                  "(define (enter-a n) ((vector-ref slot 0) n))\n(define (enter-b n) (+ 1 ((vector-ref slot 0) n)))\n"
                  "(define small (enter-a 1000))\n(define ra (enter-a 10500000))\n(define ha hit)\n(set! hit 0)\n"
                  "(define rb (enter-b 10500000))\n(define r (list small (> ha 0) (> hit 0) 'alive))\n(list r 0 0 0)")
    lsrc = {"limit": (limit_src, "(100000 error-value alive)"), "limit-handler-frames": (limit2_src, "(2000 #true #true alive)")}
    ljobs = [(pre + nm, lsrc[nm][0], jit) for nm in lsrc for pre in ("", "module:") for jit in (True, False)]
    for name, jit, rc, last, err in C.pool_map(run_one, ljobs):
        stats["evaluations"] += 1
        stats["seen"].add((name, jit))
        src_l, want = lsrc[name.replace("module:", "")]
        if rc != 0 or want not in last:
            ctx.violation("C09-%s-%s.scm" % (name.replace(":", "-"), "jit" if jit else "nojit"),
                          "; STEEL_JIT=%s ; %srecursion past the frame limit must give an error value: expected (%s 0 0 0), got rc=%d %s %s\n%s\n" % (
                              jit, "MODULE ; " if name.startswith("module:") else "", want, rc, last[-120:], err[-200:], src_l))

    # constant space, not only constant stack depth: peak resident memory of loops that carry heap values must not
    # grow with the iteration count (a loop variable replaced on every iteration without being consumed is the
    # case where a slot that is overwritten rather than moved out leaks its old value)
    small, big = 10000, (1000000 if ctx.quick() else 10000000)
    margin_kb = 40 * 1024 if ctx.quick() else 96 * 1024
    sjobs = [(nm, src, cnt, jit, mod) for nm, src in space_shapes() for jit in (True, False) for mod in (True, False)
             for cnt in (small, big)]
    peak = {}
    for nm, cnt, jit, mod, ok, hwm, tail in C.pool_map(run_space, sjobs):
        stats["evaluations"] += 1
        stats["seen"].add(("space:" + nm, jit, mod))
        peak[(nm, jit, mod, cnt)] = (ok, hwm, tail)
    for nm, src in space_shapes():
        for jit in (True, False):
            for mod in (True, False):
                (ok1, h1, t1), (ok2, h2, t2) = peak[(nm, jit, mod, small)], peak[(nm, jit, mod, big)]
                bad = None
                if not ok1 or not ok2:
                    bad = "the loop did not complete: %s" % (t2 if ok1 else t1)
                elif h2 - h1 > margin_kb:
                    bad = "peak resident memory grows with the iteration count: %d kB for %d iterations, %d kB for %d (allowed growth %d kB)" % (
                        h1, small, h2, big, margin_kb)
                if bad:
                    ctx.violation("C09-space-%s-%s-%s.scm" % (nm, "module" if mod else "toplevel", "jit" if jit else "nojit"),
                                  "; STEEL_JIT=%s ; %s%s\n%s\n" % (jit, "MODULE ; " if mod else "", bad, src % big))

    # model: shapes + generated fragment programs (tail-aware code vs reference semantics; depth when tail-only)
    rng = random.Random(ctx.seed)
    frags = [gen_frag_program(rng, 3)[0] for _ in range(400 if ctx.quick() else 20000)]
    text = "\n".join(["big\n" + m for m in model_shapes(20000)] + frags) + "\n"
    rc, out, _ = C.run_bin([C.driver_path("c09driver")], text, timeout=900)
    for i, l in enumerate(out.splitlines()):
        stats["model"] += 1
        m = re.match(r"ref=(\S+) vmT=(\S+) maxdepth=(\d+) tailonly=(\w+)", l)
        if not m:
            continue
        ref, vm, depth, tailonly = m.groups()
        if ref != "none" and ref != vm:
            ctx.violation("C09-model-%d.txt" % i, "tail-aware code and reference semantics disagree in the model: %s\n" % l, no_input=True)
        if tailonly == "true" and depth != "1":
            ctx.violation("C09-model-depth-%d.txt" % i, "model: tail-only program ran at depth %s (loop_constant_space would be false): %s\n" % (depth, l),
                          no_input=True)
    if not pr["ok"] and not ctx.violations:
        ctx.violation("C09-proof-broken.txt", "proof obligations of SteelVerif.C09.Props that no longer check:\n" +
                      "\n".join("%s: %s" % f for f in pr["failed"]) + "\n", no_input=True)
    ctx.coverage = {
        "obligations": pr["obligations"], "discharged": pr["discharged"],
        "checker_cmd": "cd lean && lake build SteelVerif.C09.Props && lake env lean SteelVerif/C09/Audit.lean",
        "trusted_base": C.TRUSTED_BASE + ["the cfg(steel_verif) builtin #%verif-stack-depth"],
        "evaluations": stats["evaluations"] + stats["model"], "distinct_nontrivial": len(stats["seen"]),
        "rule": "one run per (loop shape, STEEL_JIT setting) with %d iterations and depth probes at three iterations (start, half way, end; congruent mod 30); distinct = different shape/config; plus %d model programs" % (n, stats["model"]),
        "samples": stats["samples"], "iterations_per_loop": n, "model_programs": stats["model"],
        "axioms": pr.get("axioms", {}), "proof_failures": ["%s: %s" % f for f in pr["failed"]],
    }
    return ctx.finish("proof")


def replay(ctx, path):
    C.build_harness(ctx, ["vh"])
    src = open(path).read()
    jit = "STEEL_JIT=True" in src.splitlines()[0]
    first = src.splitlines()[0]
    body = "\n".join(l for l in src.splitlines() if not l.startswith(";"))
    print(run_one((("module:replay" if "MODULE" in first else "replay"), body, jit)))
    return 0
