"""C15 — world-stopping operations see other threads only while they are stopped.

translate  : translate/c16_callpaths.py (gate sites of with_locked_env) and translate/c15_exits.py (every ctx.store(None) of vm.rs: re-check after
             the retraction, fence, re-publication; fence at the end of stop_threads; heap-lock guard around clone + registration in
             spawn_native_thread) -> GenExitsTable.lean + obligations exit_rechecks_after_retract, stop_requests_fenced,
             spawn_registers_under_heap_lock (excused only while K15a / K15b are OPEN in KNOWN_FINDINGS.txt) -> which MODEL is the code:
             Model.lean (`fix`) or the repaired ModelR.lean; a failing input is excused as K15a / K15b only if the model of the code
             has the defect.
prove      : lake build SteelVerif.C15.Props + axiom audit: scan_exclusive_repaired / env_coherent_repaired (the repaired handshake, full
             strength, no guard), R.Litmus (store buffers); scan_exclusive_partial(_code), env_coherent_partial(_code),
             env_published_partial for all N and all interleavings under the decidable guard G; negation witnesses
             not_scan_exclusive(_code) (exit race, K15a), not_env_coherent(_code) (late registration, K15b).
correspond : (a0) HOST-SIDE scenarios (harness c15, `hostprog`): script threads left alive by an earlier Engine::run (servers on channels), then
             random histories of host calls that assign existing globals (update_value, run of set!) or define new ones (register_value,
             register_fn, run of define) mixed with assignments by the threads; every write is followed by reads through the host and
             through the threads; oracle: one sequentially consistent store (a write by somebody else to another global must not undo it);
             (a) model schedules of corpus/C15/*.msched on the driver; (b) FORCED interleavings of real threads of the real
             engine through the cfg(steel_verif) yield points (harness c15): corpus/C15/*.sched and generated variants — a
             thread is held at a chosen point of its safepoint entry / exit while another thread runs a global update up to a
             chosen point; stale unpark tokens (a thread that sat in a primitive during / was the stopper of an earlier round must park AGAIN), a collection
             held while it marks (hooks gc.mark.begin / gc.mark.end, when the tree has them); a thread must never be reported at the head of
             its dispatch loop while another thread is between scan.begin and scan.end on it or has the world stopped; the per-thread
             `being scanned` counter must never be seen raised by a dispatching thread, no
             thread may panic, the value must be the expected one; (c) programs with 2-8 threads (per-thread global counters,
             readers of globals, allocation, spawns during updates) with random delay injection at the window borders.
oracle     : the specification S: a scanned thread is parked or inside a primitive (scanviol = 0, no thread runs on a swapped
             table); an assignment completed by one thread is seen by every thread afterwards (values).
"""
import json
import os
import random
import re

from . import common as C

PID = "C15"
META = {
    "ready": True,
    "category": "proof",
    "technique": "Lean 4 invariant proofs over two step-level transition systems of the safepoint handshake (the code as it is, under a guard; the REPAIRED handshake, no guard; any number of threads, all interleavings) + a store-buffer litmus for the Dekker pair + forced interleavings of real threads through cfg(steel_verif) yield points + multi-threaded programs with delay injection and an in-core `being scanned` detector",
    "level_text": "Theorems (lean/SteelVerif/C15/Props.lean; model = C15/Model.lean: N script threads and stopper roles as one transition system, every access to a thread's pause flag, state, published pointer, park token, the threads mutex and the heap mutex one atomic step; stop_threads, enumerate_stacks / call_per_ctx, resume_threads, with_locked_env, enter_safepoint, the dispatch poll, spawn-before-registration and host interrupts modelled as the code has them): scan_exclusive_partial_code - for every number of threads and EVERY interleaving that respects the decidable guard G (rounds do not overlap a spawn or a host interrupt; no stop request reaches a thread between its last exit check and its retraction), a thread whose stack / global table is being inspected or replaced is parked at a safepoint or inside a primitive that published it; env_coherent_partial_code / env_published_partial - when no round is in progress every live thread holds the newest global table. For the current code (heap-lock guard kept during with_locked_env) the guard's clause 'rounds do not overlap each other' is implied: C16/Props.lean scan_exclusive_fixed / env_coherent_fixed state both theorems under the weaker guard GFix. The FULL statements are false for the code as it is, proved from concrete schedules: not_scan_exclusive_code (safepoint exit race, 21 steps, N = 2: finding K15a) and not_env_coherent_code (a thread spawned during a round keeps the old table: K15b). REPAIRED HANDSHAKE (lean/SteelVerif/C15/ModelR.lean, LemmasR, StepR*, PropsR: K15a - every safepoint exit retracts and then re-checks the stop request and re-publishes if one arrived; K15b - spawn-native-thread holds the heap lock from before it clones its state until the child is registered; K17a/K17c - the controller as one word of request bits, every operation one atomic read-modify-write, exit loops wait on STOP only): R.step_inv - EVERY step preserves the invariant, no guard; scan_exclusive_repaired and env_coherent_repaired are the two C15 statements at FULL strength, for every number of threads and every schedule including host interrupt()/resume() on any controller and spawns at any time; scanned_stays / scanned_stop_set (a scanned thread's re-check never reads 'not stopped'), parked_has_wakeup (no lost wake-up in the new loop). R.Litmus (LitmusR.lean): the Dekker pair [stopper: paused.store; ctx.load] / [thread: ctx.store(None); paused.load] with one-slot store buffers - without fences the unsound outcome is reachable (sb_buffered_bad), with a fence between each store and the following load it is not (sb_fenced_safe, all interleavings by exhaustive evaluation). The K15a (with the two fences) and K15b repairs are in /repo (51ca93da, 467a8def); translate/c15_exits.py re-derives from the source on every run that every ctx.store(None) is followed by a fenced re-check and a re-publication, that stop_threads fences its requests and that spawn-native-thread clones and registers under the heap lock (obligations exit_rechecks_after_retract, stop_requests_fenced, spawn_registers_under_heap_lock in GenExits.lean, no exceptions once the findings are `fixed:`), and the check then compares the real engine with the repaired model (Driver repaired). The controller of the code is still two cells: ModelR is the model of the code for schedules without interrupt()/suspend(); with a host interrupt a scanned thread still leaves its safepoint (K15c, forced deterministically; oracle: a thread reported at the head of its dispatch loop while another thread is between scan.begin and scan.end on it); the one-word controller is proposed as .build/C15/proposed-fix-K17ac.diff. Progress of the repaired handshake: C16/ProgressR.lean (no_deadlock_repaired, stop_round_terminates, awaited_settles). Further table obligations regenerated from the source: park_is_in_a_loop (the nearest loop around every park() is a while on the request word; model side: staleToken_if_violates - before the K15a repair a poll that parks once violates the scan clause with one stale token, under the guard - and R.staleTokenR_if_recaught - on the repaired handshake the re-check catches it) and collection_resumes_last (values/closed.rs: the function that stops the world does not resume, every resume_threads stands after the marking call). Host-side definitions / assignments (Engine::update_value, register_value, register_fn) are tied by a differential family only (threads left alive by an earlier run; oracle: one sequentially consistent store). NOT a theorem: that the Rust code follows the model. That is the correspondence run: the interleavings of the witnesses and of generated variants are FORCED on real threads through yield-point hooks (the exit race reproduces deterministically: the dispatch loop records that it runs while its thread is being scanned; with the JIT the thread indexes the swapped, empty table and the process aborts), and generated multi-threaded programs run with delay injection under the in-core detector.",
    "level_note": "The one-word controller of the repaired model is a PROPOSED change (K17ac diff); exits and spawn of the repaired model are the code. Trusted: Lean kernel (axioms propext, Classical.choice, Quot.sound), harnesses c15 / c16 and the yield-point hooks (add-only, cfg(steel_verif)), the python classification. Modelled, not verified: sequentially consistent atomics in both handshake models (the code loads `paused` Relaxed; for the code as it is a store-buffer delay only widens the window the guard already excludes; for the repaired handshake the one Dekker pair that needs store->load ordering is the litmus R.Litmus), spurious park wake-ups are modelled, OS fairness is not assumed; thread list order = spawn order; the JIT's native code is 'runs until the next helper call'. The `being scanned` detector is read at instruction dispatch only, so in the interpreter a thread that escapes through an enter_safepoint exit re-parks at its next poll before the detector fires (the forced poll-exit schedule and the JIT abort are the observable forms).",
}

# a thread looked a global up in the empty table installed by another thread's with_locked_env: before /repo 4b9c5de8 native
# code indexed the empty vector (panic); since then the JIT helpers' unchecked lookup yields void, reported as an application
# of a non-procedure (none of the programs below applies void or refers to an undefined name by itself)
ABORT_K15A = re.compile(r"index out of bounds: the len is 0")
VOID_K15A = re.compile(r"Function.application.not.a.procedure.or.function.type.not.supported:.#<void>|Cannot.reference.an.identifier.before.its.definition")
_SEEN = set()


def kf(ctx, kid, text):
    if kid in _SEEN:
        return
    _SEEN.add(kid)
    ctx.known_finding(text)


# ---------------------------------------------------------------------------------------------- forced schedules

PROG1 = ("(define g 0) (define (spin n acc) (if (= n 0) acc (spin (- n 1) (+ acc 1)))) "
         "(define t (spawn-native-thread (lambda () (c15-id! 1) (spin %d 0)))) "
         "(c15-mark!) %s (list g (thread-join! t))")
OPS = {"set": ("(set! g 1)", "1"), "define": ("(eval '(define fresh 5)) (set! g 1)", "1")}
# where thread 1 is when the stop request is issued (it is first held at `sp.exit.load`: published, before its exit check)
HOLD1 = ["sp.exit.load", "sp.exit.retract", "sp.enter", "vm.dispatch"]
HOLD0 = ["scan.begin", "scan.end", "env.thunk", "env.update_own", "resume.self", "resume.thread"]


def is_race_class(sched_text):
    """Class predicate of K15a on a forced schedule: some thread is held right before its retraction (it has read
    paused = false) and, before it is released, another thread is driven into a stop round."""
    held = set()
    for l in sched_text.splitlines():
        f = l.split()
        if len(f) >= 2 and f[0].isdigit():
            t, site = f[0], f[-1]
            if f[1] in ("go", "free"):
                held.discard(t)
            elif f[1] != "at" and site in ("sp.exit.retract", "poll.retract"):
                held.add(t)
            elif f[1] != "at":
                held.discard(t)
            if any(u != t for u in held) and re.match(r"(stop\.|scan\.|env\.|resume\.)", site):
                return True
    return False


# sites at which the thread that is held there has the WORLD stopped (every other thread is parked or inside a primitive until its
# resume_threads): after the first pass over the other threads of with_locked_env, during the marking of a collection
WORLD_STOPPED = ("env.thunk", "env.update_own", "gc.mark.begin", "gc.mark.end")


def scanned_thread_outside(sched_text, out_lines):
    """Oracle S on a forced schedule with two script threads (0 and 1): some thread X is HELD between scan.begin and scan.end (it
    is reading / replacing the state of the other thread Y), or at a site where it has the whole world stopped (WORLD_STOPPED),
    and Y is then reported held at `vm.dispatch` - the head of the dispatch loop, outside every safepoint.  Returns (X, Y) or
    None.  The k-th schedule line (comments / prog excluded) is answered by the k-th `ok`/`timeout` line."""
    cmds = [l.split() for l in sched_text.splitlines() if l.strip() and not l.startswith(("#", "prog "))]
    inside = {}
    for f, o in zip(cmds, out_lines):
        if not f or not f[0].isdigit():
            continue
        t = f[0]
        ok = o.startswith("ok ")
        site = f[1] if len(f) == 2 else (f[2] if len(f) == 4 and f[1] == "probe" else (f[2] if len(f) == 3 and f[1] == "at" else None))
        if site is not None and f[1] not in ("free",):
            if ok and (site == "scan.begin" or site in WORLD_STOPPED):
                inside[t] = True
            elif ok and site == "vm.dispatch" and any(x != t for x in inside):
                return (next(x for x in inside if x != t), t)
            elif ok and f[1] != "probe":
                inside.pop(t, None)
        elif len(f) >= 2 and f[1] in ("go", "free"):
            inside.pop(t, None)
    return None


def has_interrupt(sched_text):
    return any(l.split()[:1] in (["int"], ["hint"]) for l in sched_text.splitlines() if l.strip())


def gen_forced(rnd, n):
    out = []
    combos = [(h1, h0, op) for h1 in HOLD1 for h0 in HOLD0 for op in OPS]
    rnd.shuffle(combos)
    for h1, h0, op in combos[:n]:
        code, val = OPS[op]
        prog = PROG1 % (rnd.choice([300, 1200]), code)
        lines = ["prog " + prog, "0 mark"]
        jit = None
        if h1 in ("sp.exit.load", "sp.exit.retract"):
            lines += ["1 %s" % h1, "0 %s" % h0, "1 go sp.enter"]
        elif h1 == "sp.enter":          # not yet published: the stopper has to wait for it
            lines += ["1 sp.enter", "0 go %s" % h0, "wait 40", "1 sp.exit.load", "0 at %s" % h0, "1 go sp.enter"]
        else:                            # caught by the dispatch poll (interpreter only)
            jit = "false"
            lines += ["dispatch on", "1 vm.dispatch", "0 go %s" % h0, "wait 40", "1 poll.exit.load", "0 at %s" % h0,
                      "dispatch off", "1 go sp.enter"]
        lines += ["wait 30", "end 5000"]
        text = ("# generated: thread 1 at %s when the stopper (%s) is driven to %s\n" % (h1, op, h0)
                + ("# jit=false\n" if jit else "") + "\n".join(lines) + "\n")
        out.append(("gen-%s-%s-%s" % (h1, h0, op), text))
    return out


def run_sched(text, jit, attempt=0):
    rc, so, se = C.run_bin([C.bin_path("c15")], text, timeout=90, env={"STEEL_JIT": jit})
    r = [l for l in so.splitlines() if l.startswith("result ")]
    kv = {"rc": rc, "stderr": (se or "")[-1200:], "timeouts": [l for l in so.splitlines() if l.startswith("timeout") and " probe " not in l],
          "lines": [l for l in so.splitlines() if l.startswith(("ok ", "timeout "))]}
    if r:
        kv.update(dict(x.split("=", 1) for x in r[-1].split()[1:] if "=" in x))
        kv["raw"] = r[-1]
    else:
        kv["outcome"] = "abort" if rc != 0 else "none"
        kv["raw"] = "no result line (rc=%d)" % rc
    if kv["timeouts"] and attempt < 2 and kv.get("outcome", "").startswith("finished") and kv.get("scanviol") == "0":
        # the scheduler could not place a thread in time (machine load): the interleaving was not the forced one; once more
        return run_sched(text, jit, attempt + 1)
    return kv


def judge_forced(ctx, name, text, jit, kv, known, stats):
    stats["forced"] += 1
    m = re.search(r"\(list g \(thread-join! t\)\)", text)
    scanviol = int(kv.get("scanviol", "0") or 0)
    panics = int(kv.get("threadpanics", "0") or 0)
    aborted = kv.get("outcome") in ("abort", "none") or bool(ABORT_K15A.search(kv["stderr"]))
    overlap = scanned_thread_outside(text, kv.get("lines", []))
    interrupted = has_interrupt(text) and "Interrupted_by_user" in kv.get("outcome", "")      # the expected result of an interrupt
    bad = scanviol > 0 or panics > 0 or aborted or overlap is not None or not (kv.get("outcome", "").startswith("finished") or interrupted)
    if overlap is not None and has_interrupt(text) and "K15c" in known:
        stats["k15c_forced"] = stats.get("k15c_forced", 0) + 1
        kf(ctx, "K15c", "id=K15c class=interrupt_while_scanned_inside_safepoint replay=%s (forced schedule %s, jit=%s: thread %s reached "
           "vm.dispatch while thread %s was between scan.begin and scan.end on it)" % (known["K15c"]["replay"], name, jit, overlap[1], overlap[0]))
        return
    if not bad:
        stats["forced_ok"] += 1
        if is_race_class(text):
            stats["race_class_silent"] += 1
        return
    if is_race_class(text) and "K15a" in known and (scanviol > 0 or ABORT_K15A.search(kv["stderr"]) or panics > 0 or VOID_K15A.search(kv.get("outcome", ""))):
        stats["k15a_forced"] += 1
        kf(ctx, "K15a", "id=K15a class=stop_request_while_thread_leaves_safepoint replay=%s (forced schedule %s, jit=%s: %s)"
           % (known["K15a"]["replay"], name, jit,
              "scanviol=%d" % scanviol if scanviol else "thread ran on the swapped empty global table (abort)"))
        return
    stats["viol"] += 1
    ctx.violation("C15-forced-%s-jit%s.sched" % (name, jit),
                  "# C15 violation under a forced interleaving (harness c15, STEEL_JIT=%s)\n# observed: %s\n# stderr: %s\n%s"
                  % (jit, kv.get("raw"), kv["stderr"][-300:].replace("\n", " | "), text))


# ---------------------------------------------------------------------------------------------- host-side scenarios

HOST_PROG = (
    "(define x0 0) (define x2 0) (define new-names (list 'n0 'n1 'n2)) (define new-fns (list 'g0 'g1 'g2)) "
    "(define (serve cmd rep) (let* ((c (channel/recv (channels-receiver cmd))) (op (quotient c 10000)) (i (quotient (modulo c 10000) 100)) (v (modulo c 100))) "
    "(cond ((= op 9) 'bye) "
    "((= op 1) (channel/send (channels-sender rep) (cond ((= i 0) x0) ((= i 1) x1) (else x2))) (serve cmd rep)) "
    "((= op 2) (cond ((= i 0) (set! x0 v)) ((= i 1) (set! x1 v)) (else (set! x2 v))) (channel/send (channels-sender rep) -1) (serve cmd rep)) "
    "((= op 3) (channel/send (channels-sender rep) ((eval (list-ref new-fns i)))) (serve cmd rep)) "
    "((= op 4) (channel/send (channels-sender rep) (eval (list-ref new-names i))) (serve cmd rep)) "
    "(else (serve cmd rep))))) ")


def gen_host(rnd, n):
    """Host-side family: script threads left alive by an earlier `run` (servers blocked on a channel), then a random history of
    HOST calls that assign existing globals (Engine::update_value, run of (set! ..)) or define NEW ones (register_value,
    register_fn, run of (define ..) of a fresh name; the threads reach new names through `eval`) and of assignments by the
    threads (REdefinitions are left out on purpose: in steel a redefinition makes a fresh binding that code compiled earlier does
    not see, single-threaded as well - that is C06's subject, not a question of threads), every write followed by reads of that and of another
    global through the host and through the threads.  The oracle is one sequentially consistent store (all steps are
    serialised by the channel handshake): a read returns the last completed write, whoever made it.
    Returns [(name, text, expected values of the `run` steps, summary)]."""
    out = []
    for c in range(n):
        k = rnd.choice([1, 1, 2, 3])
        lines = ["hostprog #t", "regval x1 0"]
        prog = HOST_PROG + " ".join("(define cmd%d (channels/new)) (define rep%d (channels/new)) (define t%d (spawn-native-thread (lambda () (serve cmd%d rep%d))))" % ((j,) * 5) for j in range(k)) + " 0"
        lines.append("run " + prog)
        exp = ["0"]
        st = {"x0": 0, "x1": 0, "x2": 0}
        kinds = []

        def th(j, code):
            return "run (begin (channel/send (channels-sender cmd%d) %d) (channel/recv (channels-receiver rep%d)))" % (j, code, j)

        def read(var, who):
            i = int(var[1])
            if var[0] == "x":
                if who == "host":
                    lines.append("run " + var)
                else:
                    lines.append(th(who, 10000 + i * 100))
            elif var[0] == "g":
                if who == "host":
                    lines.append("run (%s)" % var)
                else:
                    lines.append(th(who, 30000 + i * 100))
            else:
                if who == "host":
                    lines.append("run " + var)
                else:
                    lines.append(th(who, 40000 + i * 100))
            exp.append(str(st[var]))

        for step in range(rnd.randint(5, 9)):
            v = rnd.randint(1, 99)
            kind = rnd.choice(["update", "update", "update-new", "regval-new", "regfn-new", "host-set", "host-define-new", "thread-set"])
            fresh_n = [("n%d" % j) for j in range(3) if ("n%d" % j) not in st]
            fresh_g = [("g%d" % j) for j in range(3) if ("g%d" % j) not in st]
            if (kind in ("regval-new", "host-define-new") and not fresh_n) or (kind == "regfn-new" and not fresh_g) or \
                    (kind == "update-new" and len(fresh_n) == 3):
                kind = "update"
            if kind == "update":
                var = rnd.choice(["x0", "x1", "x2"]); lines.append("update %s %d" % (var, v))
            elif kind == "update-new":          # update_value of a name the host registered after the threads were started
                var = rnd.choice([("n%d" % j) for j in range(3) if ("n%d" % j) in st]); lines.append("update %s %d" % (var, v))
            elif kind == "regval-new":
                var = rnd.choice(fresh_n); lines.append("regval %s %d" % (var, v))
            elif kind == "regfn-new":
                var = rnd.choice(fresh_g); lines.append("regfn %s %d" % (var, v))
            elif kind == "host-set":
                var = rnd.choice(["x0", "x1", "x2"]); lines.append("run (begin (set! %s %d) -1)" % (var, v)); exp.append("-1")
            elif kind == "host-define-new":
                var = rnd.choice(fresh_n); lines.append("run (begin (define %s %d) -1)" % (var, v)); exp.append("-1")
            else:
                var = rnd.choice(["x0", "x1", "x2"]); lines.append(th(rnd.randrange(k), 20000 + int(var[1]) * 100 + v)); exp.append("-1")
            st[var] = v
            kinds.append(kind)
            # a write by somebody else to ANOTHER global right after it must not undo it
            if rnd.random() < 0.6:
                other = rnd.choice([x for x in ("x0", "x1", "x2") if x != var])
                w = rnd.randint(1, 99)
                if rnd.random() < 0.7:
                    lines.append(th(rnd.randrange(k), 20000 + int(other[1]) * 100 + w)); exp.append("-1"); kinds.append("then-thread-set")
                else:
                    lines.append("update %s %d" % (other, w)); kinds.append("then-update")
                st[other] = w
                for who in ["host"] + list(range(k)):
                    if rnd.random() < 0.6:
                        read(other, who)
            for who in rnd.sample(["host"] + list(range(k)), rnd.randint(1, k + 1)):
                read(var, who)
        for j in range(k):
            lines.append("run (begin (channel/send (channels-sender cmd%d) 90000) (thread-join! t%d) 7)" % (j, j)); exp.append("7")
        out.append(("host-%d-k%d" % (c, k), "\n".join(lines) + "\n", exp, kinds))
    return out


def run_host(text, jit):
    rc, so, se = C.run_bin([C.bin_path("c15")], text, timeout=60, env={"STEEL_JIT": jit, "HOST_BOUND_MS": "30000"})
    hs = [l for l in so.splitlines() if l.startswith("h ")]
    r = [l for l in so.splitlines() if l.startswith("result ")]
    return {"rc": rc, "h": hs, "raw": (r[-1] if r else "no result line (rc=%d)" % rc), "stderr": (se or "")[-800:]}


def judge_host(ctx, name, text, exp, jit, res, stats):
    stats["host_runs"] = stats.get("host_runs", 0) + 1
    runs = [l for l in res["h"] if l.split()[2] == "run"]
    got = [dict(x.split("=", 1) for x in l.split() if "=" in x).get("value", "?") if l.endswith(" ok") else "ERR:" + l.split(" ", 4)[-1] for l in runs]
    bad_steps = [l for l in res["h"] if not l.endswith(" ok")]
    if got == exp and not bad_steps and "outcome=finished" in res["raw"] and "scanviol=0" in res["raw"]:
        stats["host_ok"] = stats.get("host_ok", 0) + 1
        return
    first = next((i for i, (g, e) in enumerate(zip(got, exp)) if g != e), min(len(got), len(exp)))
    stats["viol"] += 1
    ctx.violation("C15-host-%s-jit%s.sched" % (name, jit),
                  "# C15 violation: host-side scenario (harness c15, STEEL_JIT=%s): a global defined / assigned by the host (or by a thread) is not what a later read returns\n"
                  "# expected values of the `run` steps: %s\n# observed: %s\n# first difference at run step %d; failing steps: %s\n# %s\n%s"
                  % (jit, " ".join(exp), " ".join(got), first, "; ".join(bad_steps)[:300], res["raw"], text))


# ---------------------------------------------------------------------------------------------- programs

def gen_programs(rnd, quick):
    """(name, expected, program, classes).  classes: which open finding a failure may belong to."""
    progs = []
    ks = [2, 3, 4] if quick else [2, 3, 4, 6, 8]
    for k in ks:
        n = rnd.choice([400, 900]) if quick else rnd.choice([1000, 4000])
        defs = " ".join("(define g%d 0)" % i for i in range(k))
        workers = " ".join(
            "(define (w%d n) (if (= n 0) 0 (begin (set! g%d (+ g%d 1)) (w%d (- n 1)))))" % (i, i, i, i) for i in range(k))
        # barrier: every thread registered before the first assignment
        chans = " ".join("(define c%d (channels/new))" % i for i in range(k))
        body = ("(let ((ts (list %s))) %s (for-each thread-join! ts) (list %s))" % (
            " ".join("(spawn-native-thread (lambda () (channel/recv (channels-receiver c%d)) (w%d %d)))" % (i, i, n) for i in range(k)),
            " ".join("(channel/send (channels-sender c%d) 1)" % i for i in range(k)),
            " ".join("g%d" % i for i in range(k))))
        exp = "(" + " ".join([str(n)] * k) + ")"
        progs.append(("counters-barrier-k%d" % k, exp, "%s %s %s %s" % (defs, workers, chans, body), {"K15a"}))
        # no barrier: threads assign while main is still spawning the others
        body = ("(let ((ts (list %s))) (for-each thread-join! ts) (list %s))" % (
            " ".join("(spawn-native-thread (lambda () (w%d %d)))" % (i, n) for i in range(k)),
            " ".join("g%d" % i for i in range(k))))
        progs.append(("counters-spawn-overlap-k%d" % k, exp, "%s %s %s" % (defs, workers, body), {"K15a", "K15b"}))
        # one assigner, k-1 readers of another global
        rd = 200000 if quick else 600000
        body = ("(define g 0) (define h 0) (define (work n) (if (= n 0) 0 (begin (set! g (+ g 1)) (work (- n 1)))))"
                " (define (reader n acc) (if (= n 0) acc (reader (- n 1) (+ acc (if (< h 0) 1 0)))))"
                " (let ((ts (list %s))) (work %d) (list g (map thread-join! ts)))" % (
                    " ".join("(spawn-native-thread (lambda () (reader %d 0)))" % rd for _ in range(k - 1)), n * 4))
        progs.append(("assigner-readers-k%d" % k, "(%d (%s))" % (n * 4, " ".join(["0"] * (k - 1))), body, {"K15a"}))
    # allocation in one thread while another assigns
    progs.append(("alloc-vs-assign", "(600 9000)",
                  "(define g 0) (define (work n) (if (= n 0) 0 (begin (set! g (+ g 1)) (work (- n 1)))))"
                  " (define (fill v n live) (if (= n 0) 0 (begin (vector-set! v (modulo n live) (box n)) (fill v (- n 1) live))))"
                  " (let ((t (spawn-native-thread (lambda () (work 600)))) (v (make-vector 9000 (box 0)))) (fill v 40000 9000)"
                  " (thread-join! t) (list g (vector-length v)))", {"K15a"}))
    if True:
        # a collection keeps the mutators stopped until marking is complete (seeded change C15-n3, hook-free form): a mutator moves
        # the only reference to a box out of a holder the marker reaches late, the collector then recycles every free slot
        progs.append(("gc-late-holder", "(done 0)",
                      "(define N 20000) (define holder (box (box 'tok))) (define ballast (append (map (lambda (i) (list i)) (range 0 N)) (list holder)))"
                      " (set! holder #f) (define stop-flag (box #f)) (define bad (box 0)) (define (the-holder) (list-ref ballast N))"
                      " (define (spin n) (when (> n 0) (spin (- n 1))))"
                      " (define (toggle) (let ([b (unbox (the-holder))]) (set-box! (the-holder) 0) (spin 30) (unless (eq? (unbox b) 'tok) (set-box! bad (+ 1 (unbox bad)))) (set-box! (the-holder) b)))"
                      " (define (mutator) (let loop ([i 0]) (toggle) (spin 30) (if (unbox stop-flag) 'done (loop (+ i 1)))))"
                      " (define (fill n) (when (> n 0) (box n) (fill (- n 1))))"
                      " (define (rounds k len) (when (> k 0) (#%gc-collect) (fill (* 3 len)) (rounds (- k 1) (* 2 len))))"
                      " (define t (spawn-native-thread mutator)) (rounds 4 25600) (set-box! stop-flag #t) (list (thread-join! t) (unbox bad))",
                      {"nojit", "slow"}))
    return progs


def run_program(name, expected, prog, jit, bound, jitter):
    line = "case\t%s\t%d\t%s\t%s\n" % (name, bound, expected, prog)
    env = {"STEEL_JIT": jit}
    if jitter is not None:
        env["C16_JITTER"] = str(jitter)
    rc, so, se = C.run_bin([C.bin_path("c16")], line, timeout=bound / 1000.0 + 20, env=env)
    got = [l for l in so.splitlines() if l.startswith("case ")]
    if got:
        f = got[-1].split()
        kv = dict(x.split("=", 1) for x in f[2:] if "=" in x)
        kv["raw"] = got[-1]
    else:
        kv = {"outcome": "crash:rc=%d" % rc, "raw": "crash rc=%d" % rc}
    kv["stderr"] = (se or "")[-1500:]
    return kv


def empty_table_symptom(kv):
    """A thread looked a global up in the empty table installed by another thread's with_locked_env: native code indexes it
    (panic `index out of bounds: the len is 0`), the interpreter reports a defined global as a free identifier."""
    return bool(ABORT_K15A.search(kv["stderr"])) or "free_identifier" in kv.get("outcome", "") or bool(VOID_K15A.search(kv.get("outcome", "")))


def judge_program(ctx, name, exp, prog, classes, jit, jitter, kv, known, stats):
    stats["prog_runs"] += 1
    scanviol = int(kv.get("scanviol", "0") or 0)
    if kv.get("ok") == "1" and scanviol == 0 and not empty_table_symptom(kv):
        stats["prog_ok"] += 1
        return
    if (scanviol > 0 or empty_table_symptom(kv)) and "K15a" in known and "K15a" in classes:
        stats["k15a_prog"] += 1
        kf(ctx, "K15a", "id=K15a class=stop_request_while_thread_leaves_safepoint replay=%s (program %s, jit=%s, jitter=%s: %s)"
           % (known["K15a"]["replay"], name, jit, jitter,
              "scanviol=%d" % scanviol if scanviol else "a thread ran on the swapped empty global table"))
        return
    if kv.get("outcome") == "finished" and kv.get("ok") == "0" and "K15b" in classes and "K15b" in known:
        stats["k15b_prog"] += 1
        kf(ctx, "K15b", "id=K15b class=spawn_overlaps_stop_round replay=%s (program %s, jit=%s: value %s, expected %s)"
           % (known["K15b"]["replay"], name, jit, kv.get("value"), exp.replace(" ", "_")))
        return
    stats["viol"] += 1
    ctx.violation("C15-prog-%s-jit%s.txt" % (name, jit),
                  "# C15 violation: multi-threaded program (harness c16, STEEL_JIT=%s, C16_JITTER=%s)\n# expected value %s, scanviol=0\n"
                  "# observed: %s\n# stderr: %s\ncase\t%s\t8000\t%s\t%s\n" % (
                      jit, jitter, exp, kv.get("raw"), kv["stderr"][-300:].replace("\n", " | "), name, exp, prog))


def replay_case_file(path, repeat=None):
    text = open(path).read()
    jm = re.search(r"^# jit=(\w+)", text, re.M)
    rm = re.search(r"repeat=(\d+)", text)
    n = repeat or (int(rm.group(1)) if rm else 1)
    res = []
    for l in text.splitlines():
        if not l.startswith("case\t"):
            continue
        f = l.split("\t")
        for jit in ([jm.group(1)] if jm else ["true", "false"]):
            jobs = [(f[1], f[3], f[4], jit, int(f[2]), None)] * n
            res += C.pool_map(lambda j: run_program(*j), jobs, workers=max(2, C.NCPU // 3))
    return res


# ---------------------------------------------------------------------------------------------- run

def run(ctx):
    _SEEN.clear()
    rnd = random.Random(ctx.seed * 15485863 + 15)
    stats = {"forced": 0, "forced_ok": 0, "k15a_forced": 0, "race_class_silent": 0, "viol": 0, "prog_runs": 0, "prog_ok": 0,
             "k15a_prog": 0, "k15b_prog": 0, "model_cases": 0, "unsched": []}
    known = {k["id"]: k for k in ctx.load_known()}
    rc, out = C.sh(["python3", os.path.join(C.VERIF, "translate", "c16_callpaths.py")], timeout=120)
    if rc != 0:
        ctx.violation("C15-translator.txt", "translate/c16_callpaths.py failed (rc=%d):\n%s" % (rc, out[-2000:]), no_input=True)
    rc, out = C.sh(["python3", os.path.join(C.VERIF, "translate", "c15_exits.py")], timeout=120)
    facts = {"exits_repaired": False, "spawn_locked": False}
    if rc != 0:
        ctx.violation("C15-translator-exits.txt", "translate/c15_exits.py failed (rc=%d):\n%s" % (rc, out[-2000:]), no_input=True)
    else:
        try:
            facts = json.load(open(os.path.join(C.VERIF, ".build", "C15", "exits.json")))
        except (OSError, ValueError) as e:
            ctx.violation("C15-translator-exits.txt", "translate/c15_exits.py wrote no facts: %s" % e, no_input=True)
    # the model of the code: a finding excuses a failing input only if the model of the code has the defect
    code_model = "repaired" if facts.get("exits_repaired") and facts.get("spawn_locked") else "fix"
    if facts.get("exits_repaired"):
        known.pop("K15a", None)
    if facts.get("spawn_locked"):
        known.pop("K15b", None)
    if facts.get("controller_one_word"):
        known.pop("K15c", None)
    stats["code_model"] = code_model
    pr = C.prove(ctx, "C15", ["c15driver", "SteelVerif.C16.GenCallPaths", "SteelVerif.C15.GenExits"])
    ok, log = C.build_harness(ctx, ["c15", "c16"])
    if not ok:
        ctx.violation("C15-harness-build.txt", "the harness no longer builds against /repo:\n" + log, no_input=True)
        ctx.coverage = {"obligations": pr["obligations"], "discharged": pr["discharged"],
                        "checker_cmd": "lake build SteelVerif.C15.Props", "trusted_base": C.TRUSTED_BASE}
        return ctx.finish()
    cdir = os.path.join(C.VERIF, "corpus", "C15")
    # (a) model schedules
    for fn in sorted(os.listdir(cdir)):
        if fn.endswith(".msched"):
            text = open(os.path.join(cdir, fn)).read()
            exp = re.search(r"^# expect: (.*)$", text, re.M)
            rc, so, se = C.run_bin([C.driver_path("c15driver")], text, timeout=30)
            got = (so.strip().splitlines() or ["<none>"])[-1]
            stats["model_cases"] += 1
            if exp and exp.group(1).strip() != got.strip():
                ctx.violation("C15-model-%s.txt" % fn, "# model schedule verdict changed\n# expected: %s\n# got: %s\n%s" % (
                    exp.group(1), got, text), no_input=True)
    # (a') the exit-race and late-registration interleavings on the MODEL OF THE CODE (driver default = the model the translator
    # selected): the model's verdict is what the forced schedules on the real engine are compared with below
    for base, what in (("exit_race", "scanOk"), ("late_registration", "envOk")):
        fn = base + ("_repaired" if code_model == "repaired" else "") + ".msched"
        text = "\n".join(l for l in open(os.path.join(cdir, fn)).read().splitlines() if l.strip() not in ("fix", "repaired")) + "\n"
        rc, so, se = C.run_bin([C.driver_path("c15driver"), code_model], text, timeout=30)
        got = (so.strip().splitlines() or ["<none>"])[-1]
        m = re.search(what + r"=(\w+)", got)
        stats["model_of_code_" + base] = m.group(1) if m else got
        stats["model_cases"] += 1
        if not m or (m.group(1) == "true") != (code_model == "repaired"):
            ctx.violation("C15-model-of-code-%s.txt" % base, "# the model of the code (%s) gave an unexpected verdict on %s\n# got: %s\n" % (
                code_model, fn, got), no_input=True)
    # (b) forced schedules: corpus first, then generated
    forced = []
    for fn in sorted(os.listdir(cdir)):
        if fn.endswith(".sched"):
            text = open(os.path.join(cdir, fn)).read()
            jm = re.search(r"^# jit=(\w+)", text, re.M)
            need = re.search(r"^# requires-fact: (\w+)", text, re.M)
            if need and not facts.get(need.group(1)):
                stats.setdefault("skipped_schedules", []).append("%s (needs %s)" % (fn, need.group(1)))
                continue
            for jit in ([jm.group(1)] if jm else ["true", "false"]):
                forced.append((fn[:-6], text, jit))
    for name, text in gen_forced(rnd, 20 if ctx.quick() else 48):
        jm = re.search(r"^# jit=(\w+)", text, re.M)
        for jit in ([jm.group(1)] if jm else ["true", "false"]):
            forced.append((name, text, jit))
    results = C.pool_map(lambda j: (j, run_sched(j[1], j[2])), forced, workers=max(2, C.NCPU // 2))
    for (name, text, jit), kv in results:
        if kv["timeouts"]:
            stats["unsched"].append((name, jit, kv["timeouts"][0]))
        judge_forced(ctx, name, text, jit, kv, known, stats)
    # (b') host-side scenarios: script threads left alive by an earlier run, then host calls that define / assign globals
    hosts = gen_host(rnd, 8 if ctx.quick() else 60)
    hjobs = [(n, t, e, jit) for (n, t, e, _) in hosts for jit in ("true", "false")]
    for (n, t, e, jit), res in C.pool_map(lambda j: (j, run_host(j[1], j[3])), hjobs, workers=max(2, C.NCPU // 3)):
        judge_host(ctx, n, t, e, jit, res, stats)
    stats["host_kinds"] = sorted({k for h in hosts for k in h[3]})
    # (c) programs with delay injection
    progs = gen_programs(rnd, ctx.quick())
    reps = 2 if ctx.quick() else 12
    jobs = []
    for (n, e, p, cl) in progs:
        for jit in ("true", "false"):
            if jit == "true" and "nojit" in cl:
                continue
            for r in range(reps):
                jobs.append((n, e, p, cl, jit, (ctx.seed * 31 + r * 7 + 1) if r % 2 == 0 else None))
    def prog_job(j):
        kv = run_program(j[0], j[1], j[2], j[4], 90000 if "slow" in j[3] else 8000, j[5])
        if kv.get("outcome") == "hang-running":
            # still dispatching when the bound expired (slow / loaded machine): once more with 5x the bound
            kv = run_program(j[0], j[1], j[2], j[4], 40000, j[5])
        return j, kv

    def still_running(kv):
        """cut by the watchdog while instructions were being dispatched and every stop request had completed: the machine is
        slow, the run has produced no value and no scan violation: it says nothing about C15 (safety: who is inspected while
        running; progress is C16's property, whose check judges hang-running with its own, longer bounds)"""
        m = re.search(r"stops=(\d+)/(\d+)", kv.get("raw", ""))
        # (`hang-blocked` = the watchdog saw no dispatch for a while: with delay injection and a loaded machine the 4000 stop
        # rounds of an assigner take longer than any fixed bound; with every stop request completed nobody is being waited for)
        return kv.get("outcome") in ("hang-running", "hang-blocked") and int(kv.get("scanviol", "0") or 0) == 0 and bool(m) and m.group(1) == m.group(2)

    res = C.pool_map(prog_job, jobs, workers=max(2, C.NCPU // 4))
    for (n, e, p, cl, jit, jitter), kv in res:
        if still_running(kv):
            stats["prog_no_verdict_slow_machine"] = stats.get("prog_no_verdict_slow_machine", 0) + 1
            continue
        judge_program(ctx, n, e, p, cl, jit, jitter, kv, known, stats)
    if stats.get("prog_no_verdict_slow_machine"):
        ctx.notes.append("%d program runs were cut by the 40 s watchdog while still dispatching instructions with every stop request "
                         "completed (loaded machine): no verdict for C15 from them" % stats["prog_no_verdict_slow_machine"])
    # witnesses of the open findings that were not met above
    for kid, pred in (("K15a", lambda kv: empty_table_symptom(kv) or int(kv.get("scanviol", "0") or 0) > 0),
                      ("K15b", lambda kv: kv.get("outcome") == "finished" and kv.get("ok") == "0")):
        if kid in known and kid not in _SEEN:
            r = replay_case_file(os.path.join(C.VERIF, known[kid]["replay"]), repeat=12 if ctx.quick() else 40)
            hits = [kv for kv in r if pred(kv)]
            if hits:
                kf(ctx, kid, "id=%s class=%s replay=%s (witness program: %d of %d runs)" % (
                    kid, known[kid].get("class"), known[kid]["replay"], len(hits), len(r)))
            else:
                ctx.notes.append("open finding %s did not reproduce in %d runs of its witness program (timing dependent; "
                                 "the forced schedules are the deterministic form)" % (kid, len(r)))
    if "K15c" in known and "K15c" not in _SEEN:
        text = open(os.path.join(C.VERIF, known["K15c"]["replay"])).read()
        kv = run_sched(text, "false")
        judge_forced(ctx, "K15c-witness", text, "false", kv, known, stats)
    if not pr["ok"] and not ctx.violations:
        ctx.violation("C15-proof-broken.txt", "proof obligations of SteelVerif.C15 that no longer check:\n" + "\n".join(
            "%s: %s" % f for f in pr["failed"]) + "\n", no_input=True)
    ctx.coverage = {
        "obligations": pr["obligations"], "discharged": pr["discharged"],
        "checker_cmd": "cd lean && lake build SteelVerif.C15.Props && lake env lean SteelVerif/C15/Audit.lean",
        "trusted_base": C.TRUSTED_BASE + ["sequentially consistent atomics (the code loads `paused` Relaxed)",
                                           "the cfg(steel_verif) yield points and the `being scanned` counter in steel-core (add-only hooks)"],
        "evaluations": stats["forced"] + stats["prog_runs"] + stats["model_cases"] + stats.get("host_runs", 0),
        "distinct_nontrivial": len({(n, j) for n, _, j in forced}) + len(progs) * 2,
        "rule": "forced schedule = (site where thread 1 is held: script yield / before publication / before the exit check / before the "
                "retraction / dispatch poll) x (point the stopper's global update is driven to: scanBegin, scanEnd, thunk, own update, resume) x "
                "(set! | define) x JIT on/off, corpus first then variants drawn with the PRNG seeded by VERIF_SEED; program = per-thread global "
                "counters with/without start barrier, one assigner + readers, allocation vs assignment, 2-8 threads, JIT on/off, with and without "
                "random 0-40 us delays at the window borders; all are non-trivial (>= 2 threads and >= 1 stop-the-world round while another thread runs)",
        "samples": [forced[0][1].splitlines()[-8:], jobs[0][2][:300]] if forced and jobs else [],
        "forced_schedules": stats["forced"], "forced_ok": stats["forced_ok"], "forced_K15a": stats["k15a_forced"],
        "forced_race_class_without_symptom": stats["race_class_silent"], "forced_not_schedulable": stats["unsched"][:10],
        "program_runs": stats["prog_runs"], "program_ok": stats["prog_ok"], "program_K15a": stats["k15a_prog"],
        "program_K15b": stats["k15b_prog"], "model_schedules": stats["model_cases"],
        "code_model": stats["code_model"], "translator_facts": {k: facts.get(k) for k in ("exit_sites", "stop_fenced", "exits_repaired", "spawn_locked", "controller_one_word")},
        "forced_K15c": stats.get("k15c_forced", 0),
        "skipped_schedules": stats.get("skipped_schedules", []), "host_scenarios": stats.get("host_runs", 0), "host_ok": stats.get("host_ok", 0), "host_step_kinds": stats.get("host_kinds"),
        "model_of_code_exit_race_scanOk": stats.get("model_of_code_exit_race"), "model_of_code_late_registration_envOk": stats.get("model_of_code_late_registration"),
        "axioms": pr.get("axioms", {}), "proof_failures": ["%s: %s" % f for f in pr["failed"]],
    }
    ctx.assumptions = ["SC atomics", "OS fairness not assumed", "detector read at instruction dispatch only"]
    return ctx.finish("proof")


def replay(ctx, path):
    C.build_harness(ctx, ["c15", "c16"])
    text = open(path).read()
    if "\nhostprog " in "\n" + text:
        body = "\n".join(l for l in text.splitlines() if not l.startswith("#")) + "\n"
        for jit in ("true", "false"):
            res = run_host(body, jit)
            print("jit=%s %s" % (jit, res["raw"]))
            for l in res["h"]:
                print("   " + l[:200])
        return 0
    if path.endswith(".sched") or "\nprog " in "\n" + text:
        jm = re.search(r"^# jit=(\w+)", text, re.M)
        for jit in ([jm.group(1)] if jm else ["true", "false"]):
            kv = run_sched(text, jit)
            print("jit=%s %s" % (jit, kv.get("raw")))
            if kv["stderr"]:
                print("   stderr:", kv["stderr"][-300:].replace("\n", " | "))
        return 0
    for kv in replay_case_file(path):
        print(kv.get("raw"), "| abort-on-empty-table" if ABORT_K15A.search(kv["stderr"]) else "")
    return 0
