"""C10 — exact arithmetic is exact and the numeric tower is coherent.

translate  : translate/c10_arms.py regenerates lean/SteelVerif/C10/GenArms.lean from numbers.rs / rvals.rs
             (match-arm tables per numeric function + which of the three repairs are present).
prove      : lake build SteelVerif.C10.Props + axiom audit.  For ALL exact operands (no bound on
             magnitude): every modelled operation returns the mathematically exact value in canonical
             form; comparison agrees with the denoted values; canonical representations are unique.
correspond : harness `c10` evaluates each request on the REAL engine through several syntactic shapes
             (constant-folded literal call, generic call on globals, locals of a function, literal
             operand, `apply`, loop-called closure (JIT), let-bound locals, `#%prim.` names, branch
             conditions); `c10driver` evaluates the same request on the model M and on the
             specification S (Lean `Rat`).  Every shape's printed result is compared with both.
oracle     : S.  real != S is a VIOLATION (a panic of the real engine is one too) unless it falls in
             a class listed as an open finding in KNOWN_FINDINGS.txt and equals M's prediction.
"""
import json
import math
import os
import random
import re
import struct
from fractions import Fraction

from . import common as C

PID = "C10"
META = {
    "ready": True,
    "category": "proof",
    "technique": "Lean 4 proofs over an executable model of the numeric tower (fixnum / bignum / 32-bit ratio / big ratio with the IntoSteelVal canonicalisation and the checked-then-promote case analysis of numbers.rs), refinement to Lean's Rat for all operands; number<->string round trip over C12's model of the lexer's number parser; model of the variadic primitives, of every arithmetic/comparison op code of the interpreter and of the constant folder, with shape-independence theorems; arm tables, repair flags and the op-code / registration / emission tables regenerated from the Rust source and decided against the model; correspondence of the real engine with model and specification over boundary operand tuples through 8-17 call shapes, variadic calls, radix conversions and generated string->number texts; executable model of the mixed exact/inexact arms (which operand is converted and how; comparison on decoded doubles) run with the machine's IEEE operations, bit patterns compared with the real engine and with an IEEE-754 / exact-value reference",
    "level_text": "Theorems (SteelVerif/C10/Props.lean), for ALL canonical exact operands of any magnitude: + - * / with any number of operands (add/mul/sub/div_variadic_exact; division by zero, also of a product of divisors, is an error), negate, quotient, remainder, modulo, abs, gcd, lcm, expt (fixnum exponent; bignum exponent on the bases 0, 1, -1), numerator, denominator and exact-integer-sqrt of the model return a value that denotes the mathematically exact result (Lean Rat / Int) and is canonical (fixnum iff it fits 64 bits, ratio reduced with denominator > 1, 32-bit ratio iff both parts fit, integral ratios are integers); = < > <= >= decide the order of the denoted values; two canonical values that denote the same number are identical; number_string_roundtrip: string->number (number->string x r) r = x for every radix 2..16 (number->string follows format_number, string->number is C12's model of parse_number followed by real_literal_to_steelval); shape_independent: each of the 19 arithmetic/comparison op codes of the interpreter (ADD SUB MUL DIV BINOPADD BINOPADDTAIL NUMEQUAL LTE LT GT GTE ADD/SUB/LTEREGISTER SUBREGISTER1 ADD/SUB/LTEIMMEDIATE LTEIMMEDIATEIF) computes, on every operand list the compiler can emit it with, what the function registered under the primitive's name computes (content: add_two_fallible vs add_primitive, windows(2).all vs the ord_internal loop, the inline fixnum path of SUBIMMEDIATE), with op_tables_as_modelled deciding that the op-code -> function, name -> function and emission tables extracted from vm.rs / program.rs / code_gen.rs are the model's; fold_is_call: a constant call folded at compile time (result written back as a literal and read again) yields the value of the call. Where the code is defective (abs / reciprocal / expt on the most negative 64-bit and 32-bit values, 32-bit ratio powers, negative bases with negative exponents) the full statement is proved for the repaired code and a guarded `_partial` statement plus a `decide`d counterexample for the code as it is; flags extracted from the Rust source say which applies to the current tree; string->number is NOT total in the code as it is (K10g, decide-d witness, replayed). The clauses no theorem carries (mixed exact/inexact, native-code versions, string->number on texts number->string does not produce, unrepresentable powers) are listed at the end of Props.lean. Tie: translators on every run, and the real engine executed on boundary operand tuples through every call shape (plus variadic calls with 0..5 operands, radix conversions 2..16, ~150/4000 generated string->number texts) with printed results compared with model and specification; the driver also evaluates runOp of every applicable op code and the folder against the generic call on every variadic request. Mixed exact/inexact (SteelVerif/C10/Mixed.lean: doubles as 64 bits, the IEEE operations a parameter): mixed_converts_exact_operand_only (for + - *: the double's bits reach the IEEE operation unchanged, the exact operand — after an EXACT negation for subtraction — is converted once, and each of the four conversions of the code is 'round the denoted rational'), mixed_division_shape (the code divides through the exactly computed reciprocal: two roundings, finding K10e, flag regenerated), cmp_exact_with_float_correct / _special / mixed_order_consistent / mixed_nan_all_false (comparison of any canonical exact number with any finite double = comparison of the two rationals, the double decoded as a dyadic fraction; NaN unordered, infinities at the ends), mixed_tables_as_modelled (the 12 mixed arms, the NaN/inf answers and the 2^53 fast-path guard extracted from the source). What the IEEE operations compute, and that roundQ / the Rust conversions are correctly rounded, is NOT proved: the driver runs the model with the machine's operations and its bits are compared with the real engine (all evaluations equal) and with an independent CPython oracle.",
    "level_note": "Trusted: Lean kernel (axioms propext, Classical.choice, Quot.sound only), the hand-written model (num-bigint / Ratio<BigInt> taken as exact, Ratio<i32>, i32::gcd, isize/i32 checked and overflowing operations modelled from their source; radix_fmt / to_str_radix / from_str_radix taken to be positional notation), C12's model of parse_number (imported), the translators' pattern extraction (c10_arms.py, c10_ops.py), the harness, driver and comparison, and CPython's int/float/Fraction for the mixed part. That the compiler emits an op code only under the extracted rule is a reading of the source, not a compiler semantics. floor/round/truncate on ratios, exponents with |e| > 4096 (other than bignum exponents on 0, +-1) are not covered. Overflow is modelled as in a build with overflow checks (panic); a release build wraps instead: same failing inputs, wrong value instead of panic.",
}

DRIVER = "c10driver"
BIN = "c10"
# rehearsal hooks (used to try the check against a patched copy of the repository before a fix is
# committed): VERIF_C10_REPO = source tree for the translator, VERIF_C10_BIN = a harness binary built
# against that tree (then the cargo build of /verif/harness is skipped).
ALT_REPO = os.environ.get("VERIF_C10_REPO")
ALT_BIN = os.environ.get("VERIF_C10_BIN")
UNARY = ["neg", "recip", "abs", "numerator", "denominator", "isqrt", "tostr", "roundtrip", "tof64"]
BINARY = ["add", "sub", "mul", "div", "quotient", "remainder", "modulo", "gcd", "lcm", "expt",
          "eq", "lt", "gt", "le", "ge"]
INT_ONLY = {"quotient", "remainder", "modulo", "gcd", "lcm", "isqrt"}
CLASS_OF_OP = {
    "abs": "abs_of_most_negative", "gcd": "abs_of_most_negative", "lcm": "abs_of_most_negative",
    "recip": "reciprocal_of_i32_min", "div": "reciprocal_of_i32_min",
    "expt": "expt_ratio_or_negative_exponent",
}
I32_MIN = -2 ** 31
I64_MIN = -2 ** 63


# --------------------------------------------------------------------------------------------------
# operand pools
# --------------------------------------------------------------------------------------------------
def fmt(q):
    q = Fraction(q)
    return str(q.numerator) if q.denominator == 1 else "%d/%d" % (q.numerator, q.denominator)


def int_pool(rng, extra):
    base = [0, 1, -1, 2, -2, 3, -3, 5, 7, -7, 10, 12, 46340, 46341, 65536, 65537,
            2 ** 31 - 2, 2 ** 31 - 1, 2 ** 31, 2 ** 31 + 1, -2 ** 31 + 1, -2 ** 31, -2 ** 31 - 1,
            2 ** 32 - 1, 2 ** 32, 2 ** 32 + 1, -2 ** 32,
            3037000499, 3037000500, 2 ** 62, -2 ** 62, 2 ** 63 - 2, 2 ** 63 - 1, 2 ** 63, 2 ** 63 + 1,
            -2 ** 63 + 1, -2 ** 63, -2 ** 63 - 1, 2 ** 64 - 1, 2 ** 64, 2 ** 64 + 1, -2 ** 64,
            10 ** 18, 10 ** 19, 10 ** 30, -10 ** 30, 10 ** 30 + 1, 2 ** 127 - 1, 2 ** 40 * 3 ** 5,
            (2 ** 31 - 1) * (2 ** 31 - 1), (2 ** 63) * 3, 6 * 10 ** 20]
    # perfect squares and their neighbours on both sides of 2^53 (where a root taken through a double starts to round)
    # and of the fixnum boundary
    for k in (94906265, 94906266, 94906267, 1000000007, 2147483647, 2147483648, 3037000499, 3037000500, 4294967296,
              10 ** 10 + 19, 2 ** 40 + 1):
        base += [k * k - 1, k * k, k * k + 1]
    for _ in range(extra):
        bits = rng.choice([8, 16, 31, 32, 33, 62, 63, 64, 65, 100, 200])
        v = rng.getrandbits(bits) | (1 << (bits - 1))
        base.append(v if rng.random() < 0.6 else -v)
    return sorted(set(base))


def rat_pool(rng, ints, extra):
    nums = [1, -1, 2, -3, 5, -7, 2 ** 31 - 1, -2 ** 31, 2 ** 31, -2 ** 31 - 1, -2 ** 31 + 1, 2 ** 32 + 1,
            2 ** 63 - 1, -2 ** 63, 2 ** 63, 10 ** 20, -10 ** 30, 65536, 46341]
    dens = [2, 3, 5, 7, 12, 46341, 65536, 65537, 2 ** 31 - 2, 2 ** 31 - 1, 2 ** 31, 2 ** 31 + 1,
            2 ** 32 + 1, 2 ** 63 - 1, 2 ** 63, 10 ** 20 + 1, 3 ** 20]
    out = set()
    for n in nums:
        for d in dens:
            q = Fraction(n, d)
            if q.denominator != 1:
                out.add(q)
    for _ in range(extra):
        n = rng.choice(ints)
        d = abs(rng.choice(ints)) or 3
        q = Fraction(n, d)
        if q.denominator != 1:
            out.add(q)
    return sorted(out)


def gen_requests(seed, quick):
    rng = random.Random(seed)
    ints = int_pool(rng, 12 if quick else 150)
    rats = rat_pool(rng, ints, 20 if quick else 300)
    if quick:
        rats = rng.sample(rats, 90)
    allv = [Fraction(i) for i in ints] + rats
    reqs = []
    seen = set()

    def add(op, *xs):
        line = op + " " + " ".join(fmt(x) for x in xs)
        if line not in seen:
            seen.add(line)
            reqs.append(line)

    # unary: whole pool
    for op in UNARY:
        pool = [Fraction(i) for i in ints] + (rats[:6] if op in INT_ONLY else rats)
        for x in pool:
            add(op, x)
    # binary: directed pairs + seeded sample of the product
    per_op = 190 if quick else 6000
    small_exp = list(range(-6, 9)) + [15, 16, 30, 31, 32, 33, 62, 63, 64, 65, 127, -30, -31, -32, -33, -63, -64]
    for op in BINARY:
        if op == "expt":
            bases = allv
            pairs = [(b, Fraction(e)) for b in bases for e in small_exp
                     if abs(e) * max(1, abs(b.numerator).bit_length(), b.denominator.bit_length()) < 20000]
            pairs += [(Fraction(0), Fraction(10 ** 20)), (Fraction(0), Fraction(-10 ** 20)),
                      (Fraction(0), Fraction(2 ** 63))]
        else:
            pool = [Fraction(i) for i in ints] if op in INT_ONLY else allv
            pairs = [(x, x) for x in pool] + [(x, -x) for x in pool[::3]]
            pairs += [(x, Fraction(k)) for x in pool for k in (0, 1, -1, 2)]
            pairs += [(Fraction(k), x) for x in pool[::2] for k in (0, 1, -1)]
            if op in INT_ONLY:
                pairs += [(Fraction(1, 2), Fraction(3)), (Fraction(6), Fraction(1, 3))]
            prod = [(x, y) for x in pool for y in pool]
            pairs = rng.sample(pairs, min(len(pairs), per_op // 2)) + rng.sample(prod, min(len(prod), per_op))
        if len(pairs) > per_op * 3 // 2:
            pairs = rng.sample(pairs, per_op * 3 // 2)
        if op != "expt":
            # never sampled away: the full product of the representation boundaries (fixnum/bignum edge on both
            # sides of zero, 32-bit edge) and every operand with its own negation
            core = [Fraction(v) for v in (0, 1, -1, 2, -2, 3, 2 ** 31 - 1, 2 ** 31, -2 ** 31, -2 ** 31 - 1, 2 ** 62, -2 ** 62,
                                          2 ** 63 - 1, 2 ** 63, 2 ** 63 + 1, -2 ** 63 + 1, -2 ** 63, -2 ** 63 - 1,
                                          2 ** 64, -2 ** 64, 10 ** 30, -10 ** 30)]
            pool = [Fraction(i) for i in ints] if op in INT_ONLY else allv
            pairs = pairs + [(x, y) for x in core for y in core] + [(x, -x) for x in pool] + [(-x, x) for x in pool]
        for (x, y) in pairs:
            add(op, x, y)
    # specialised immediate paths: small non-negative literal on the right
    for x in allv[:: (4 if quick else 1)]:
        for k in (0, 1, 2, 255):
            add("sub", x, Fraction(k))
            add("add", x, Fraction(k))
            add("le", x, Fraction(k))
    # ---- number<->string with a radix: every radix the primitives accept, boundary magnitudes --------------
    radix_pool = [Fraction(v) for v in (0, 1, -1, 9, 10, 14, 15, 16, 255, -255, 485, 2 ** 31 - 1, -2 ** 31, 2 ** 63 - 1, -2 ** 63,
                                        2 ** 63, -2 ** 63 - 1, 2 ** 64, 10 ** 30, -10 ** 30, 0xe, 0xee, 0x1e5, 14 * 15 + 14)]
    radix_pool += [Fraction(-485, 7), Fraction(14, 15), Fraction(-2 ** 31, 3), Fraction(2 ** 31 - 1, 2 ** 31 - 2),
                   Fraction(2 ** 63, 3), Fraction(-10 ** 30, 239), Fraction(0xe, 0x1e1), Fraction(1, 2 ** 64)]
    radix_pool += rng.sample(allv, 10 if quick else 200)
    for x in radix_pool:
        for r in range(2, 17):
            add("roundtripr", x, Fraction(r))
        for r in ((2, 15, 16) if quick else range(2, 17)):
            add("tostrr", x, Fraction(r))
    for r in (0, 1, 17, -2, 10):
        add("tostrr", Fraction(255), Fraction(r))
        add("roundtripr", Fraction(255), Fraction(r))
    # ---- string->number on arbitrary texts (structure-directed: sign? digits ['/' sign? digits], malformed variants) ---
    for t in gen_s2n_texts(rng, 150 if quick else 4000):
        if t not in seen:
            seen.add(t)
            reqs.append(t)
    # ---- variadic calls: 0..5 operands through every op code / the folder / apply ----------------------------
    core = [Fraction(v) for v in (0, 1, -1, 2, -2, 3, 2 ** 31, -2 ** 31, 65536, -32768, 2 ** 62, 2 ** 63 - 1, -2 ** 63, 2 ** 63,
                                  -2 ** 63 - 1, 10 ** 30)] + [Fraction(1, 2), Fraction(-1, 2), Fraction(3, 2), Fraction(-2 ** 31, 3),
                                                              Fraction(2 ** 63, 3), Fraction(1, 2 ** 31)]
    nvar = 260 if quick else 9000
    for i in range(nvar):
        op = rng.choice(["addn", "subn", "muln", "divn", "subn", "divn", "len", "ltn", "gtn", "gen"])
        k = rng.choice([0, 1, 2, 3, 3, 4, 5]) if op in ("addn", "subn", "muln", "divn") else rng.choice([1, 2, 3, 3, 4])
        pool = core if rng.random() < 0.7 else allv
        xs = [rng.choice(pool) for _ in range(k)]
        if op in ("len", "ltn", "gtn", "gen") and rng.random() < 0.6:
            xs = sorted(xs, reverse=op in ("gtn", "gen"))       # chains that hold: #true is not vacuous
        add(op, *xs)
    for xs in ([1, 65536, -32768], [6, 4, 0, 5], [-2 ** 63, 1, Fraction(1, 2), 2 ** 63], [2 ** 63 - 1, 1, -1, Fraction(1, 2)],
               [1, 2, 3, 4, 5], [5, 1], [-2 ** 63, 1], [5, -1]):
        for op in ("addn", "subn", "muln", "divn", "len", "gtn"):
            add(op, *[Fraction(v) for v in xs])
    for op in ("addn", "subn", "muln", "divn"):
        reqs.append(op)                                       # zero operands
    # ---- expt: unit bases with bignum exponents (exact), exact non-integer exponents (a double: bit pattern) -----
    for b in (1, -1):
        for e in (2 ** 63, 2 ** 63 + 1, -2 ** 63 - 1, -2 ** 63 - 2, 10 ** 30, 10 ** 30 + 1, -10 ** 30 - 1, 2 ** 200 + 1):
            add("expt", Fraction(b), Fraction(e))
    for b in (2, 4, 9, 10, 2 ** 62, 2 ** 64, Fraction(1, 4), Fraction(9, 4), Fraction(2 ** 64, 3), -8, 0):
        for e in (Fraction(1, 2), Fraction(-1, 2), Fraction(1, 3), Fraction(3, 2), Fraction(2 ** 40, 3)):
            add("expt", Fraction(b), e)
    for b in (Fraction(1, 2), Fraction(-3, 2), Fraction(2 ** 64, 3)):
        for e in (2 ** 63, -2 ** 63 - 1, 10 ** 30):
            add("expt", b, Fraction(e))
    return reqs, {"ints": len(ints), "rationals": len(rats)}


DIGITS = "0123456789abcdef"


def to_radix(n, r):
    if n == 0:
        return "0"
    s, m = "", abs(n)
    while m:
        s = DIGITS[m % r] + s
        m //= r
    return ("-" if n < 0 else "") + s


def gen_s2n_texts(rng, count):
    """request lines `s2n TEXT [RADIX]`: well-formed integers and ratios in every radix (with upper-case digits, a `+`
    sign, leading zeros, a radix prefix), and the malformed neighbours (zero denominators small and beyond a fixnum,
    signed denominators, empty parts, two slashes, digits outside the radix, exponent markers)."""
    out = ["s2n 100000000000000000000/0", "s2n 1/0", "s2n 0/0", "s2n 9223372036854775808/0", "s2n 1/00000000000000000000000",
           "s2n -100000000000000000000/0 16", "s2n ffffffffffffffffffffff/0 16", "s2n 1/-2", "s2n 1/+2", "s2n +5", "s2n -",
           "s2n +", "s2n /", "s2n 1/", "s2n /2", "s2n 1/2/3", "s2n 1e2 16", "s2n 1e2 15", "s2n 1e-5 16", "s2n e 15", "s2n e 14",
           "s2n -1e5/7 16", "s2n #xff", "s2n #xff 2", "s2n #b101 16", "s2n #o17", "s2n #d10 16", "s2n FF 16", "s2n 12 2",
           "s2n 9223372036854775807", "s2n 9223372036854775808", "s2n -9223372036854775808", "s2n -9223372036854775809",
           "s2n 2147483647/2147483648", "s2n -2147483648/2147483647", "s2n 4/2", "s2n 6/4", "s2n 0/5", "s2n -0", "s2n 007",
           "s2n abc", "s2n 10 1", "s2n 10 17", "s2n 10 0"]
    mags = [0, 1, 5, 255, 2 ** 31 - 1, 2 ** 31, 2 ** 63 - 1, 2 ** 63, 2 ** 64 + 1, 10 ** 30]
    while len(out) < count:
        r = rng.choice([2, 3, 8, 10, 10, 11, 14, 15, 16, 16])
        n = rng.choice(mags) if rng.random() < 0.5 else rng.getrandbits(rng.choice([4, 16, 33, 64, 90]))
        if rng.random() < 0.4:
            n = -n
        t = to_radix(n, r)
        if rng.random() < 0.15 and n >= 0:
            t = "+" + t
        if rng.random() < 0.5:
            d = rng.choice(mags) if rng.random() < 0.5 else rng.getrandbits(rng.choice([3, 16, 33, 70]))
            dt = to_radix(d, r)
            if rng.random() < 0.1:
                dt = "0" * rng.choice([1, 25]) if rng.random() < 0.5 else "00" + dt
            if rng.random() < 0.06:
                dt = rng.choice("+-") + dt
            t = t + "/" + dt
        if rng.random() < 0.15:
            t = t.upper()
        if rng.random() < 0.06 and r < 16:
            t = t + DIGITS[r]                                  # a digit outside the radix
        if rng.random() < 0.08:
            pre = rng.choice(["#x", "#X", "#d", "#o", "#b", "#B"])
            out.append("s2n %s%s" % (pre, t) + ("" if rng.random() < 0.5 else " %d" % r))
        else:
            out.append("s2n %s" % t + ("" if r == 10 and rng.random() < 0.5 else " %d" % r))
    return out


# --------------------------------------------------------------------------------------------------
# running both sides
# --------------------------------------------------------------------------------------------------
def run_model(reqs, cfg=None):
    argv = [C.driver_path(DRIVER)] + (["--cfg", cfg] if cfg else [])
    rc, out, err = C.run_bin(argv, "\n".join(reqs) + "\n", timeout=1200)
    lines = out.splitlines()
    if rc != 0 or len(lines) != len(reqs):
        return None, "driver rc=%d lines=%d/%d %s" % (rc, len(lines), len(reqs), err[-500:])
    return [tuple((l.split("\t") + ["bad"])[:2]) for l in lines], ""


def parse_real_line(line):
    """`shape=result<TAB>shape=result...` -> list of (shape, result)."""
    out = []
    for part in line.split("\t"):
        if "=" in part:
            k, v = part.split("=", 1)
            out.append((k, v))
    return out


def run_real_chunk(args):
    """Run one chunk of requests on the real engine.  A dying process (abort inside natively compiled
    code, stack overflow, hang) is attributed to the shape that was in flight and the run resumes
    with the next request.  Returns list (per request) of list of (shape, result)."""
    reqs, env = args
    results = []
    todo = list(reqs)
    guard = 0
    while todo and guard < len(reqs) + 5:
        guard += 1
        rc, out, err = C.run_bin([ALT_BIN or C.bin_path(BIN)], "\n".join(todo) + "\n", timeout=300, env=env)
        lines = out.split("\n")
        if lines and lines[-1] == "" and out.endswith("\n"):
            lines = lines[:-1]
        if rc == 0 and len(lines) == len(todo):
            results += [parse_real_line(l) for l in lines]
            todo = []
            break
        # process died: complete lines are fine, the next (partial) line names the shape in flight
        ncomplete = len(lines) - 1 if (lines and not out.endswith("\n")) else len(lines)
        ncomplete = min(ncomplete, len(todo))
        results += [parse_real_line(l) for l in lines[:ncomplete]]
        if ncomplete >= len(todo):
            todo = []
            break
        partial = lines[ncomplete] if ncomplete < len(lines) else ""
        shapes = parse_real_line(partial)
        why = "hang" if rc == 124 else "abort:rc=%d %s" % (rc, (err.strip().splitlines() or [""])[-1][:120])
        if shapes and shapes[-1][1] == "":
            shapes[-1] = (shapes[-1][0], why)
        else:
            shapes.append(("?", why))
        results.append(shapes)
        todo = todo[ncomplete + 1:]
    while len(results) < len(reqs):
        results.append([("?", "abort:not-run")])
    return results


def run_real(reqs, env=None, chunk=60):
    if len(reqs) < 16 * chunk:
        chunk = max(8, len(reqs) // 16)
    chunks = [(reqs[i:i + chunk], env) for i in range(0, len(reqs), chunk)]
    out = []
    for r in C.pool_map(run_real_chunk, chunks):
        out += r
    return out


def norm_real(v):
    if v.startswith("panic") or v.startswith("abort") or v == "hang":
        return "panic"
    return v


# --------------------------------------------------------------------------------------------------
# classes of the (candidate) findings — the decidable guards of the `_partial` theorems
# --------------------------------------------------------------------------------------------------
def parse_operand(s):
    if "/" in s:
        n, d = s.split("/")
        return Fraction(int(n), int(d))
    return Fraction(int(s))


def is_rat32(q):
    return q.denominator != 1 and -2 ** 31 <= q.numerator < 2 ** 31 and q.denominator < 2 ** 31


def in_class(cls, op, xs):
    """python twin of the negated guards in Props.lean (`AbsGuard`, `RecipGuard`, `ExptGuard`)."""
    if cls == "abs_of_most_negative":
        if op == "abs":
            x = xs[0]
            return x == I64_MIN or (is_rat32(x) and x.numerator == I32_MIN)
        return op in ("gcd", "lcm")      # through `abs` of an intermediate value: decided by M
    if cls == "reciprocal_of_i32_min":
        x = xs[-1]
        return x == I32_MIN or (is_rat32(x) and x.numerator == I32_MIN)
    if cls == "expt_ratio_or_negative_exponent":
        b, e = xs
        return e.denominator == 1 and (is_rat32(b) or e < 0 or (b == 0 and abs(e) >= 2 ** 63))
    return False


# --------------------------------------------------------------------------------------------------
# mixed exact / inexact arithmetic (test level: Lean's Float is opaque to the kernel, so there is no
# theorem here; the oracle is "convert the exact operand with round-to-nearest-even, then IEEE 754
# binary64", and for comparisons the exact values, computed with python's int/Fraction/float)
# --------------------------------------------------------------------------------------------------
MIXED_ARITH = ["add", "sub", "mul", "div"]
MIXED_CMP = ["eq", "lt", "gt", "le", "ge"]


def f2hex(x):
    return "f:%016x" % struct.unpack(">Q", struct.pack(">d", x))[0]


def hex2f(s):
    return struct.unpack(">d", struct.pack(">Q", int(s[2:], 16)))[0]


def to_double(q):
    """the exact rational q rounded to the nearest double (ties to even); +-inf on overflow."""
    if isinstance(q, float):
        return q
    try:
        return q.numerator / q.denominator          # int / int is correctly rounded in CPython
    except OverflowError:
        return math.inf if q > 0 else -math.inf


def mixed_oracle(op, xs):
    if op in MIXED_CMP:
        a, b = xs
        if any(isinstance(v, float) and math.isnan(v) for v in xs):
            return "#false"

        def key(v):                                   # exact value on the extended line
            if isinstance(v, float):
                if math.isinf(v):
                    return (1 if v > 0 else -1, Fraction(0))
                return (0, Fraction(v))
            return (0, v)
        ka, kb = key(a), key(b)
        r = {"eq": ka == kb, "lt": ka < kb, "gt": ka > kb, "le": ka <= kb, "ge": ka >= kb}[op]
        return "#true" if r else "#false"
    a, b = to_double(xs[0]), to_double(xs[1])
    try:
        if op == "add":
            r = a + b
        elif op == "sub":
            r = a - b
        elif op == "mul":
            r = a * b
        else:
            if b == 0.0:
                if a == 0.0 or math.isnan(a):
                    r = math.nan
                else:
                    neg = (math.copysign(1.0, a) < 0) != (math.copysign(1.0, b) < 0)
                    r = -math.inf if neg else math.inf
            else:
                r = a / b
    except OverflowError:
        r = math.nan
    return "f:nan" if math.isnan(r) else f2hex(r)


def norm_float_text(v):
    if v.startswith("f:") and len(v) == 18:
        x = hex2f(v)
        if math.isnan(x):
            return "f:nan"
    return v


def gen_mixed(seed, quick):
    rng = random.Random(seed * 7919 + 13)
    floats = [0.0, -0.0, 1.0, -1.0, 0.5, 0.1, 1.5, -2.5, 0.3333333333333333, 1e-300, 5e-324,
              2.2250738585072014e-308, 1.7976931348623157e308, math.inf, -math.inf, math.nan,
              2.0 ** 31, -2.0 ** 31, 2.0 ** 32, 2.0 ** 53, 2.0 ** 53 + 2, -2.0 ** 53, 2.0 ** 62, 2.0 ** 63,
              -2.0 ** 63, 2.0 ** 64, 1e19, 1e30, 1e100, 4.5e15]
    exacts = [Fraction(v) for v in (0, 1, -1, 2, 3, 10, 2 ** 31 - 1, -2 ** 31, 2 ** 53 - 1, 2 ** 53, 2 ** 53 + 1,
                                    -2 ** 53 - 1, 2 ** 62 + 1, 2 ** 63 - 1, -2 ** 63, 2 ** 63, 2 ** 63 + 1, 2 ** 64 + 1,
                                    10 ** 19, 10 ** 30, -10 ** 30, 10 ** 400, -10 ** 400)]
    exacts += [Fraction(1, 3), Fraction(-1, 3), Fraction(1, 10), Fraction(2 ** 31 - 1, 2), Fraction(-2 ** 31, 3),
               Fraction(2 ** 53 + 1, 2), Fraction(10 ** 30, 3), Fraction(1, 10 ** 400), Fraction(10 ** 400, 3),
               Fraction(3, 2 ** 63), Fraction(2 ** 64 + 1, 2 ** 53)]
    # neighbours: doubles next to 2^53 / 2^63 / 0.1 / 1/3, exact numbers equal to a double or one part in 2^80 off it,
    # fixnums around the 2^53 fast-path guard of cmp_exact_with_float, isize::MAX against 2^63
    for f in (2.0 ** 53, 2.0 ** 63, 0.1, 1.0 / 3.0, 1e19, 4.5e15):
        floats += [math.nextafter(f, math.inf), math.nextafter(f, -math.inf), -f]
    for f in (0.1, 1.0 / 3.0, 2.0 ** 53 + 2, 1e19, 5e-324, 2.2250738585072014e-308, 1.7976931348623157e308):
        q = Fraction(f)
        exacts += [q, q + Fraction(1, 2 ** 80) * q, q - Fraction(1, 2 ** 80) * q, -q]
    exacts += [Fraction(v) for v in (2 ** 53 + 2, 2 ** 53 + 3, -2 ** 53, -2 ** 53 - 1, 2 ** 54 + 1, 2 ** 63 - 2 ** 9, 2 ** 63 - 2 ** 10,
                                     2 ** 63 - 2 ** 10 + 1, 2 ** 63 + 2 ** 11, 2 ** 63 + 2 ** 10, 2 ** 1024, 2 ** 1024 - 2 ** 970)]
    if not quick:
        for _ in range(60):
            floats.append(struct.unpack(">d", struct.pack(">Q", rng.getrandbits(64)))[0])
            n = rng.getrandbits(rng.choice([20, 54, 64, 70, 120])) - rng.getrandbits(53)
            d = rng.choice([1, 1, 3, 7, 2 ** 31 - 1, 10 ** 20 + 1])
            exacts.append(Fraction(n, d))
    reqs = []
    for op in MIXED_ARITH + MIXED_CMP:
        for e in exacts:
            for f in floats:
                if op == "div" and e == 0:
                    continue                          # exact zero divisor: Steel reports division by zero
                reqs.append((op, [e, f]))
                reqs.append((op, [f, e]))
    reqs = rng.sample(reqs, min(len(reqs), 1800 if quick else 60000))
    lines = []
    for op, xs in reqs:
        if op == "div" and not isinstance(xs[1], float) and xs[1] == 0:
            continue
        lines.append((op + " " + " ".join(f2hex(x) if isinstance(x, float) else fmt(x) for x in xs), op, xs))
    return lines


def parse_mixed_line(line):
    toks = line.split()
    xs = [hex2f(t) if t.startswith("f:") else parse_operand(t) for t in toks[1:]]
    return (line, toks[0], xs)


def compare_mixed(ctx, stats, env=None, items=None):
    if items is None:
        items = gen_mixed(ctx.seed, ctx.quick())
    reals = run_real([l for (l, _, _) in items], env)
    # the model of Mixed.lean run with the machine's IEEE operations: column 1 = the code as it is (division through the
    # reciprocal while K10e is open), column 2 = the same with one IEEE division
    model, why = run_model([l for (l, _, _) in items]) if items else ([], "")
    if model is None:
        ctx.violation("C10-driver-failed.txt", "model driver failed on the mixed requests: %s\n" % why, no_input=True)
        model = [("?", "?")] * len(items)
    known = {k.get("class"): k for k in ctx.load_known()}
    ms = stats.setdefault("mixed", {"requests": 0, "evaluations": 0, "agree": 0, "model_agrees_with_real": 0,
                                    "one_division_model_equals_oracle": 0})
    for (line, op, xs), shapes, (m, m1) in zip(items, reals, model):
        want = mixed_oracle(op, xs)
        ms["requests"] += 1
        if m1 == want or (op == "div" and not isinstance(xs[1], float) and xs[1] == 0):
            ms["one_division_model_equals_oracle"] += 1
        elif m != "?":
            stats["pending"].append((line, "model", m1, m, want, "mixed: the model with one IEEE division differs from the IEEE oracle"))
        for sh, raw in shapes:
            ms["evaluations"] += 1
            r = norm_float_text(norm_real(raw))
            if m != "?":
                if r == m:
                    ms["model_agrees_with_real"] += 1
                elif r != "panic":
                    stats["pending"].append((line, sh, raw, m, want, "mixed: real differs from the model of Mixed.lean"))
            if r == want:
                ms["agree"] += 1
                continue
            if m != "?" and r != m:
                continue                      # already reported as a correspondence failure (not attributable to a finding)
            if r == "panic":
                cls = "mixed_panic"
            elif op in MIXED_CMP:
                cls = "mixed_comparison_through_double"
            elif op == "div":
                cls = "mixed_division_via_reciprocal"
            elif want in ("f:8000000000000000", "f:0000000000000000") and r in ("f:8000000000000000", "f:0000000000000000"):
                cls = "mixed_signed_zero"
            else:
                cls = "mixed_arithmetic_conversion"
            bucket = stats["known" if cls in known else "viol"].setdefault(cls, [])
            bucket.append((len(line), line, sh, raw, m, want))


# --------------------------------------------------------------------------------------------------
def compare(ctx, reqs, label, stats, env=None):
    model, why = run_model(reqs)
    if model is None:
        ctx.violation("C10-driver-failed.txt", "model driver failed: %s\n" % why, no_input=True)
        return
    reals = run_real(reqs, env)
    known = {k.get("class"): k for k in ctx.load_known()}
    for req, (m, s), shapes in zip(reqs, model, reals):
        toks = req.split()
        op = toks[0]
        xs = [] if op == "s2n" else [parse_operand(t) for t in toks[1:]]
        if "!" in m:
            # the driver evaluated `runOp` of every op code that stands for the primitive, and the constant folder, on
            # these operands and one of them differs from the generic call: contradicts shape_independent / fold_is_call
            stats["pending"].append((req, "model", m, m, s, "model: an op code / the folder differs from the generic call"))
            m = m.split("!")[0]
        stats["evaluations"] += len(shapes)
        stats["requests"] += 1
        stats["ops"][op] = stats["ops"].get(op, 0) + 1
        for sh, _ in shapes:
            stats["shapes"][sh] = stats["shapes"].get(sh, 0) + 1
        big = any(abs(x.numerator) >= 2 ** 63 or x.denominator >= 2 ** 31 or
                  (x.denominator != 1 and not -2 ** 31 <= x.numerator < 2 ** 31) for x in xs)
        key = (op, tuple(xs))
        if (big or s in ("err:div0",) or (s not in ("undef", "bad") and len(s) > 18)) and key not in stats["seen"]:
            stats["seen"].add(key)
        if len(stats["samples"]) < 4 and big and s not in ("undef",) and len(req) < 120 and stats["requests"] % 97 == 0:
            stats["samples"].append({"request": req, "real": dict(shapes), "model": m, "spec": s})
        for sh, raw in shapes:
            r = norm_real(raw)
            if sh in ("operand", "bad", "?") and not r == "panic":
                stats["pending"].append((req, sh, raw, m, s, "harness could not run the request"))
                continue
            if op == "tof64":
                # the four exact -> double conversions of the code (exact->inexact uses the same ones as the mixed arms):
                # oracle = the exact value rounded to nearest-even (CPython int / int), model = Mixed.roundQ
                want = f2hex(to_double(xs[0]))
                if r != want:
                    record(ctx, stats, known, "exact_to_inexact_conversion", op, xs, req, sh, raw, m, want)
                elif m != r:
                    stats["pending"].append((req, sh, raw, m, want, "exact->inexact: model roundQ differs from the real conversion"))
                else:
                    stats["agree"] += 1
                continue
            if op == "s2n":
                # arbitrary texts: the oracle is totality (no panic); the model (C12's parse_number + real_literal_to_steelval)
                # must predict the real answer exactly, so that the round-trip theorem speaks about the code
                st = stats["notes"]
                st["string->number texts"] = st.get("string->number texts", 0) + 1
                if r == "panic":
                    den = toks[1].split("/")[-1].lstrip("+-") if "/" in toks[1] else "x"
                    cls = "string_to_number_zero_denominator" if den and set(den) == {"0"} else "panic_outside_domain"
                    record(ctx, stats, known, cls, op, xs, req, sh, raw, m, s)
                elif m == "unmodelled":
                    pass
                elif r != m and not (m == "err:type" and r.startswith("err:ContractViolation")):
                    stats["pending"].append((req, sh, raw, m, s, "string->number: real differs from the model"))
                else:
                    stats["agree"] += 1
                continue
            if m == "inexact":
                # exact operands, the code answers with a double computed by powf: compared bit for bit with C pow on the
                # correctly rounded operands (test level; a last-place difference of libm would be a note, not a violation)
                if not raw.startswith("f:"):
                    stats["pending"].append((req, sh, raw, m, s, "model says the result is a double"))
                else:
                    try:
                        w = math.pow(to_double(xs[0]), to_double(xs[1]))
                    except OverflowError:                     # CPython raises where C pow returns an infinity
                        w = math.inf
                    except ZeroDivisionError:                 # 0 to a negative power: C pow returns +inf
                        w = math.inf
                    except ValueError:                        # CPython: also for 0 to a negative power (C pow: +inf)
                        w = math.inf if (xs[0] == 0 and xs[1] < 0) else math.nan
                    key = "expt with a non-integer exact exponent: %s C pow bit for bit" % (
                        "equals" if norm_float_text(raw) == ("f:nan" if math.isnan(w) else f2hex(w)) else "DIFFERS from")
                    stats["notes"][key] = stats["notes"].get(key, 0) + 1
                continue
            if m.startswith("err:type") and r.startswith("err:ContractViolation") and s == "undef":
                stats["agree"] += 1
                continue
            if s in ("undef", "bad"):
                # the property says nothing about the value; a crash is still a violation
                if r == "panic":
                    record(ctx, stats, known, "panic_outside_domain", op, xs, req, sh, raw, m, s)
                elif r != m and m != "unmodelled":
                    stats["notes"]["outside-domain result differs from model"] = \
                        stats["notes"].get("outside-domain result differs from model", 0) + 1
                continue
            if r == s:
                stats["agree"] += 1
                if m != s and m != "unmodelled":
                    stats["pending"].append((req, sh, raw, m, s, "real = spec but model differs (model not in line with the code)"))
                continue
            # real != spec
            cls = CLASS_OF_OP.get(op, "unclassified")
            if not in_class(cls, op, xs):
                cls = "unclassified"
            record(ctx, stats, known, cls, op, xs, req, sh, raw, m, s)


def record(ctx, stats, known, cls, op, xs, req, sh, raw, m, s):
    r = norm_real(raw)
    attributable = cls in known and r == m
    bucket = stats["known" if attributable else "viol"].setdefault(cls, [])
    bucket.append((len(req), req, sh, raw, m, s))


def flush_findings(ctx, stats):
    known = {k.get("class"): k for k in ctx.load_known()}
    for cls, items in sorted(stats["known"].items()):
        items.sort()
        k = known[cls]
        ctx.known_finding("id=%s class=%s replay=%s reproduced on %d evaluations, smallest: `%s` real=%s expected=%s" % (
            k.get("id", "?"), cls, k.get("replay", "?"), len(items), items[0][1], items[0][3][:60], items[0][5]))
    for cls, items in sorted(stats["viol"].items()):
        items.sort()
        reqs = []
        for it in items:
            if it[1] not in reqs:
                reqs.append(it[1])
        body = ["# C10 violation class `%s`: the real engine's result differs from exact arithmetic" % cls,
                "# (or the engine panicked).  %d evaluations on %d distinct requests; smallest first." % (len(items), len(reqs)),
                "# replay: ./check C10 --replay <this file>   (feeds the request lines to harness c10 and to c10driver)"]
        for it in items[:1]:
            body.append("# smallest: `%s` shape=%s real=%s model=%s expected(spec)=%s" % (it[1], it[2], it[3], it[4], it[5]))
        body += reqs[:40]
        ctx.violation("C10-%s.txt" % cls, "\n".join(body) + "\n")


def load_corpus():
    cdir = os.path.join(C.VERIF, "corpus", PID)
    reqs = []
    if os.path.isdir(cdir):
        for fn in sorted(os.listdir(cdir)):
            for l in open(os.path.join(cdir, fn)):
                l = l.strip()
                if l and not l.startswith("#"):
                    reqs.append(l)
    return reqs


def negative_control(ctx, stats):
    """The comparison must be able to fail: the witnesses of the three defect classes, evaluated by
    the model of the *pinned* code, must differ from the specification (otherwise the check could
    not see those defects)."""
    wit = ["abs -9223372036854775808", "recip -2147483648", "expt 1/2 31", "expt -3 -3"]
    model, _ = run_model(wit, cfg="pinned")
    ok = model is not None and all(m != s for (m, s) in model)
    model2, _ = run_model(wit, cfg="repaired")
    ok2 = model2 is not None and all(m == s for (m, s) in model2)
    stats["negative_control"] = {"pinned_model_differs_from_spec": ok, "repaired_model_equals_spec": ok2}
    return ok and ok2


def run(ctx):
    stats = {"evaluations": 0, "requests": 0, "agree": 0, "ops": {}, "shapes": {}, "seen": set(),
             "samples": [], "pending": [], "viol": {}, "known": {}, "notes": {}}
    # translate
    rc, tout = C.sh(["python3", os.path.join(C.VERIF, "translate", "c10_arms.py")] +
                    ([ALT_REPO] if ALT_REPO else []), timeout=120)
    tinfo = None
    if rc == 0:
        try:
            tinfo = json.loads(tout.strip().splitlines()[-1])
        except (ValueError, IndexError):
            tinfo = None
    if tinfo is None:
        ctx.violation("C10-translator.txt",
                      "translate/c10_arms.py no longer parses numbers.rs / rvals.rs:\n" + tout[-3000:], no_input=True)
    rc2, tout2 = C.sh(["python3", os.path.join(C.VERIF, "translate", "c10_ops.py")] +
                      ([ALT_REPO] if ALT_REPO else []), timeout=120)
    oinfo = None
    if rc2 == 0:
        try:
            oinfo = json.loads(tout2.strip().splitlines()[-1])
        except (ValueError, IndexError):
            oinfo = None
    if oinfo is None:
        ctx.violation("C10-translator-ops.txt",
                      "translate/c10_ops.py no longer parses vm.rs / program.rs / code_gen.rs / the registrations:\n" + tout2[-3000:],
                      no_input=True)
    # prove
    pr = C.prove(ctx, PID, [DRIVER])
    # build
    ok, log = (True, "") if ALT_BIN else C.build_harness(ctx, [BIN])
    base_cov = {"obligations": pr["obligations"], "discharged": pr["discharged"],
                "checker_cmd": "cd lean && lake build SteelVerif.C10.Props && lake env lean SteelVerif/C10/Audit.lean",
                "trusted_base": C.TRUSTED_BASE}
    if not ok:
        ctx.violation("C10-harness-build.txt", "the harness no longer builds against /repo:\n" + log, no_input=True)
        ctx.coverage = base_cov
        return ctx.finish()
    if not os.path.exists(C.driver_path(DRIVER)):
        ctx.violation("C10-driver-build.txt", pr["log"][-3000:], no_input=True)
        ctx.coverage = base_cov
        return ctx.finish()

    nc = negative_control(ctx, stats)
    if not nc:
        ctx.violation("C10-negative-control.txt",
                      "the model/specification comparison cannot distinguish the known defect witnesses: %r\n"
                      % stats["negative_control"], no_input=True)

    # 1. corpus
    corpus = load_corpus()
    compare(ctx, [l for l in corpus if "f:" not in l], "corpus", stats)
    compare_mixed(ctx, stats, items=[parse_mixed_line(l) for l in corpus if "f:" in l])
    ctx.log("corpus: %d requests" % len(corpus))
    # 2. generated tuples
    reqs, pools = gen_requests(ctx.seed, ctx.quick())
    ctx.log("generated %d requests (pool: %r)" % (len(reqs), pools))
    compare(ctx, reqs, "gen", stats)
    compare_mixed(ctx, stats)
    if not ctx.quick():
        # the same requests with the JIT disabled (the interpreter's own opcode handlers)
        sub = reqs[::3]
        compare(ctx, sub, "nojit", stats, env={"STEEL_JIT": "false"})
    flush_findings(ctx, stats)
    ctx.log("requests=%d evaluations=%d agree=%d violating-classes=%d pending=%d" % (
        stats["requests"], stats["evaluations"], stats["agree"], len(stats["viol"]), len(stats["pending"])))

    # decide
    if not pr["ok"] and not ctx.violations:
        body = "proof obligations of SteelVerif.C10.Props that no longer check:\n" + "\n".join(
            "%s: %s" % f for f in pr["failed"]) + "\n"
        ctx.violation("C10-proof-broken.txt", body, no_input=True)
    if stats["pending"] and not ctx.violations:
        req, sh, raw, m, s, why = stats["pending"][0]
        body = ("# correspondence SteelVerif.C10.Model <-> numbers.rs no longer holds (%d evaluations): %s\n"
                "# first: `%s` shape=%s real=%s model=%s spec=%s\n%s\n" % (
                    len(stats["pending"]), why, req, sh, raw, m, s,
                    "\n".join(sorted(set(p[0] for p in stats["pending"]))[:40])))
        ctx.violation("C10-correspondence.txt", body, no_input=True)

    ctx.coverage = dict(base_cov)
    ctx.coverage.update({
        "trusted_base": C.TRUSTED_BASE + [
            "num-bigint / Ratio<BigInt> arithmetic taken as exact; Ratio<i32>, i32::gcd, checked/overflowing machine operations modelled from their source",
            "translate/c10_arms.py (bracket-matching extraction of match arms and of the unchecked/repaired idioms)",
            "overflow modelled as in a build with overflow checks (the harness profile); release builds wrap",
        ],
        "evaluations": stats["evaluations"],
        "requests": stats["requests"],
        "distinct_nontrivial": len(stats["seen"]),
        "rule": "request = (operation, operand tuple); operands from a boundary pool (0, +-1, +-2, 2^31+-1, 2^32, "
                "2^62, 2^63-1, -2^63, 2^63, 2^64, 10^30, sqrt boundaries, ratios with boundary numerators/denominators "
                "incl. i32::MIN/MAX, seeded random 8..200-bit integers) crossed with all operations (directed pairs + "
                "sample of the full product seeded by VERIF_SEED); non-trivial = an operand or the exact result lies "
                "outside the fixnum / 32-bit-ratio range, or division by zero; distinct = different (operation, operands)",
        "samples": stats["samples"],
        "operations": stats["ops"],
        "shapes": stats["shapes"],
        "evaluations_agreeing_with_spec": stats["agree"],
        "violation_classes": {k: len(v) for k, v in stats["viol"].items()},
        "known_classes": {k: len(v) for k, v in stats["known"].items()},
        "model_vs_code_disagreements": len(stats["pending"]),
        "mixed_exact_inexact_test_level": stats.get("mixed"),
        "notes": stats["notes"],
        "translator": tinfo,
        "translator_ops": oinfo,
        "current_code": None if tinfo is None else {
            flag: ("repaired: the full `_exact` theorems apply" if val else
                   "pinned: only the `_exact_partial` theorems apply; `*_pinned_counterexample` is replayed by the corpus")
            for flag, val in tinfo["cfg"].items()},
        "negative_control": stats.get("negative_control"),
        "pool": pools,
        "axioms": pr.get("axioms", {}),
        "proof_failures": ["%s: %s" % f for f in pr["failed"]],
    })
    ctx.assumptions = ["num-bigint/num-rational big arithmetic is exact", "overflow checks on (debug profile)"]
    return ctx.finish("proof")


def replay(ctx, path):
    reqs = [l.strip() for l in open(path) if l.strip() and not l.startswith("#")]
    if not ALT_BIN:
        C.build_harness(ctx, [BIN])
    exact = [r for r in reqs if "f:" not in r]
    model, why = run_model(exact) if exact else ([], "")
    want = {}
    for i, r in enumerate(exact):
        want[r] = model[i] if model else ("?", "?")
    for r in reqs:
        if "f:" in r:
            _, op, xs = parse_mixed_line(r)
            want[r] = ("(no model: test level)", mixed_oracle(op, xs))
    reals = run_real(reqs)
    bad = 0
    for i, req in enumerate(reqs):
        m, s = want[req]
        print("%s\n    model=%s spec=%s" % (req, m, s))
        for sh, raw in reals[i]:
            r = norm_float_text(norm_real(raw))
            ok = (r == s) or (s in ("undef", "bad") and r != "panic")
            if not ok:
                bad += 1
            print("    real[%s]=%s%s" % (sh, raw, "" if ok else "   <-- differs from spec"))
    print("evaluations differing from the specification: %d" % bad)
    return 1 if bad else 0
