"""C04 — the collector never reclaims or overwrites reachable mutable storage.

translate  : translate/c04_edges.py regenerates lean/SteelVerif/C04/GenEdges.lean from values/closed.rs,
             rvals.rs, rvals/cycles.rs, steel_vm/*.rs (both copies of the marker's traversal, push_back leaf
             kinds, root pushes of Heap::mark / enumerate_stacks / live_functions, call-site root arguments).
prove      : lake build SteelVerif.C04.Props (+ axiom audit): mark_sound, collect_preserves, alloc_fresh,
             weak_collect_safe, gc_transparent (all heaps / roots / op lists / collection schedules), and the
             `decide`d table obligations edges_complete_{A,B}_partial, roots_complete, …
correspond : (model) c04driver enum: for every (kind, field) of the specification table, a model heap whose only
             path to a slot is that field; the fields the regenerated tables lose must be exactly the ones the
             `_partial` theorems assume; c04driver run on abstract heap programs: M (with collections) = S.
             (program level) generated Steel programs on real engines (harness c04): mutable storage of every
             kind reachable only through a temporary / pending argument / closure / continuation / handler /
             container of every kind of the edge table / global / TLS / second thread …; distinct tags are
             written, collections are forced (`#%verif-gc-every` 1,2,7 = a full collection at every n-th
             allocation, or explicit `(#%gc-collect)`), enough garbage is allocated to hand every freed slot out
             again, everything is read back.  Oracle: the tags written (the collection-free store); plus the
             stale-handle detector of the hook must stay silent.  A forced collection is the REAL collection routine
             with its `force` flag turned on by the hook, so the pending value / root arguments under test are the
             ones written at the real mark_and_sweep_new call sites.
             (implicit) no forcing: programs fill one of the two free lists with live filler up to a few slots below
             the 95 % threshold (244 of 256; 24 564 of 25 856 after the first growth) and then make allocations whose
             operand is a fresh unshared mutable object (NEWBOX of a fresh vector / box / struct, set!-captured
             variable, mutable struct field, make-vector / mutable-vector of fresh boxes / vectors, accumulators of
             map / foldl / named let / transduce) of rotating kinds until the collector's own full collection has
             happened; rotation x margin x JIT on/off sweep which allocation is the triggering one.
"""
import os
import random
import re

from . import common as C

PID = "C04"
META = {
    "ready": True,
    "category": "proof",
    "technique": "Lean 4 theorems about a model of the free list / marker / collection policy (mark soundness on cyclic heaps, collections anywhere in any operation list are invisible: refinement to a never-collected store; a model of the VM's stack discipline around call/cc for the untraversed open continuation mark) + edge/root/call-site tables regenerated from the Rust source and checked by `decide` (both marker traversals, root pushes, the pending value of every mark_and_sweep_new call, the heap-lock / stop-the-world bracket) + differential runs of generated allocation-heavy Steel programs on the real engine: a full collection forced at every n-th allocation THROUGH the real value_collection / vector_collection code, and unforced programs that drive the collector's own 95 % thresholds so that each allocation kind with a fresh unshared operand is the triggering one",
    "level_text": "Proved for all heaps, root sets, operation lists and collection schedules (SteelVerif/C04/Props.lean): the mark phase marks every slot reachable from the roots (cycles included, worklist termination proved), a full or policy-triggered collection keeps every allocated reachable cell unchanged, allocate hands out a slot that was free, the minor collection never frees a slot to which a handle exists, and gc_transparent: for every list of alloc/write/read/add-root/drop-root operations with minor and full collections inserted at ANY positions (allocations run the collection policy with the value being allocated as an extra root, as Heap::allocate does) every read equals the read from an abstract store that is never collected and never reuses a name. A collection is one atomic step of that list because the code makes it one: marking_excludes_allocation (decide, from the source) - every Heap::allocate*/collection call is made on the heap mutex taken inside a safepoint and the mark runs between stop_threads and resume_threads. The marker's parameters are tables regenerated from closed.rs/cycles.rs/rvals.rs/vm.rs on every run; `decide` proves that BOTH copies of the traversal follow every value-holding field of every SteelVal variant, that Heap::mark / enumerate_stacks / live_functions / every allocation call site push every root class, and pending_value_is_root: every call of mark_and_sweep_new outside the hook passes the pending parameter of its enclosing function (a None / empty iterator where the function has a pending value breaks it) and the five root sets in order, and the pending value / vector of allocate, allocate_vector, allocate_vector_iter reaches the marker on every non-hook path. The fields of ContinuationMark::Open and ClosedContinuation.current_frame's handler are not traversed (edges_complete_*_fails): open_mark_covered proves, for every list of VM operations of a hand-written model of the stack discipline around call/cc (running frame touches the operand stack only from its own sp upwards; call, call/cc, return/unwind closing the popped frame's marks, invocation of a still-open continuation), that every value held by an open mark is on the operand stack, and mark_sound_full_covered derives mark soundness for the FULL specification from the structural condition that whatever sits under an untraversed field is itself a root (reach_covered); mark_sound_full_partial keeps the bare hypothesis visible. That the tables are all the edges (hand-written edgesSpecTable), that the VM follows the modelled stack discipline, the parallel work distribution, and the VM's choice of what is on the stack rest on the differential runs. Open finding K04e (values accumulated by a transducer's reducer are not roots) is outside the root specification: it is a root class the code lacks and the runs exhibit.",
    "level_note": "Trusted: Lean kernel, the translator (bracket matching / regex over stylised Rust), the hand-written specification table of value-holding fields, the hand-written VM model of LemmasOpenMark.lean (tied to vm.rs by the differential cont_open / cont_open_tail / cont_closed scenarios only), harness/generator/comparison. One free list in the model stands for the two instances (values, vectors) of the same generic Rust code. Host values held without `as_rooted`, custom types' own visit_children and opaque host data (BoxedFunction, FutureV, Reference) are outside the specification table.",
}

# ------------------------------------------------------------------------------------------------------
# program generator
# ------------------------------------------------------------------------------------------------------

PREAMBLE = """(define (total-slots) (let ((s (#%verif-heap-stats))) (+ (list-ref s 0) (list-ref s 4))))
(define (garbage n) (if (= n 0) 0 (begin (box 'overwritten) (mutable-vector 'overwritten 'overwritten) (garbage (- n 1)))))
(struct mcell (v) #:mutable)
(struct wrap2 (a b))
(define (mk-box v) (box v))
(define (rd-box o) (unbox o))
(define (wr-box o v) (set-box! o v) 0)
(define (mk-vec v) (mutable-vector v 'pad))
(define (rd-vec o) (mut-vector-ref o 0))
(define (wr-vec o v) (vector-set! o 0 v) 0)
(define (mk-mkv v) (make-vector 2 v))
(define (rd-mkv o) (mut-vector-ref o 1))
(define (wr-mkv o v) (vector-set! o 1 v) 0)
(define (wr-mkv-any o v) (vector-set! o 1 v) 0)
(define (mk-fld v) (mcell v))
(define (rd-fld o) (mcell-v o))
(define (wr-fld o v) (set-mcell-v! o v) 0)
(define (mk-var v) (let ((x v)) (lambda (m a) (if (eq? m 'get) x (begin (set! x a) 0)))))
(define (rd-var o) (o 'get 0))
(define (wr-var o v) (o 'set v))
(define (consume2 a mid) a)
(define (wr-box-any o v) (set-box! o v) 0)
(define (wr-vec-any o v) (vector-set! o 0 v) 0)
(define (wr-fld-any o v) (set-mcell-v! o v) 0)
(define (wr-var-any o v) (o 'set v))
"""

KINDS = ["box", "vec", "fld", "var", "mkv"]     # mkv: make-vector = Heap::allocate_vector_iter (its own copy of the policy)

# wrapper: name -> (wrap expression with {x}, unwrap expression with {w}, hashable-only?)
WRAPS = {
    "none": ("{x}", "{w}"),
    "list": ("(list 0 {x} 1)", "(list-ref {w} 1)"),
    "pair": ("(cons {x} 2)", "(car {w})"),
    "pairc": ("(cons 2 {x})", "(cdr {w})"),
    "ivec": ("(vector 0 {x})", "(vector-ref {w} 1)"),
    "hashval": ("(hash 'k {x})", "(hash-ref {w} 'k)"),
    "hashkey": ("(hash {x} 'v)", "(car (hash-keys->list {w}))"),
    "hashset": ("(hashset {x})", "(car (hashset->list {w}))"),
    "struct": ("(wrap2 {x} 1)", "(wrap2-a {w})"),
    "boxbox": ("(box {x})", "(unbox {w})"),
    "strongbox": ("(box-strong {x})", "(unbox-strong {w})"),                       # SteelVal::Boxed
    "strongset": ("(let ((sb (box-strong 0))) (set-strong-box! sb {x}) sb)", "(unbox-strong {w})"),
    "mvec": ("(mutable-vector 0 {x})", "(mut-vector-ref {w} 1)"),
    "closure": ("(let ((y {x})) (lambda () y))", "({w})"),
    "stream": ("(stream-cons {x} (lambda () empty-stream))", "(stream-car {w})"),
    "streamk": ("(stream-cons 0 (let ((y {x})) (lambda () (stream-cons y (lambda () empty-stream)))))",
                "(stream-car ((#%stream-cdr {w})))"),
    "transducer": ("(mapping (let ((y {x})) (lambda (e) y)))", "(car (transduce (list 1) {w} (into-list)))"),
    "reducer": ("(into-reducer (let ((y {x})) (lambda (acc e) y)) 0)",
                "(transduce (list 1) (mapping (lambda (e) e)) {w})"),
    "mstruct": ("(mcell {x})", "(mcell-v {w})"),
    "promise": ("(let ((y {x})) (delay y))", "(force {w})"),
}
# kinds that can be used as hash keys / set elements (boxes hash by identity)
HASHABLE = {"box"}
WRAP_NAMES = list(WRAPS)


def wrap_expr(wraps, x):
    for w in wraps:
        x = WRAPS[w][0].format(x=x)
    return x


def unwrap_expr(wraps, w):
    for name in reversed(wraps):
        w = WRAPS[name][1].format(w=w)
    return w


class Scen:
    """One scenario: text of a piece and the value it must return."""
    def __init__(self, shape, kind, wraps, text, expected, result_at=None):
        self.shape, self.kind, self.wraps, self.text, self.expected = shape, kind, wraps, text, expected
        self.npieces = text.count("\n;;;---\n") + 1
        self.result_at = self.npieces - 1 if result_at is None else result_at

    def label(self):
        return "%s/%s/%s" % (self.shape, self.kind, "+".join(self.wraps))


SHAPES = ["global", "local", "argument", "closure", "cont_closed", "cont_open", "cont_open_tail", "handler",
          "handler_macro", "dynwind", "tls", "hostroot", "thread", "thread_tls", "thread_result", "channel", "parameter", "map_acc", "fold_acc", "transduce_acc",
          "vector_fill", "apply_args", "nested_defs", "cycle", "recycler"]


def scenario(rng, idx, shape, kind, wraps, churn):
    """churn: scheme expression that forces collections and reuses every free slot."""
    t1, t2 = 1000 + idx * 10 + 1, 1000 + idx * 10 + 2
    mk, rd, wr = "mk-" + kind, "rd-" + kind, "wr-" + kind
    E = wrap_expr(wraps, "(%s %d)" % (mk, t1))

    def R(w):
        return "(%s %s)" % (rd, unwrap_expr(wraps, w))

    def W(w, v):
        return "(%s %s %d)" % (wr, unwrap_expr(wraps, w), v)
    g = "g%d" % idx
    if shape == "global":
        text = "(define %s %s)\n%s\n(define r1-%d %s)\n%s\n%s\n(list r1-%d %s)" % (
            g, E, churn, idx, R(g), W(g, t2), churn, idx, R(g))
        exp = "(%d %d)" % (t1, t2)
    elif shape == "local":
        text = "(define (sc%d) (let ((x %s)) %s (let ((r1 %s)) %s %s (list r1 %s))))\n(sc%d)" % (
            idx, E, churn, R("x"), W("x", t2), churn, R("x"), idx)
        exp = "(%d %d)" % (t1, t2)
    elif shape == "argument":
        text = "(define (sc%d) (let ((a (consume2 %s (begin %s 'mid)))) (list %s)))\n(sc%d)" % (idx, E, churn, R("a"), idx)
        exp = "(%d)" % t1
    elif shape == "closure":
        text = ("(define (make%d) (let ((x %s)) (lambda () x)))\n"
                "(define (sc%d) (let ((c (make%d))) %s (let ((r1 %s)) %s %s (list r1 %s))))\n(sc%d)") % (
            idx, E, idx, idx, churn, R("(c)"), W("(c)", t2), churn, R("(c)"), idx)
        exp = "(%d %d)" % (t1, t2)
    elif shape == "cont_closed":
        # the continuation is captured inside f and re-entered after f has returned and a collection ran
        text = ("(define k%d #f)\n(define n%d 0)\n"
                "(define (f%d) (let ((x %s)) (call/cc (lambda (c) (set! k%d c))) (set! n%d (+ n%d 1)) %s))\n"
                "(define (sc%d) (let ((r (f%d))) (if (< n%d 2) (begin %s (k%d 0)) (list r n%d))))\n(sc%d)") % (
            idx, idx, idx, E, idx, idx, idx, R("x"), idx, idx, idx, churn, idx, idx, idx)
        exp = "(%d 2)" % t1
    elif shape == "cont_open":
        # collection while the continuation mark is still open (inside the receiver), then escape through it
        text = ("(define (sc%d) (let ((x %s)) (let ((v (call/cc (lambda (c) %s (c 5))))) (list v %s))))\n(sc%d)") % (
            idx, E, churn, R("x"), idx)
        exp = "(5 %d)" % t1
    elif shape == "cont_open_tail":
        text = ("(define kk%d #f)\n(define (helper%d c) (set! kk%d c) %s (c 6))\n"
                "(define (sc%d) (let ((x %s)) (let ((v (call/cc (lambda (c) (helper%d c))))) (list v %s))))\n(sc%d)") % (
            idx, idx, idx, churn, idx, E, idx, R("x"), idx)
        exp = "(6 %d)" % t1
    elif shape == "handler":
        text = ("(define (mkh%d) (let ((x %s)) (lambda (e) (list %s))))\n"
                "(define (body%d) %s (error \"boom\"))\n"
                "(call-with-exception-handler (mkh%d) (lambda () (body%d)))") % (idx, E, R("x"), idx, churn, idx, idx)
        exp = "(%d)" % t1
    elif shape == "handler_macro":
        text = ("(define (sc%d) (let ((h (let ((x %s)) (lambda (e) (list %s))))) (with-handler h %s (error \"boom\"))))\n(sc%d)") % (
            idx, E, R("x"), churn, idx)
        exp = "(%d)" % t1
    elif shape == "dynwind":
        text = ("(define out%d '())\n"
                "(define (sc%d) (dynamic-wind (lambda () 0) (lambda () %s 1) (let ((x %s)) (lambda () (set! out%d (list %s))))) out%d)\n(sc%d)") % (
            idx, idx, churn, E, idx, R("x"), idx, idx)
        exp = "(%d)" % t1
    elif shape == "tls":
        text = "(define t%d (make-tls %s))\n%s\n(define r1-%d %s)\n%s\n%s\n(list r1-%d %s)" % (
            idx, E, churn, idx, R("(get-tls t%d)" % idx), W("(get-tls t%d)" % idx, t2), churn, idx, R("(get-tls t%d)" % idx))
        exp = "(%d %d)" % (t1, t2)
    elif shape == "hostroot":
        # the host takes the value as a rooted value (SteelVal::as_rooted); the script forgets it; after the
        # collections the host passes it back to a script function
        text = (";;;host-root hr%d\n(define (rdhr%d w) (list %s))\n(define hr%d %s)\n;;;---\n(set! hr%d #f)\n%s\n0\n;;;---\n"
                ";;;host-call rdhr%d\n;;;---\n;;;host-release") % (idx, idx, R("w"), idx, E, idx, churn, idx)
        return Scen(shape, kind, wraps, text, "(%d)" % t1, result_at=2)
    elif shape == "thread":
        # the other thread keeps the object on its stack and waits; this thread collects and churns
        text = ("(define chs%d (channels/new))\n(define back%d (channels/new))\n"
                "(define th%d (spawn-native-thread (lambda () (let ((x %s)) (channel/send (channels-sender back%d) 'ready) "
                "(channel/recv (channels-receiver chs%d)) (list %s)))))\n"
                "(channel/recv (channels-receiver back%d))\n%s\n(channel/send (channels-sender chs%d) 'go)\n(thread-join! th%d)") % (
            idx, idx, idx, E, idx, idx, R("x"), idx, churn, idx, idx)
        exp = "(%d)" % t1
    elif shape == "thread_tls":
        # the object lives only in the thread-local-storage slot of ANOTHER thread, which is blocked on a
        # channel while this thread collects and churns; the other thread then reads (writes, reads) its slot
        text = ("(define tt%d (make-tls 0))\n(define chs%d (channels/new))\n(define back%d (channels/new))\n"
                "(define th%d (spawn-native-thread (lambda () (set-tls! tt%d %s) (channel/send (channels-sender back%d) 'ready) "
                "(channel/recv (channels-receiver chs%d)) (let ((r1 %s)) %s (channel/send (channels-sender back%d) 'ready) "
                "(channel/recv (channels-receiver chs%d)) (list r1 %s)))))\n"
                "(channel/recv (channels-receiver back%d))\n%s\n(channel/send (channels-sender chs%d) 'go)\n"
                "(channel/recv (channels-receiver back%d))\n%s\n(channel/send (channels-sender chs%d) 'go)\n(thread-join! th%d)") % (
            idx, idx, idx, idx, idx, E, idx, idx, R("(get-tls tt%d)" % idx), W("(get-tls tt%d)" % idx, t2), idx, idx,
            R("(get-tls tt%d)" % idx), idx, churn, idx, idx, churn, idx, idx)
        exp = "(%d %d)" % (t1, t2)
    elif shape == "thread_result":
        # the object is the result of a finished thread that has not been joined yet
        text = ("(define done%d (channels/new))\n"
                "(define th%d (spawn-native-thread (lambda () (let ((x %s)) (channel/send (channels-sender done%d) 'done) x))))\n"
                "(channel/recv (channels-receiver done%d))\n(time/sleep-ms 30)\n%s\n"
                "(let ((x (thread-join! th%d))) (list %s))") % (idx, idx, E, idx, idx, churn, idx, R("x"))
        exp = "(%d)" % t1
    elif shape == "channel":
        # the value is in flight in a channel while the collection runs
        text = ("(define chs%d (channels/new))\n(channel/send (channels-sender chs%d) %s)\n%s\n"
                "(let ((x (channel/recv (channels-receiver chs%d)))) (list %s))") % (idx, idx, E, churn, idx, R("x"))
        exp = "(%d)" % t1
    elif shape == "parameter":
        text = ("(define p%d (make-parameter 0))\n"
                "(define (sc%d) (parameterize ((p%d %s)) %s (list %s)))\n(sc%d)") % (idx, idx, idx, E, churn, R("(p%d)" % idx), idx)
        exp = "(%d)" % t1
    elif shape == "map_acc":
        # results accumulate inside `map` while later elements allocate (and collect)
        text = ("(define (sc%d) (let ((l (map (lambda (i) (let ((o %s)) (garbage 3) o)) (list 1 2 3 4 5)))) %s (map (lambda (w) %s) l)))\n(sc%d)") % (
            idx, wrap_expr(wraps, "(%s (+ %d i))" % (mk, t1)), churn, R("w"), idx)
        exp = "(%s)" % " ".join(str(t1 + i) for i in range(1, 6))
    elif shape == "fold_acc":
        text = ("(define (sc%d) (let ((l (foldl (lambda (i acc) (cons %s acc)) '() (list 1 2 3 4 5)))) %s (map (lambda (w) %s) l)))\n(sc%d)") % (
            idx, wrap_expr(wraps, "(%s (+ %d i))" % (mk, t1)), churn, R("w"), idx)
        exp = "(%s)" % " ".join(str(t1 + i) for i in range(5, 0, -1))
    elif shape == "transduce_acc":
        text = ("(define (sc%d) (let ((l (transduce (list 1 2 3 4 5) (mapping (lambda (i) (let ((o %s)) (garbage 3) o))) (into-list)))) %s (map (lambda (w) %s) l)))\n(sc%d)") % (
            idx, wrap_expr(wraps, "(%s (+ %d i))" % (mk, t1)), churn, R("w"), idx)
        exp = "(%s)" % " ".join(str(t1 + i) for i in range(1, 6))
    elif shape == "vector_fill":
        text = ("(define (sc%d) (let ((v (make-vector 5 #f))) "
                "(let loop ((i 0)) (if (< i 5) (begin (vector-set! v i %s) (garbage 2) (loop (+ i 1))) 0)) %s "
                "(map (lambda (i) (let ((w (mut-vector-ref v i))) %s)) (list 0 1 2 3 4))))\n(sc%d)") % (
            idx, wrap_expr(wraps, "(%s (+ %d i))" % (mk, t1)), churn, R("w"), idx)
        exp = "(%s)" % " ".join(str(t1 + i) for i in range(0, 5))
    elif shape == "apply_args":
        text = ("(define (tk%d a b c) (begin %s (list %s %s %s)))\n(define (sc%d) (apply tk%d (list %s %s %s)))\n(sc%d)") % (
            idx, churn, R("a"), R("b"), R("c"), idx, idx,
            wrap_expr(wraps, "(%s %d)" % (mk, t1)), wrap_expr(wraps, "(%s %d)" % (mk, t1 + 1)),
            wrap_expr(wraps, "(%s %d)" % (mk, t1 + 2)), idx)
        exp = "(%d %d %d)" % (t1, t1 + 1, t1 + 2)
    elif shape == "nested_defs":
        text = ("(define (sc%d) (define a %s) (define (inner) (begin %s %s)) (define b (inner)) %s (list b %s))\n(sc%d)") % (
            idx, E, churn, R("a"), churn, R("a"), idx)
        exp = "(%d %d)" % (t1, t1)
    elif shape == "cycle":
        # a live cycle through two objects: each holds a tag and a wrapper around the other
        text = ("(define (sc%d) (let ((a (%s 0)) (b (%s 0))) (%s a (list 11 %s)) (%s b (list 22 %s)) %s "
                "(let ((b2 %s)) (let ((a2 %s)) (list (car (%s a)) (car (%s b2)) (car (%s a2)))))))\n(sc%d)") % (
            idx, mk, mk, wr[:-0] if False else "wr-%s-any" % kind, wrap_expr(wraps, "b"), "wr-%s-any" % kind, wrap_expr(wraps, "a"), churn,
            unwrap_expr(wraps, "(cadr (%s a))" % rd), unwrap_expr(wraps, "(cadr (%s b2))" % rd), rd, rd, rd, idx)
        exp = "(11 22 11)"
    else:
        raise ValueError(shape)
    return Scen(shape, kind, wraps, text, exp)


def valid(shape, kind, wraps):
    if ("hashkey" in wraps or "hashset" in wraps):
        # the innermost wrapped thing must be hashable
        first = wraps[0]
        if first in ("hashkey", "hashset") and kind not in HASHABLE:
            return False
        for i, w in enumerate(wraps):
            if w in ("hashkey", "hashset") and i > 0 and wraps[i - 1] not in ("none", "list", "pair", "pairc", "ivec", "boxbox"):
                return False
    if shape == "cycle" and (any(w in ("hashkey", "hashset", "closure", "streamk", "transducer", "reducer", "promise", "stream", "strongset") for w in wraps)):
        return False
    if shape == "cycle" and kind == "fld":
        return True
    return True


def gen_program(rng, nscen, mode, directed=None):
    """mode: ('every', n) | ('explicit',).  Returns (text, [Scen])."""
    if mode[0] == "every":
        # while the garbage is produced a full collection at every 61st allocation is enough (every slot that a
        # collection freed is handed out again before the churn ends); the scenario's own allocations stay at n
        churn = "(begin (#%%verif-gc-every 61) (garbage (+ 40 (total-slots))) (#%%verif-gc-every %d) 0)" % mode[1]
        pre = PREAMBLE + "(#%%verif-gc-every %d)\n0" % mode[1]
    else:
        churn = "(begin (#%gc-collect) (garbage (+ 40 (total-slots))))"
        pre = PREAMBLE + "0"
    scens = []
    for i in range(nscen):
        for _ in range(50):
            if directed:
                shape, kind, wraps = directed[i % len(directed)]
            else:
                shape = rng.choice(SHAPES[:-1])
                kind = rng.choice(KINDS)
                nw = rng.choice([0, 1, 1, 1, 2, 2, 3])
                wraps = [rng.choice(WRAP_NAMES[1:]) for _ in range(nw)] or ["none"]
            if valid(shape, kind, wraps):
                break
        scens.append(scenario(rng, i, shape, kind, wraps, churn))
    text = pre + "".join("\n;;;---\n" + s.text for s in scens)
    return text, scens


def recycler_program(mode_every):
    """K04b: 105 redefinitions in separate evaluations make the global-slot recycler run."""
    pieces = [PREAMBLE + "(define t (make-tls (mk-box 42)))\n(define gb (mk-vec 43))\n(define th-box (mk-box 44))\n0"]
    for i in range(1, 106):
        pieces.append("(define junk %d)" % i)
    if mode_every:
        pieces.append("(#%%verif-gc-every %d)\n0" % mode_every)
    pieces.append("(garbage 1000)\n(list (rd-box (get-tls t)) (rd-vec gb) (rd-box th-box))")
    return "\n;;;---\n".join(pieces), "(42 43 44)"


# ------------------------------------------------------------------------------------------------------
# running
# ------------------------------------------------------------------------------------------------------

def run_batch(programs, timeout, env=None):
    """programs: list of texts.  Returns list of (piece result lines, stats list or None) per program, rc."""
    inp = "\n;;;===\n".join(programs) + "\n"
    rc, out, err = C.run_bin([C.bin_path("c04"), "batch"], inp, timeout=timeout, env=env)
    res = []
    cur, stats = [], None
    for line in out.splitlines():
        if line.startswith("=> "):
            cur.append(line[3:])
        elif line.startswith("## stats"):
            m = re.search(r"\(([\d\s]+)\)", line)
            stats = [int(x) for x in m.group(1).split()] if m else None
        elif line == "=== end":
            res.append((cur, stats))
            cur, stats = [], None
    return res, rc, (cur, err)


def header(mode, scens):
    out, at = ";; gc mode: %s\n" % (mode,), 1
    for s in scens:
        out += ";; piece %d [%s] must evaluate to %s\n" % (at + s.result_at, s.label(), s.expected)
        at += s.npieces
    return out


def check_programs(ctx, items, stats, label, timeout=300):
    """items: list of (text, scens, mode).  Runs them in parallel batches and judges every piece."""
    # at most MAX_PER_PROCESS programs per harness process: the JIT's executable mappings of an Engine are not
    # unmapped when the Engine is dropped (~400 mappings per program here), so a process that runs more than
    # ~160 programs reaches vm.max_map_count and aborts on a failing allocation
    MAX_PER_PROCESS = 60
    nb = max(1, min(C.NCPU, (len(items) + 3) // 4), (len(items) + MAX_PER_PROCESS - 1) // MAX_PER_PROCESS)
    chunks = [items[i::nb] for i in range(nb)]

    def work(chunk):
        return run_batch([t for t, _, _ in chunk], timeout) if chunk else ([], 0, ([], ""))
    results = C.pool_map(work, chunks, workers=min(nb, C.NCPU))
    for chunk, (res, rc, tail) in zip(chunks, results):
        prev_stale = 0
        prev_fc = 0
        for j, (text, scens, mode) in enumerate(chunk):
            stats["programs"] += 1
            if j >= len(res):
                # the process died or hung in this program
                stats["crashes"] += 1
                name = "C04-%s-crash-%d.scm" % (label, stats["programs"])
                got = tail[0] if j == len(res) else []
                ctx.violation(name, header(mode, scens) + ";; harness exit code %d; results of the pieces that completed: %s\n;; stderr: %s\n%s\n" % (
                    rc, got, tail[1][-300:].replace("\n", " "), text))
                break
            lines, st = res[j]
            stale = (st[8] - prev_stale) if st else 0
            prev_stale = st[8] if st else prev_stale
            bad = []
            at = 1
            for i, s in enumerate(scens):
                got = lines[at + s.result_at] if at + s.result_at < len(lines) else "<missing>"
                at += s.npieces
                stats["evaluations"] += 1
                stats["seen"].add((s.shape, s.kind, tuple(s.wraps), mode))
                stats["by_shape"][s.shape] = stats["by_shape"].get(s.shape, 0) + 1
                if got.startswith("ok "):
                    vals = got[3:].split("|")
                    if vals[-1] == s.expected:
                        continue
                bad.append((i, s, got))
            if st:
                stats["full_collections"] += st[9] - prev_fc
                prev_fc = st[9]
            if stale:
                stats["stale"] += stale
            if bad or stale:
                minimise_and_report(ctx, text, scens, mode, bad, stale, stats, label)
            elif len(stats["samples"]) < 3:
                stats["samples"].append({"mode": str(mode), "piece": scens[0].text[:400], "expected": scens[0].expected,
                                         "real": lines[1] if len(lines) > 1 else ""})


# scenario shapes that are the class of an open finding (if KNOWN_FINDINGS.txt lists it)
# K04e (class transduce_accumulator_only_root): the storage is reachable only from what a transducer pipeline
# has accumulated so far (Rust-side accumulator of the reducer) while a later callback collects.
KNOWN_SHAPES = {"channel": "K04c", "thread_result": "K04d", "transduce_acc": "K04e"}


# ------------------------------------------------------------------------------------------------------
# implicit collections: no forcing, the collector's own thresholds
# ------------------------------------------------------------------------------------------------------
# The policy starts a full collection when a free list is more than 95 % full after the minor collection
# (256 slots at first: 244 live; 25 856 after the first growth: 24 564 live).  The programs below fill one
# of the two lists (values / vectors) with live filler up to a few slots below the threshold and then make
# allocations whose operand is a FRESH, UNSHARED mutable object (reachable from nothing but the allocation
# request once the instruction has taken it off the operand stack), of rotating kinds, until the counter of
# full collections has moved and a few more; everything is read back at once (stale-handle detector) and
# again after enough garbage to hand out every free slot.  The rotation sweeps which kind - and, for kinds
# that allocate twice, which of the two allocations - is the one that triggers the collection.

# name, maker with {t}, reader with {h}
IMPL_VALUE_KINDS = [
    ("newbox-of-mvec", "(box (mutable-vector {t} 7))", "(mut-vector-ref (unbox {h}) 0)"),
    ("newbox-of-box", "(box (box {t}))", "(unbox (unbox {h}))"),
    ("field-of-mvec", "(mcell (mutable-vector {t} 7))", "(mut-vector-ref (mcell-v {h}) 0)"),
    ("setvar-of-mvec", "(let ((x (mutable-vector {t} 7))) (lambda (m a) (if (eq? m 'get) x (begin (set! x a) 0))))",
     "(mut-vector-ref ({h} 'get 0) 0)"),
    ("newbox-of-field", "(box (mcell {t}))", "(mcell-v (unbox {h}))"),
    ("newbox-of-list-of-box", "(box (list 1 (box {t})))", "(unbox (cadr (unbox {h})))"),
    ("setvar-of-box", "(let ((x (box {t}))) (lambda (m a) (if (eq? m 'get) x (begin (set! x a) 0))))", "(unbox ({h} 'get 0))"),
    ("field-of-box", "(mcell (box {t}))", "(unbox (mcell-v {h}))"),
    ("primbox-of-mvec", "((car (list box 1)) (mutable-vector {t} 7))", "(mut-vector-ref (unbox {h}) 0)"),
    ("newbox-of-closure-over-setvar", "(box (let ((x {t})) (lambda (m a) (if (eq? m 'get) x (begin (set! x a) 0)))))", "((unbox {h}) 'get 0)"),
    ("newbox-of-hash-of-box", "(box (hash 'k (box {t})))", "(unbox (hash-ref (unbox {h}) 'k))"),
]
IMPL_VECTOR_KINDS = [
    ("mvec-of-mvec", "(mutable-vector (mutable-vector {t} 7) 1)", "(mut-vector-ref (mut-vector-ref {h} 0) 0)"),
    ("makevec-of-mvec", "(make-vector 2 (mutable-vector {t} 7))", "(mut-vector-ref (mut-vector-ref {h} 1) 0)"),
    ("mvec-of-box", "(mutable-vector (box {t}) 1)", "(unbox (mut-vector-ref {h} 0))"),
    ("makevec-of-box", "(make-vector 2 (box {t}))", "(unbox (mut-vector-ref {h} 0))"),
    ("newbox-of-mvec-of-mvec", "(box (mutable-vector (mutable-vector {t} 7)))", "(mut-vector-ref (mut-vector-ref (unbox {h}) 0) 0)"),
    ("field-of-makevec-of-mvec", "(mcell (make-vector 1 (mutable-vector {t} 7)))", "(mut-vector-ref (mut-vector-ref (mcell-v {h}) 0) 0)"),
    ("mvec-of-list-of-mvec", "(mutable-vector (list (mutable-vector {t} 7)))", "(mut-vector-ref (car (mut-vector-ref {h} 0)) 0)"),
    ("mvec-of-field", "(mutable-vector (mcell {t}))", "(mcell-v (mut-vector-ref {h} 0))"),
]
# accumulating constructs: N results, each a fresh mutable object, accumulated while later elements allocate.
# name, expression with {n} {mk} (mk: expression in i), known-finding class shape
IMPL_ACCUMULATORS = [
    ("map", "(map (lambda (i) {mk}) (range 0 {n}))", None),
    ("foldl", "(reverse (foldl (lambda (i acc) (cons {mk} acc)) '() (range 0 {n})))", None),
    ("named-let", "(let loop ((i 0) (acc '())) (if (= i {n}) (reverse acc) (loop (+ i 1) (cons {mk} acc))))", None),
    ("transduce-into-list", "(transduce (range 0 {n}) (mapping (lambda (i) {mk})) (into-list))", "transduce_acc"),
    ("transduce-into-vector", "(vector->list (transduce (range 0 {n}) (mapping (lambda (i) {mk})) (into-vector)))", "transduce_acc"),
    ("transduce-into-reducer", "(reverse (transduce (range 0 {n}) (mapping (lambda (i) {mk})) (into-reducer (lambda (acc x) (cons x acc)) '())))", "transduce_acc"),
]

IMPL_PRE = """(struct mcell (v) #:mutable)
(define (st i) (list-ref (#%verif-heap-stats) i))
(define keep '())
(define items '())
(define base {base})
(define (used) (- (st base) (st (+ base 2))))
(define (thr) (+ 1 (exact (floor (* 0.95 (st base))))))
(define (fill-n n) (if (> n 0) (begin (set! keep (cons {filler} keep)) (fill-n (- n 1))) 0))
(define (fill-to n) (if (< (used) n) (begin (fill-n (- n (used))) (fill-to n)) 0))
(define (garbage n) (if (= n 0) 0 (begin (box 'overwritten) (mutable-vector 'overwritten 'overwritten) (garbage (- n 1)))))
(define (mk k t) (cond {mks} (else 0)))
(define (rd k h) (cond {rds} (else 0)))
(define (seq i r after fc0)
  (if (or (> i {limit}) (> after {extra})) i
      (let ((k (modulo (+ i r) {nk})))
        (set! items (cons (list i k (mk k (+ 5000 i)) (st 9)) items))
        (seq (+ i 1) r (if (> (st 9) fc0) (+ after 1) 0) fc0))))
(define (readback) (map (lambda (it) (list (car it) (cadr it) (rd (cadr it) (caddr it)) (cadddr it))) (reverse items)))
(list (st base) (used) (thr))"""


class Impl:
    """One implicit-collection program."""
    def __init__(self, which, rot, second, margin, acc=None, acc_kind=0):
        self.which, self.rot, self.second, self.margin, self.acc, self.acc_kind = which, rot, second, margin, acc, acc_kind
        self.kinds = IMPL_VALUE_KINDS if which == "values" else IMPL_VECTOR_KINDS
        nk = len(self.kinds)
        pre = IMPL_PRE.format(
            base=0 if which == "values" else 4, filler="(box 0)" if which == "values" else "(mutable-vector 0)",
            mks=" ".join("((= k %d) %s)" % (i, k[1].format(t="t")) for i, k in enumerate(self.kinds)),
            rds=" ".join("((= k %d) %s)" % (i, k[2].format(h="h")) for i, k in enumerate(self.kinds)),
            limit=400, extra=nk + 2, nk=nk)
        pieces = [pre]
        if second:
            # cross the first threshold with filler only (full collection, growth), then aim at the second one
            pieces.append("(fill-to (+ (thr) 30))\n(list (st base) (used) (thr) (st 9))")
        if acc is None:
            pieces.append("(fill-to (- (thr) %d))\n(define fc0 (st 9))\n(seq 0 %d 0 fc0)" % (margin, rot))
        else:
            name, expr, _ = IMPL_ACCUMULATORS[acc]
            mk = self.kinds[acc_kind][1].format(t="(+ 5000 i)")
            pieces.append("(fill-to (- (thr) %d))\n(define fc0 (st 9))\n(define res %s)\n"
                          "(set! items (map (lambda (h i) (list i %d h (st 9))) res (range 0 (length res))))\n(length res)" % (
                              margin, expr.format(n=40 + margin, mk=mk), acc_kind))
        pieces.append("(define s0 (st 8))\n(define r1 (readback))\n(list fc0 (- (st 9) fc0) (- (st 8) s0) r1)")
        pieces.append("(garbage (+ 40 (st 0) (st 4)))\n(define s1 (st 8))\n(define r2 (readback))\n(list (- (st 8) s1) (map caddr r2))")
        self.text = "\n;;;---\n".join(pieces)

    def label(self):
        return "implicit-%s-%s-r%d-m%d%s" % (
            self.which, "2nd" if self.second else "1st", self.rot, self.margin,
            "" if self.acc is None else "-%s-%s" % (IMPL_ACCUMULATORS[self.acc][0], self.kinds[self.acc_kind][0]))


def parse_sexp(txt):
    """Minimal reader for the printed result lists (integers, symbols, nested lists)."""
    toks = re.findall(r"\(|\)|[^\s()]+", txt)
    pos = [0]

    def rd():
        t = toks[pos[0]]; pos[0] += 1
        if t == "(":
            out = []
            while toks[pos[0]] != ")":
                out.append(rd())
            pos[0] += 1
            return out
        try:
            return int(t)
        except ValueError:
            return t
    return rd()


def implicit_family(ctx, stats, hookless_only=False):
    """Runs the implicit-collection programs (JIT on and off) and judges them.  Oracle: the tags written."""
    progs = []
    nkv, nkx = len(IMPL_VALUE_KINDS), len(IMPL_VECTOR_KINDS)
    quick = ctx.quick()
    for rot in range(nkv):
        for margin in ((6, 7) if quick else (5, 6, 7, 8)):
            progs.append(Impl("values", rot, False, margin))
    for rot in range(nkx):
        for margin in ((6, 7) if quick else (5, 6, 7, 8)):
            progs.append(Impl("vectors", rot, False, margin))
    for rot in (range(0, nkv, 3) if quick else range(nkv)):
        progs.append(Impl("values", rot, True, 6 + rot % 2))
    for rot in (range(0, nkx, 3) if quick else range(nkx)):
        progs.append(Impl("vectors", rot, True, 6 + rot % 2))
    for a in range(len(IMPL_ACCUMULATORS)):
        for which, ks in (("values", (0,)), ("vectors", (0,))) if quick else (("values", (0, 1, 3)), ("vectors", (0, 2, 3))):
            for k in ks:
                progs.append(Impl(which, 0, False, 6, acc=a, acc_kind=k))
    items = [(p, jit) for p in progs for jit in ("true", "false")]
    nb = max(1, min(C.NCPU, (len(items) + 5) // 6))
    chunks = [items[i::nb] for i in range(nb)]

    def work(chunk):
        out = []
        for jit in ("true", "false"):
            sub = [p for p, j in chunk if j == jit]
            if sub:
                res, rc, tail = run_batch([p.text for p in sub], 600, env={"STEEL_JIT": jit})
                out.append((jit, sub, res, rc, tail))
        return out
    known = stats.get("known", {})
    trig = stats.setdefault("implicit_trigger_kinds", {})
    for group in C.pool_map(work, chunks, workers=nb):
        for jit, sub, res, rc, tail in group:
            for j, p in enumerate(sub):
                stats["implicit_programs"] = stats.get("implicit_programs", 0) + 1
                name = "C04-%s-jit%s.scm" % (p.label(), jit)
                head = ";; implicit collections (no forcing), STEEL_JIT=%s, %s\n;; every item i must read back 5000+i, no stale-handle access\n" % (jit, p.label())
                if j >= len(res):
                    ctx.violation(name, head + ";; the harness died (rc=%d) %s\n%s\n" % (rc, tail[1][-300:].replace("\n", " "), p.text))
                    break
                lines = res[j][0]
                problem = None
                try:
                    if len(lines) < 2 or not lines[-2].startswith("ok "):
                        raise ValueError("the program did not reach the first read-back")
                    fc0, dfc, stale1, r1 = parse_sexp(lines[-2][3:].split("|")[-1])
                    if not r1:
                        problem = "no items"
                    if lines[-1].startswith("ok "):
                        stale2, r2 = parse_sexp(lines[-1][3:].split("|")[-1])
                    else:
                        stale2, r2 = 0, [None] * len(r1)
                        problem = "reading everything again after the churn fails: " + lines[-1][:200]
                    for (i, k, v, fc), v2 in zip(r1, r2):
                        stats["evaluations"] += 1
                        if v != 5000 + i or (v2 is not None and v2 != 5000 + i):
                            problem = problem or "item %d (%s) reads %s, after the churn %s" % (i, p.kinds[k][0], v, v2)
                    if stale1 or stale2:
                        problem = (problem + "; " if problem else "") + "stale-handle accesses (slot marked free while a handle to it is used): %d at the first read, %d after the churn" % (stale1, stale2)
                    if dfc >= 1 and p.acc is None:
                        for (i, k, v, fc) in r1:
                            if fc > fc0:
                                key = "%s/%s/%s" % (p.which, "2nd" if p.second else "1st", p.kinds[k][0])
                                trig[key] = trig.get(key, 0) + 1
                                break
                    if dfc < 1:
                        stats["implicit_no_trigger"] = stats.get("implicit_no_trigger", 0) + 1
                    else:
                        stats["full_collections"] += dfc
                except (IndexError, ValueError, TypeError) as ex:
                    problem = "unexpected output (%r): %s" % (ex, lines[-2:])
                stats["seen"].add(("implicit", p.label(), jit))
                if problem:
                    shape = IMPL_ACCUMULATORS[p.acc][2] if p.acc is not None else None
                    kid = KNOWN_SHAPES.get(shape)
                    if kid and kid in known:
                        ctx.known_finding("id=%s %s" % (kid, known[kid]))
                        stats["known_hits"][kid] = stats["known_hits"].get(kid, 0) + 1
                    else:
                        ctx.violation(name, head + ";; observed: %s\n%s\n" % (problem, p.text))


def minimise_and_report(ctx, text, scens, mode, bad, stale, stats, label):
    known = stats.get("known", {})
    if bad and all(KNOWN_SHAPES.get(s.shape) in known for _, s, _ in bad):
        for _, s, got in bad:
            kid = KNOWN_SHAPES[s.shape]
            ctx.known_finding("id=%s %s" % (kid, known[kid]))
            stats["known_hits"][kid] = stats["known_hits"].get(kid, 0) + 1
        return
    pieces = text.split("\n;;;---\n")
    pre = pieces[0]
    cands = [i for i, _, _ in bad] or list(range(len(scens)))
    for i in cands[:3]:
        s = scens[i]
        solo = pre + "\n;;;---\n" + s.text
        res, rc, _ = run_batch([solo], 120)
        got = res[0][0][1 + s.result_at] if res and len(res[0][0]) > 1 + s.result_at else "<crash rc=%d>" % rc
        st = res[0][1] if res else None
        ok = got.startswith("ok ") and got[3:].split("|")[-1] == s.expected
        if not ok or (st and st[8] > 0):
            name = "C04-%s-%s-%s-%s.scm" % (label, s.shape, s.kind, "+".join(s.wraps))
            if name in stats["reported"]:
                return
            stats["reported"].add(name)
            ctx.violation(name, header(mode, [s]) + ";; observed: %s ; stale-handle accesses recorded: %s\n%s\n" % (
                got, st[8] if st else "?", solo))
            return
    # not reproducible alone: report the whole program
    name = "C04-%s-program-%d.scm" % (label, stats["programs"])
    ctx.violation(name, header(mode, scens) + ";; failing pieces: %s ; stale accesses: %d\n%s\n" % (
        [(i + 1, g) for i, _, g in bad], stale, text))


def model_correspondence(ctx, rng, stats):
    """(i) enum: the fields the regenerated tables lose are exactly the assumed ones; (ii) random abstract
    heap programs on the machine: M (collections anywhere) = S."""
    drv = C.driver_path("c04driver")
    rc, table, _ = C.run_bin([drv, "table"], "", timeout=60)
    rc2, enum, _ = C.run_bin([drv, "enum"], "", timeout=120)
    fields = [l.split() for l in table.splitlines() if l.strip()]
    assumed = {(f[0], f[1]) for f in fields if f[-1] == "assumed"}
    lost = {(l.split()[0], l.split()[1]) for l in enum.splitlines() if l.endswith("LOST")}
    stats["model_fields"] = len(fields)
    stats["model_lost"] = sorted("%s.%s" % x for x in lost)
    if rc or rc2 or not fields:
        return "driver failed (rc=%d/%d)" % (rc, rc2)
    if lost != assumed:
        return "fields lost by the marker tables %s differ from the assumed ones %s" % (sorted(lost), sorted(assumed))
    # random abstract programs
    kinds = {}
    for f in fields:
        if f[-1] != "assumed" and f[0] not in ("MutableVector", "HeapAllocated"):
            kinds.setdefault(f[0], []).append(int(f[1]))
    klist = sorted(kinds)
    lines = []
    expect = []
    nprog = 60 if ctx.quick() else 1500
    for p in range(nprog):
        regs, handles, val = [], {}, {}
        n = 0
        for step in range(rng.randint(8, 40)):
            r = rng.random()
            if r < 0.30 or not handles:
                n += 1
                a, b = "a%d" % n, "h%d" % n
                lines += ["atom %s %d" % (a, n), "box %s %s" % (b, a), "drop %s" % a]
                handles[b] = n
                regs.append(b)
            elif r < 0.50:
                # hide a handle inside a container (possibly nested) and forget the direct handle
                b = rng.choice(sorted(handles))
                k = rng.choice(klist)
                n += 1
                c = "c%d" % n
                lines += ["node %s %s %d:%s" % (c, k, rng.choice(kinds[k]), b), "drop %s" % b]
                val[c] = ("node", b, handles.pop(b))
                regs.append(c)
            elif r < 0.62 and val:
                c = rng.choice(sorted(val))
                _, b, tagv = val.pop(c)
                lines += ["child %s 0 %s" % (c, b), "drop %s" % c]
                handles[b] = tagv
            elif r < 0.74:
                b = rng.choice(sorted(handles))
                n += 1
                lines += ["atom t%d %d" % (n, n), "setbox %s t%d" % (b, n), "drop t%d" % n]
                handles[b] = n
            elif r < 0.80 and len(handles) > 1:
                b = rng.choice(sorted(handles))
                lines.append("drop %s" % b)
                handles.pop(b)
            elif r < 0.93:
                lines.append("gc %s" % rng.choice(["full", "full", "minor"]))
            else:
                b = rng.choice(sorted(handles))
                lines.append("read %s" % b)
                expect.append("M=%d S=%d" % (handles[b], handles[b]))
        for b in sorted(handles):
            lines += ["gc full", "read %s" % b]
            expect.append("M=%d S=%d" % (handles[b], handles[b]))
        lines.append("stats")
        expect.append("stats")
        lines.append("reset")
        expect.append("reset")
    rc, out, _ = C.run_bin([drv, "run"], "\n".join(lines) + "\n", timeout=600)
    got = out.splitlines()
    stats["model_programs"] = nprog
    stats["model_reads"] = sum(1 for e in expect if e.startswith("M="))
    if rc != 0 or len(got) != len(expect):
        return "driver run: rc=%d, %d lines for %d expected" % (rc, len(got), len(expect))
    for g, e in zip(got, expect):
        if e == "stats":
            m = re.match(r"cells=(\d+) free=(\d+) alloc_count=(\d+)", g)
            if not m or m.group(2) != m.group(3):
                return "model accounting: " + g
        elif g != e:
            return "model M/S disagree with the tags written: got %s expected %s" % (g, e)
    return None


def directed_list():
    out = []
    for shape in SHAPES[:-1]:
        for kind in KINDS:
            out.append((shape, kind, ["none"]))
    for w in WRAP_NAMES[1:]:
        for kind in KINDS:
            for shape in ("global", "local", "closure", "cont_closed", "thread", "thread_tls"):
                if valid(shape, kind, [w]):
                    out.append((shape, kind, [w]))
    return out


def run(ctx):
    stats = {"programs": 0, "evaluations": 0, "seen": set(), "by_shape": {}, "samples": [], "stale": 0, "crashes": 0,
             "full_collections": 0, "_fc": 0, "reported": set(), "known_hits": {},
             "known": {k["id"]: k["text"].split(" ", 5)[-1] for k in ctx.load_known() if "id" in k}}
    rc, out = C.sh(["python3", os.path.join(C.VERIF, "translate", "c04_edges.py")], timeout=120)
    translator_ok = rc == 0
    ctx.log("translator: " + out.strip().splitlines()[0][:300] if out.strip() else "translator: no output")
    pr = C.prove(ctx, "C04", ["c04driver"])
    ok, log = C.build_harness(ctx, ["c04"])
    base_cov = {"obligations": pr["obligations"], "discharged": pr["discharged"],
                "checker_cmd": "cd lean && lake build SteelVerif.C04.Props && lake env lean SteelVerif/C04/Audit.lean",
                "trusted_base": C.TRUSTED_BASE}
    if not ok:
        ctx.violation("C04-harness-build.txt", "the harness no longer builds against /repo:\n" + log, no_input=True)
        ctx.coverage = base_cov
        return ctx.finish()
    rng = random.Random(ctx.seed)

    # hook present?
    res, rc, _ = run_batch(["(#%verif-heap-stats)"], 60)
    hook = bool(res and res[0][1])
    if not hook:
        ctx.notes.append("steel_verif heap hooks absent: forced-collection modes skipped")

    # 1. corpus: regression witnesses (must evaluate to the value in their header)
    cdir = os.path.join(C.VERIF, "corpus", "C04")
    corpus = []
    for fn in sorted(os.listdir(cdir)) if os.path.isdir(cdir) else []:
        if fn.endswith(".scm"):
            txt = open(os.path.join(cdir, fn)).read()
            m = re.search(r";; expect-last: (.*)", txt)
            corpus.append((fn, txt, m.group(1).strip() if m else None))
    cres, crc, _ = run_batch([t for _, t, _ in corpus], 300) if corpus else ([], 0, None)
    for (fn, txt, exp), r in zip(corpus, cres + [([], None)] * (len(corpus) - len(cres))):
        stats["evaluations"] += 1
        last = r[0][-1] if r[0] else "<missing>"
        val = last[3:].split("|")[-1] if last.startswith("ok ") else last
        if exp is not None and val != exp:
            ctx.violation("C04-corpus-" + fn, ";; regression witness corpus/C04/%s: expected %s, observed %s\n%s" % (fn, exp, last, txt))
    stats["corpus"] = len(corpus)

    # 2. model-level correspondence
    mc = model_correspondence(ctx, rng, stats) if os.path.exists(C.driver_path("c04driver")) else "driver does not build"

    # 3. program level
    items = []
    dl = directed_list()
    modes = [("every", 1), ("every", 2), ("every", 7)] if hook else []
    per = 6
    if hook:
        # directed: every shape x kind, every wrapper, under a collection at every allocation
        for i in range(0, len(dl), per):
            t, s = gen_program(rng, min(per, len(dl) - i), ("every", 1), directed=dl[i:i + per])
            items.append((t, s, ("every", 1)))
        nrand = 60 if ctx.quick() else 3000     # ~13 min on 16 cores with at most 60 programs per harness process
        for i in range(nrand):
            mode = modes[i % len(modes)]
            t, s = gen_program(rng, per, mode)
            items.append((t, s, mode))
    nexp = 12 if ctx.quick() else 300
    for i in range(nexp):
        t, s = gen_program(rng, 2, ("explicit",), directed=None if i >= len(dl) // 8 else dl[i * 8:i * 8 + 2])
        items.append((t, s, ("explicit",)))
    ctx.log("running %d programs (%d scenarios)" % (len(items), sum(len(s) for _, s, _ in items)))
    check_programs(ctx, items, stats, "gen", timeout=240 if ctx.quick() else 3000)
    ctx.log("programs=%d scenarios=%d stale=%d full collections=%d" % (
        stats["programs"], stats["evaluations"], stats["stale"], stats["full_collections"]))
    # 4. implicit collections: the collector's own thresholds, no forcing
    if hook:
        implicit_family(ctx, stats)
        ctx.log("implicit-collection programs=%d, allocation kinds that were the triggering one: %d of %d, without a trigger: %d" % (
            stats.get("implicit_programs", 0), len({k.rsplit("/", 1)[1] for k in stats.get("implicit_trigger_kinds", {})}),
            len(IMPL_VALUE_KINDS) + len(IMPL_VECTOR_KINDS), stats.get("implicit_no_trigger", 0)))
    own = "verif_" in "".join(l for l in out.splitlines() if l.startswith(" markSites"))
    stats["hook_own_marker_call"] = own
    if own:
        ctx.notes.append("the forced-collection hook of this /repo starts the marker from its own call site "
                         "(verif_forced_collection): forced runs do not exercise the root arguments of the real "
                         "value_collection / vector_collection call sites; those are covered by the obligation "
                         "pending_value_is_root and by the implicit-collection programs only "
                         "(.build/C04/proposed-hook-forced-through-real-path.diff removes the duplication)")

    if not translator_ok and not ctx.violations:
        ctx.violation("C04-translator.txt", "translate/c04_edges.py no longer parses the sources:\n" + out, no_input=True)
    if not pr["ok"] and not ctx.violations:
        ctx.violation("C04-proof-broken.txt", "proof obligations of SteelVerif.C04.Props that no longer check (a table "
                      "obligation failing means the marker no longer follows a field / pushes a root):\n" +
                      "\n".join("%s: %s" % f for f in pr["failed"]) + "\n", no_input=True)
    if mc and not ctx.violations:
        ctx.violation("C04-model-correspondence.txt", mc + "\n", no_input=True)
    ctx.coverage = dict(base_cov)
    ctx.coverage.update({
        "trusted_base": C.TRUSTED_BASE + ["translate/c04_edges.py (bracket matching + regex extraction)",
                                          "hand-written edgesSpecTable / rootsSpec in Props.lean",
                                          "hand-written VM model of the stack discipline around call/cc (LemmasOpenMark.lean), on which open_mark_covered is proved"],
        "evaluations": stats["evaluations"], "distinct_nontrivial": len(stats["seen"]),
        "rule_implicit": "implicit program = (free list: values / vectors) x (threshold: first / second) x (rotation of 11 resp. 8 allocation kinds with a fresh unshared mutable operand, or one of 6 accumulating constructs) x (margin below the threshold) x (STEEL_JIT on / off); judged by the tags read back at once and after enough garbage to reuse every free slot, and by the stale-handle detector",
        "rule": "scenario = (hiding place: global/local/pending argument/closure/closed+open continuation/handler/dynamic-wind/TLS/second thread/channel/parameter/accumulators of map, foldl, transduce, vector fill/apply/internal defines/live cycle) x (storage: box, mutable vector, make-vector vector, mutable struct field, set!-captured variable) x (0-3 nested containers out of 17 kinds) x (collection at every 1st/2nd/7th allocation, or explicit full collections), each followed by enough garbage to hand out every free slot; distinct = distinct (shape, storage, wrappers, mode)",
        "samples": stats["samples"], "programs": stats["programs"], "by_shape": stats["by_shape"],
        "full_collections_on_real_heaps": stats["full_collections"], "stale_handle_accesses": stats["stale"],
        "corpus_witnesses": stats.get("corpus", 0),
        "model_fields": stats.get("model_fields"), "model_fields_lost_by_tables": stats.get("model_lost"),
        "model_programs": stats.get("model_programs"), "model_reads": stats.get("model_reads"),
        "hook_present": hook, "known_finding_hits": stats["known_hits"],
        "hook_has_own_marker_call": stats.get("hook_own_marker_call"),
        "implicit_collection_programs": stats.get("implicit_programs", 0),
        "implicit_trigger_kinds": stats.get("implicit_trigger_kinds", {}),
        "implicit_programs_without_trigger": stats.get("implicit_no_trigger", 0),
        "translator_extracted": out.strip().splitlines()[:7], "axioms": pr.get("axioms", {}), "proof_failures": ["%s: %s" % f for f in pr["failed"]],
    })
    ctx.assumptions = ["the VM follows the stack discipline modelled in LemmasOpenMark.lean (open_mark_covered is proved of that model)",
                       "edgesSpecTable lists every value-holding field"]
    return ctx.finish("proof")


def replay(ctx, path):
    C.build_harness(ctx, ["c04"])
    txt = open(path).read()
    res, rc, tail = run_batch([txt], 600)
    print("harness rc=%d" % rc)
    for l in txt.splitlines():
        if l.startswith(";;"):
            print(l)
    if res:
        for i, l in enumerate(res[0][0]):
            print("piece %d: %s" % (i, l))
        print("stats:", res[0][1])
    else:
        print("no complete result; partial:", tail)
    return 0
