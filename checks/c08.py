"""C08 — continuations, dynamic-wind and handlers restore the captured control state.

prove      : lake build SteelVerif.C08.Props (+ audit): Wind.lean (winders / common-tail / do-wind / the call/cc
             wrapper of parameters.scm as list functions: `wind_exactly_once` …) and Model.lean (the stack VM with
             lazily captured continuations: `lazy_capture_eq_eager`, `invoke_restores_pending_work`,
             `invoke_twice_same`, `handler_nearest`).
correspond : whole programs with a side-effect trace from gen/cont08.py (+ corpus/C08): the real engine (harness
             `c08`, one fresh Engine per program; default configuration, STEEL_JIT=false, STEEL_VERIF_GC_EVERY=1)
             vs the reference semantics S (lean/SteelVerif/C08/Spec.lean, CEK machine with the standard winders
             algorithm comparing extents by identity): values of the top-level forms, the trace, stdout, outcome.
             8% of the programs are the NATIVE-CALLBACK family (gen/cont08.py t_native_callback): random nests of
             call-with-exception-handler / with-handler / dynamic-wind / helper calls / further transduce levels INSIDE
             callbacks of `transduce` (mapping / filtering / into-for-each / into-reducer), errors in bodies and in
             handlers (re-raise, new error, failing the first times, returning): the handler search of the NESTED
             interpreter instance (the second unwind loop of vm.rs).  They run three to a process with a short clock.
             A sixth of the programs are HISTORIES: pieces separated by `;;;---` are separate evaluations on one
             engine (a REPL session); forms store a continuation and die with an uncaught error, later pieces
             invoke it 0/1/n times under winds, handlers, calls.  (While finding K08h is open — vm.rs read by the
             translator — a cross-evaluation invocation is undefined behaviour: those programs are skipped.)
oracle     : S.  A real ≠ S difference is a VIOLATION unless it is attributed to an open finding:
             class predicate (computed by S's run: the negation of the guard of the `_partial` theorem) AND the
             real engine behaves exactly like the faithful variant (`c08driver impl`: dynamic-wind / do-wind /
             the call/cc wrapper of parameters.scm and reset / shift / with-handler of stdlib.scm transcribed into
             the object language and run on primitive continuations), or — for findings whose mechanism is below
             the source level (nested interpreter instances of native built-ins) — a syntactic class predicate.
"""
import glob
import os
import random
import re
import sys

from . import common as C

sys.path.insert(0, C.VERIF)
from gen.cont08 import gen_program, parse_forms, shrink  # noqa: E402

PID = "C08"
META = {
    "ready": True,
    "category": "proof",
    "technique": "Lean 4 theorems about (1) the winders algorithm of parameters.scm transcribed as list functions, (2) a flat-stack VM model of vm.rs with lazily captured continuation marks (Open/Closed), the two reinstatement paths and the handler search, (3) dynamic-wind COMPOSED with the handler mechanism (parameters.scm's definition of dynamic-wind through call-with-exception-handler, a guarded pop of winders and a re-raise, compiled into a core language of handler frames) and (4) a history-level model of evaluations on one engine (what a continuation keeps alive: instruction lifetime of top-level forms), each for all operation sequences / programs / histories; the decisions the models depend on are re-read from parameters.scm / vm.rs on every run (eight decisions, each a decide obligation); + differential execution of generated continuation programs (trace of side effects, values): real engine (default, STEEL_JIT=false, collection at every allocation) vs an executable CEK reference semantics with R7RS winders (extents compared by identity)",
    "level_text": "Proved (SteelVerif/C08/Props.lean, 37 audited theorems, no bound on stack depth, frames, captures, operations, extents, rounds or evaluations): wind_exactly_once (a transfer between winders A'++C and B'++C runs `after` of A' innermost-first then `before` of B' outermost-first, each once, nothing else, for the comparison parameters.scm uses — read from the source on every run; _partial under DistinctExtentsDiffer + decide'd counterexample for equal?), escape_after_innermost_first, reentry_before_outermost_first (a continuation captured inside extents B' and invoked from outside them runs their `before` thunks outermost first, each once), generator_round_trips (a continuation re-entered in a loop: for every n, n consumer/producer rounds run exactly after Q', before P', after P', before Q' per round — nothing accumulates, nothing is skipped), wind_normal_and_error_once, wrapper_eq_doWind, wind_events_nodup; wind_handler_compose (for EVERY program of notes, errors, user handlers and dynamic-winds, parameters.scm's dynamic-wind — written with call-with-exception-handler, the guarded pop and the re-raise — under the VM's rule `nearest handler frame, which runs uninstalled` yields exactly before/body/after per entered extent in nesting order on return and on error, handler bodies after the `after` thunks of every extent the error left, winders restored), error_through_extents (an error escaping through n nested extents to a handler: after eₙ … after e₁, each once, innermost first, and only then the handler body), nested_extents_bracket; lazy_capture_eq_eager (for every sequence of frame push/pop, changes of the running frame, store writes, captures, invocations and error unwinds, a successful invocation of a captured continuation — mark closed or still open, either reference-count branch — reinstates exactly the operand stack, frames, ip and sp that an eager full copy at capture would), invoke_restores_pending_work, invoke_twice_same, generator_resume_same (invoke; ANY further operations incl. further invocations, unwinds, captures; invoke again: the same frames, operand stack + passed value, resume address), handler_nearest / handler_nearest_code, handler_error_goes_to_next_handler (the handler runs with its frame's handler uninstalled: an error it raises, from any depth, goes to the NEXT handler frame — code_handler_uninstalled: vm.rs does this in BOTH unwind loops, the top-level one and the one of nested instances of native callbacks), invoke_never_panics / _code (code_mark_discipline); later_evaluation_invoke_safe / _code (for EVERY history of evaluations on one engine, with continuations invoked by the evaluation that captured them or by ANY later one, on the open or closed path: no raw instruction pointer of the running state — register, return address of any frame — points into a top-level form that nothing holds; it points into a function body or into the form `current_root` holds: code_continuation_keeps_root, read from vm.rs), cross_evaluation_invoke_installs_root, dangling_root_witness (decide'd: without the keep-alive the later evaluation resumes in freed instructions — K08h). The VM model is my transcription of vm.rs at the level of frames and marks with abstract instructions; the history model represents a continuation by its eager copy (justified by lazy_capture_eq_eager) + the root field; Control.lean takes thunks as atomic events; reset/shift, the JIT and nested interpreter instances are not modelled in Lean: they, the whole pipeline and dynamic-wind/handlers end to end are covered by the differential run against the reference semantics (20 000 programs x 3 configurations in the thorough tier), which includes a family of programs with handlers / winds / failing handlers INSIDE callbacks of native higher-order built-ins (the second unwind loop of vm.rs).",
    "level_note": "Trusted: Lean kernel, the transcription of vm.rs / parameters.scm into Model.lean / Wind.lean / Control.lean / Marks.lean (tied by translate/c08_code.py for eight decisions — comparison of extents, shape of dynamic-wind and its guarded exit-on-error handler, mark closed before taken on every unwound frame, shared open mark closed on invocation, no dummy frame, handler uninstalled before it runs in both unwind loops, continuations keep their form's instructions —, by the debug assertions of the engine build — it keeps the eager copy next to every open mark and asserts equality — and by the differential run), C08/Spec.lean as the reading of the property (deviations: handler result is the value of the handler expression; a top-level form is the extent of its continuations; transduce = lazy per-element pipeline), harness/driver/comparison, generator coverage. Open findings: K08b (reset/shift/with-handler share one meta-continuation cell and use the primitive call/cc) is attributed by class predicate (from S's run) AND exact agreement of the real engine with the faithful variant (parameters.scm + stdlib.scm transcribed into the object language, `c08driver impl`); K08e (continuations captured/invoked inside callbacks of native higher-order built-ins: nested interpreter instance, below the source level) by a syntactic class predicate. Fixed during the build: D12/K08a, K08c, K08d, K08f, K08g, K08h (regression programs in findings/, run first in every tier; were K08h's keep-alive removed, code_continuation_keeps_root breaks and cross-evaluation histories are skipped as undefined behaviour). pop_count bookkeeping, nested evaluations (eval inside a form), threads, continuations crossing make_thread are not covered; thunks that themselves escape or raise during a transfer are covered by the differential run only.",
}

SEP = "\n;;;===\n"
CONFIGS = [("default", {}), ("nojit", {"STEEL_JIT": "false"}), ("gc1", {"STEEL_VERIF_GC_EVERY": "1"})]

# Open findings of this property.  Until the coordinator lists them in KNOWN_FINDINGS.txt the files
# findings/C08-K08*.scm (first line: `; finding: property=C08 id=… class=… replay=… text`) count as listed.
def load_known(ctx):
    known = {k["id"]: k["text"] for k in ctx.load_known() if "id" in k}
    for path in sorted(glob.glob(os.path.join(C.VERIF, "findings", "C08-K08*.scm"))):
        first = open(path).readline().strip().lstrip("; ")
        m = re.match(r"finding:\s+property=C08\s+id=(\S+)", first)
        if m and m.group(1) not in known:
            known[m.group(1)] = first
    return known


def parse_records(text):
    recs, cur = [], None
    for line in text.split("\n"):
        if line.startswith("\x1eB"):
            cur = {"out": [], "res": None, "ev": {}}
            recs.append(cur)
        elif cur is None:
            continue
        elif line.startswith("\x1eV"):
            cur["res"] = ("ok", [v for v in line[3:].split("\x1f") if v and v != "#<void>"])
        elif line.startswith("\x1eE"):
            cur["res"] = ("err", line[3:])
        elif line.startswith("\x1eP"):
            cur["res"] = ("panic", line[3:])
        elif line.startswith("\x1eC"):
            cur["ev"] = {k: int(v) for k, v in (kv.split("=") for kv in line[3:].split(",") if "=" in kv)}
        else:
            cur["out"].append(line)
    for r in recs:
        r["out"] = "\n".join(r["out"]).strip("\n")
    return recs


def strip_comments(text):
    return "\n".join(l for l in text.split("\n") if not l.startswith("#"))


def run_real(progs, env=None, timeout=240, reuse=1, per_chunk=None):
    """Run programs on the real engine in parallel child processes.  The harness exits after a panic (the
    process may be poisoned) and a child can die (abort, stack overflow, timeout): in both cases the rest of
    the chunk is run in a fresh process.  reuse > 1: one Engine serves that many consecutive programs (10x
    faster); the caller confirms every disagreement on a fresh engine."""
    n = len(progs)
    results = [None] * n
    argv = [C.bin_path("c08")] + (["--reuse", str(reuse)] if reuse > 1 else [])

    def run_chunk(idxs):
        todo = list(idxs)
        while todo:
            text = SEP.join(progs[i] for i in todo) + "\n"
            rc, out, err = C.run_bin(argv, text, timeout=timeout, env=env)
            recs = parse_records(out)
            done = 0
            for k, i in enumerate(todo):
                if k < len(recs) and recs[k]["res"] is not None:
                    results[i] = recs[k]
                    done = k + 1
                else:
                    break
            if done == len(todo):
                return
            if done > 0 and results[todo[done - 1]]["res"][0] == "panic":
                todo = todo[done:]          # harness exited on purpose after the panic
                continue
            i = todo[done]                  # this program killed the child
            why = "timeout" if rc == 124 else "exit %d: %s" % (rc, ((err or "").strip().splitlines() or [""])[-1][:200])
            results[i] = {"out": recs[done]["out"] if done < len(recs) else "", "res": ("crash", why), "ev": {}}
            todo = todo[done + 1:]

    nchunks = max(1, min(C.NCPU, n // 4 or 1)) if reuse <= 1 else max(1, min(C.NCPU * 4, n // 40 or 1))
    if per_chunk:
        nchunks = max(1, (n + per_chunk - 1) // per_chunk)
    chunks = [list(range(i, n, nchunks)) for i in range(nchunks)]
    C.pool_map(run_chunk, [c for c in chunks if c], workers=C.NCPU)
    return results


def run_spec(progs, mode=None, timeout=1500):
    """S (mode None) or the faithful variant (mode 'impl' / 'equal'), split over processes."""
    n = len(progs)
    results = [None] * n
    args = [C.driver_path("c08driver")] + ([mode] if mode else [])

    def run_chunk(idxs):
        text = SEP.join(progs[i] for i in idxs) + "\n"
        rc, out, err = C.run_bin(args, text, timeout=timeout)
        recs = parse_records(out)
        for k, i in enumerate(idxs):
            if k < len(recs) and recs[k]["res"] is not None:
                results[i] = recs[k]
            else:
                results[i] = {"out": "", "res": ("err", "timeout (driver: rc=%d)" % rc), "ev": {}}

    nchunks = max(1, min(C.NCPU, n // 8 or 1))
    chunks = [list(range(i, n, nchunks)) for i in range(nchunks)]
    C.pool_map(run_chunk, [c for c in chunks if c])
    return results


def same(r, m):
    if r["res"][0] != m["res"][0]:
        return False
    if r["out"] != m["out"]:
        return False
    return r["res"][0] != "ok" or r["res"][1] == m["res"][1]


PANIC_OPEN = "Failed to find an open continuation on the stack"


def _subterms(x):
    yield x
    if isinstance(x, list):
        for y in x:
            yield from _subterms(y)


def _atoms(x):
    return [a for a in _subterms(x) if isinstance(a, str)]


def uses_cweh(forms):
    """Class predicate of K08d (syntactic part): the program applies call-with-exception-handler.  Whether the
    handler frame is the outermost frame of the real VM when the error arrives cannot be read off the source (small
    procedures are inlined into the top-level form: `(define (go) (+ 1 (call-with-exception-handler …)))` `(go)`
    fails like the direct form), so the predicate is: an error was handled (S) in a program that installs a handler
    with call-with-exception-handler.  The mechanism itself is in Model.lean (`Cfg.dummyFrame`, theorem
    `dummy_frame_witness`)."""
    return any("call-with-exception-handler" in _atoms(f) for f in forms)


CONT_ATOM = re.compile(r"^(call/cc|call-with-current-continuation|g[123]|bx|k\d*|c|f\d+|lp\d+|return|resume)$")


def control_in_native_callback(forms):
    """Class predicate of K08e (syntactic): the callback handed to a NATIVE higher-order built-in (transduce)
    captures or invokes a continuation (or calls a user procedure that may)."""
    for f in forms:
        for t in _subterms(f):
            if isinstance(t, list) and t[:1] == ["transduce"]:
                if any(CONT_ATOM.match(a) for a in _atoms(t[1:])):
                    return True
    return False


ERR_ATOM = re.compile(r"^(error|car|cdr|vector-ref|raise-error|f\d+|lp\d+)$")


def error_in_native_callback(forms):
    """Class predicate of K08f (syntactic): the callback handed to a native higher-order built-in can raise."""
    for f in forms:
        for t in _subterms(f):
            if isinstance(t, list) and t[:1] == ["transduce"]:
                atoms = _atoms(t[1:])
                if any(ERR_ATOM.match(a) for a in atoms) or "a" in atoms:     # (+ 1 'a)
                    return True
    return False


def classify(real, spec, impls, known, text=None):
    """Attribute a disagreement real ≠ S to an open finding, or return None (⇒ VIOLATION).
    impls = [result of the faithful variant (`c08driver impl` / `impl-guarded`: parameters.scm + stdlib.scm
    transcribed into the object language, run on primitive continuations)]."""
    ev, iev = spec["ev"], impls[0]["ev"]
    # K08h: a continuation invoked by a later evaluation than the one that captured it resumes in freed memory
    # (undefined behaviour: any outcome).  `known` carries K08h only while vm.rs lacks the keep-alive (run()).
    if "K08h" in known and ev.get("cross-eval-invoke", 0) > 0:
        return "K08h"
    # K08c: mechanism below the CEK level (reference counts of marks): class predicate + the specific panic
    if "K08c" in known and real["res"][0] == "panic" and PANIC_OPEN in real["res"][1] and (
            ev.get("orphan-invoke", 0) > 0 or iev.get("orphan-invoke", 0) > 0):
        return "K08c"
    forms = None
    if text is not None:
        try:
            forms = parse_forms(text)
        except Exception:
            forms = None
    # K08e / K08d: the mechanism is below the CEK level (nested interpreter instances of native built-ins; the
    # frame stack of the VM): class predicate on the program (+ S handled an error, for K08d)
    if forms is not None and "K08f" in known and real["res"][0] == "err" and spec["res"][0] == "ok" and \
            ev.get("handled", 0) > 0 and error_in_native_callback(forms):
        return "K08f"
    if forms is not None and "K08e" in known and control_in_native_callback(forms):
        return "K08e"
    if forms is not None and "K08d" in known and ev.get("handled", 0) > 0 and uses_cweh(forms):
        return "K08d"
    # K08b / K08g: Scheme-level mechanisms (stdlib.scm reset/shift/with-handler, parameters.scm dynamic-wind):
    # class predicate from S's run AND the real engine behaves exactly like the faithful variant
    for im in impls:
        if same(real, im):
            if ev.get("mc-cross", 0) > 0 and "K08b" in known:
                return "K08b"
            if ev.get("raise-through-left-extent", 0) > 0 and "K08g" in known:
                return "K08g"
    return None


def load_corpus():
    progs = []
    # the witnesses of the open findings run first: an open finding that reproduces is reported by the run
    for path in sorted(glob.glob(os.path.join(C.VERIF, "findings", "C08-K08*.scm"))):
        text = "\n".join(l for l in strip_comments(open(path).read()).split("\n") if not l.startswith("; finding:"))
        progs += [(os.path.basename(path), p) for p in text.split(SEP) if p.strip()]
    cdir = os.path.join(C.VERIF, "corpus", PID)
    for fn in sorted(os.listdir(cdir)) if os.path.isdir(cdir) else []:
        if not fn.endswith(".scm"):
            continue
        text = strip_comments(open(os.path.join(cdir, fn)).read())
        progs += [(fn, p) for p in text.split(SEP) if p.strip()]
    return progs


def keeps_root(code):
    return bool(code.get("vm", {}).get("continuation_keeps_root"))


def run(ctx):
    known = load_known(ctx)
    # translate: the decisions of parameters.scm / vm.rs the Lean models are parameterised by
    rc, tout = C.sh([sys.executable, os.path.join(C.VERIF, "translate", "c08_code.py")], timeout=120)
    code = {}
    try:
        code = __import__("json").loads(tout.strip().splitlines()[-1])
    except Exception:
        pass
    if rc != 0 or not code:
        ctx.violation("C08-translator.txt", "translate/c08_code.py no longer extracts the winders comparison / the "
                      "mark-closing decisions from /repo (correspondence broken: translator):\n" + tout[-2000:], no_input=True)
    pr = C.prove(ctx, PID, ["c08driver"])
    ok, log = C.build_harness(ctx, ["c08"])
    if not ok or not os.path.exists(C.driver_path("c08driver")):
        ctx.violation("C08-build.txt", "harness or driver does not build:\n" + log + pr["log"][-2000:], no_input=True)
        ctx.coverage = {"obligations": pr["obligations"], "discharged": pr["discharged"],
                        "checker_cmd": "lake build SteelVerif.C08.Props", "trusted_base": C.TRUSTED_BASE}
        return ctx.finish()
    rng = random.Random(ctx.seed)
    corpus = load_corpus()
    n = 600 if ctx.quick() else 20000
    gen = [gen_program(rng, 3 if rng.random() < 0.7 else 4) for _ in range(n)]
    progs = [p for _, p in corpus] + [g[0] for g in gen]
    names = [fn for fn, _ in corpus] + ["gen-%d" % i for i in range(n)]
    feats = [{"corpus"}] * len(corpus) + [g[1] for g in gen]

    impl_mode = "impl-guarded" if code.get("scheme", {}).get("wind_handler_guarded") else "impl"
    spec = run_spec(progs)
    impl = run_spec(progs, impl_mode)
    ctx.log("S done: %d programs" % len(progs))
    # K08h: while continuations do not keep the instructions of their form alive, a cross-evaluation invocation is
    # undefined behaviour (and often a hang): such programs cannot be judged.  Only the witnesses of the finding
    # run (short timeout); the generated ones are counted as skipped.  With the keep-alive in vm.rs they all run
    # and K08h is no class any more.
    ub = not keeps_root(code)
    if not ub:
        known.pop("K08h", None)
    xe = [i for i, m in enumerate(spec) if m["ev"].get("cross-eval-invoke", 0) > 0]
    ub_skipped = set(i for i in xe if ub and not names[i].startswith("C08-K08h"))
    ub_short = set(i for i in xe if ub and names[i].startswith("C08-K08h"))
    stats = {"programs": len(progs), "configs": {}, "features": {}, "events": {}, "outcomes": {"ok": 0, "err": 0, "timeout": 0},
             "known_hits": {}, "disagreements_checked": 0, "samples": [], "agree": 0}
    for f in feats:
        for x in f:
            stats["features"][x] = stats["features"].get(x, 0) + 1
    judged = []
    for i, m in enumerate(spec):
        to = m["res"][0] == "err" and m["res"][1].startswith("timeout")
        stats["outcomes"]["timeout" if to else m["res"][0]] = stats["outcomes"].get("timeout" if to else m["res"][0], 0) + 1
        for k, v in m["ev"].items():
            if v:
                stats["events"][k] = stats["events"].get(k, 0) + 1
        if not to and i not in ub_skipped:
            judged.append(i)
    nviol = 0
    for cname, env in CONFIGS:
        idxs = judged
        if ctx.quick() and cname != "default":
            # quick tier: the other configurations on the corpus and on every second generated program
            idxs = [i for i in judged if i < len(corpus) or (i % 2 == (0 if cname == "nojit" else 1))]
        fresh = [i for i in idxs if i < len(corpus) and i not in ub_short]
        # the native-callback family (handlers inside callbacks of native built-ins): when the nested instance's
        # handler search is wrong such a program typically never terminates, so these run three to a process with
        # a short clock (a hang is then a `crash: timeout` result = a disagreement with S, and costs seconds)
        fam = [i for i in idxs if i >= len(corpus) and "tmpl-native-callback" in feats[i]]
        famset = set(fam)
        reused = [i for i in idxs if i >= len(corpus) and i not in famset]
        res = dict(zip(fresh, run_real([progs[i] for i in fresh], env=env)))
        # (undefined behaviour, often a hang: the witnesses run in the default configuration only, one process each)
        if cname != "default":
            idxs = [i for i in idxs if i not in ub_short]
        short = [i for i in idxs if i in ub_short]
        for i in short:
            res[i] = run_real([progs[i]], env=env, timeout=10)[0]
        res.update(zip(reused, run_real([progs[i] for i in reused], env=env, reuse=10)))
        res.update(zip(fam, run_real([progs[i] for i in fam], env=env, timeout=15, per_chunk=3)))
        # (a loaded machine must not turn into a report: what ran out of time runs again alone with a long clock)
        slow = [i for i in fam if res[i]["res"] == ("crash", "timeout")]
        res.update(zip(slow, run_real([progs[i] for i in slow], env=env, timeout=90, per_chunk=1)))
        # every disagreement seen on a shared engine is confirmed on a fresh one
        redo = [i for i in reused if not same(res[i], spec[i])]
        res.update(zip(redo, run_real([progs[i] for i in redo], env=env)))
        real = [res[i] for i in idxs]
        ctx.log("real[%s] done: %d programs (%d re-run on a fresh engine)" % (cname, len(idxs), len(redo)))
        cs = {"programs": len(idxs), "agree": 0, "known": 0, "violations": 0}
        for i, r in zip(idxs, real):
            m = spec[i]
            if same(r, m):
                cs["agree"] += 1
                if cname == "default" and len(stats["samples"]) < 2 and i >= len(corpus) and len(progs[i]) < 1200:
                    stats["samples"].append({"program": progs[i], "real": r["res"], "spec": m["res"], "events": m["ev"]})
                continue
            stats["disagreements_checked"] += 1
            kid = classify(r, m, [impl[i]], known, progs[i])
            if kid:
                cs["known"] += 1
                stats["known_hits"][kid] = stats["known_hits"].get(kid, 0) + 1
                ctx.known_finding(known[kid].split("finding: property=C08 ", 1)[-1])
                continue
            cs["violations"] += 1
            nviol += 1
            if nviol <= 12:
                ctx.violation("C08-%s-%s.scm" % (names[i].replace(".scm", ""), cname),
                              "# configuration: %s %s\n# real engine  : %s output=%r\n# specification: %s output=%r events=%s\n# faithful variant (impl): %s\n%s\n" % (
                                  cname, env, r["res"], r["out"][:300], m["res"], m["out"][:300], m["ev"], impl[i]["res"], progs[i]))
        stats["configs"][cname] = cs
        stats["agree"] += cs["agree"]

    if not pr["ok"] and not ctx.violations:
        ctx.violation("C08-proof-broken.txt", "proof obligations of SteelVerif.C08.Props that no longer check:\n" +
                      "\n".join("%s: %s" % f for f in pr["failed"]) + "\n", no_input=True)
    ctx.coverage = {
        "obligations": pr["obligations"], "discharged": pr["discharged"],
        "checker_cmd": "cd lean && lake build SteelVerif.C08.Props && lake env lean SteelVerif/C08/Audit.lean",
        "trusted_base": C.TRUSTED_BASE + ["C08/Spec.lean (CEK machine with R7RS winders, Steel's handler convention) as the reading of the property"],
        "histories": sum(1 for p in progs if "\n;;;---\n" in p), "programs_invoking_across_evaluations": len(xe),
        "skipped_undefined_behaviour_K08h": len(ub_skipped),
        "programs": stats["programs"], "evaluations": sum(c["programs"] for c in stats["configs"].values()),
        "distinct_nontrivial": len(set(progs)),
        "rule": "gen/cont08.py (seeded by VERIF_SEED): a sixth of the programs are HISTORIES (pieces `;;;---` = separate evaluations on one engine; forms that store a continuation and die with an uncaught error; later pieces invoke the stored continuations); 8% native-callback family (handlers / winds / failing handlers nested inside callbacks of transduce stages and reducers: the handler search of nested interpreter instances); random expression programs with captures/escapes/re-entries/winds/handlers/errors + templates (generator, coroutines, amb, with-lock, reset/shift, handler nesting); distinct = different program text; every program observes a trace of notes and the values of its top-level forms",
        "code_decisions": code, "configs": stats["configs"], "feature_counts": stats["features"], "programs_with_event": stats["events"],
        "spec_outcomes": stats["outcomes"], "disagreements_checked": stats["disagreements_checked"],
        "known_finding_hits": stats["known_hits"], "samples": stats["samples"], "axioms": pr.get("axioms", {}),
        "proof_failures": ["%s: %s" % f for f in pr["failed"]],
    }
    return ctx.finish("proof")


def replay(ctx, path):
    text = strip_comments(open(path).read())
    text = "\n".join(l for l in text.split("\n") if not l.startswith("; finding:"))
    progs = [p for p in text.split(SEP) if p.strip()]
    C.build_harness(ctx, ["c08"])
    spec = run_spec(progs)
    guarded = "(eq? (car (get-tls winders)) entry)" in open("/repo/crates/steel-core/src/scheme/modules/parameters.scm").read()
    impl = run_spec(progs, "impl-guarded" if guarded else "impl")
    known = load_known(ctx)
    if "self.thread.current_root = continuation.root" in open("/repo/crates/steel-core/src/steel_vm/vm.rs").read():
        known.pop("K08h", None)
    for cname, env in CONFIGS:
        real = run_real(progs, env=env, timeout=60)
        for p, r, m, im in zip(progs, real, spec, impl):
            print("--- [%s]" % cname)
            print(p)
            print("  real:", r["res"], repr(r["out"][:200]))
            print("  spec:", m["res"], repr(m["out"][:200]), m["ev"])
            print("  impl:", im["res"])
            print("  verdict:", "agree" if same(r, m) else (classify(r, m, [im], known, p) or "VIOLATION"))
    return 0
