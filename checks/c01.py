"""C01 — compiled execution agrees with the language's reference semantics.

prove      : lake build SteelVerif.C01.Props (+ audit): the code generator and the stack VM of the lowered
             core (locals by stack offset, let, if, begin, set!, primitives, calls incl. recursion) refine the
             reference semantics `evalIR`, for every program of that fragment.
correspond : (a) whole programs of the documented core language from a type-directed generator: the real
             engine (one fresh Engine per program) vs the reference semantics S (Base/Eval.lean, a CEK
             machine): script output, top-level values, error-or-success outcome;
             (b) fragment programs, emitted both as lowered IR and as Steel source: `evalIR` vs the model VM
             running the generated code vs the real engine;
             (c) real bytecode replay: the listing of every unit of these programs, read into `C01C.Instr`, run by
             `C01C.run`, vs the real VM (units outside the modelled set counted per reason);
             (d) programs inside the core language (gen/core01.py: source + lowered Core term): `compileTop e` vs the
             real listing (normalised), and the five-way run evalC / model compiler+VM / model VM on the real listing
             / real engine / S;
             (e) tail-only loop shapes: `C09.tailOnlyB` on the real listing (accepted => covered by
             `C09.core_loop_constant_space`);  translate: translate/c01_opcodes.py -> C01/GenOpcodes.lean (PropsTie.lean).
oracle     : S (and `evalIR` for the fragment).  A real≠S difference is a violation unless the program is in
             the class of an open finding.
"""
import json
import os
import random
import re
import sys

from . import common as C

sys.path.insert(0, C.VERIF)
from gen.progs import gen_program      # noqa: E402
from gen.frag import gen_frag_program  # noqa: E402
from gen.core01 import gen_core_program  # noqa: E402

PID = "C01"
META = {
    "ready": True,
    "category": "proof",
    "technique": "Lean 4 compiler-correctness theorems (code generator + stack VM with the real op codes refine the reference semantics of the lowered core with first-class closures) + a checked tie of that model to /repo: real bytecode replay on the model VM, compiler output comparison, five-way execution, op-code tables regenerated from the sources + differential execution of generated whole programs: real engine vs executable reference semantics",
    "level_text": "Proved for every program of the lowered core with closures (SteelVerif/C01/PropsCore.lean, model C01/Core.lean: real op codes, one shared operand stack, real frame discipline): compile_correct_core / compile_correct_program (the VM running compileTop e refines evalC), closure_captures_by_reference, call_args_exact_core, tail_call_constant_frames, dead_code_never_runs_core, call_error_reported and the others listed in Audit.lean; and for the first-order fragment (Props.lean: compile_correct, read_after_write, dead_branch_*, call_arity_exact, call_args_exact). TIE of the core model to /repo, checked on every run: (1) REAL BYTECODE REPLAY - for every program the harness prints the listing of every compilation unit the engine is about to run (Engine::debug_build_strings of a clone of the very RawProgramWithSymbols that is then run; provisional global slots of the clone mapped to the slots the engine really bound via the symbol table rows); C01BC.toInstr (BCParse.lean) reads it into List C01C.Instr by the table in Core.lean's header and C01C.run executes it; value / error kind of every unit must equal the real VM's. (2) COMPILER OUTPUT COMPARISON - gen/core01.py emits programs inside the core (closures over assigned variables, let, if, begin, set!, computed / global / self-tail calls, rest arguments, boxes) as Steel source AND as lowered Core terms (scope resolution by the generator, unverified); compileTop e is compared with the real listing after the documented normalisation (READLOCALk, function ids, constant-pool indices, global slot renaming); share identical + histogram of difference classes in the evidence (a difference is not a violation). (3) FIVE-WAY RUN on these programs: evalC, C01C.run (compileTop e), C01C.run on the real listing, the real engine, and S (Base/Eval on the source) must agree unit by unit; the differing pair is printed. (4) translate/c01_opcodes.py regenerates GenOpcodes.lean (enum OpCode, arms of the dispatch loop of vm.rs); PropsTie.lean decides: every op code the reader maps to Instr exists in the enum, every one the model executes has a dispatch arm, the four word-only op codes have none (and step yields bad on them), the reader accepts no other name. (1b) EXTENDED VM (C01/BCExt.lean, not proved) for whole programs: values = the values of S (Base.Val: symbols, strings, characters, pairs, vectors and boxes in S's store; closures as handles), built-ins applied by S's own primitive table Base.applyPrim (so a difference is about compiler+VM, not primitives), output buffer compared with the real output of every unit, apply, with-handler as the real expander emits it (*reset / call-with-exception-handler / *shift as marks on frames), the 47 core op codes + FUNCNOARITY / TAILCALLNOARITY / CALLGLOBALNOARITY / CALLGLOBALTAILNOARITY; S's library procedures (Base.preludeSrc: map, filter, foldl, foldr, for-each, reduce) are handed to the real compiler as the first unit of the replayed program; every corpus + gen/progs program is replayed (values, error kind, output per unit), also with the ENGINE's own Scheme definitions of map / foldl / foldr / filter (text of scheme/stdlib.scm compiled as the first unit: whole_engine_library) and in MODULE mode (the program as a required file, as `steel file.scm` runs it: mangled names, imports through %proto-hash-get%, CALLPRIMITIVE, the NOARITY call forms, SELFTAILCALLNOARITY and the specialised op codes ADD SUB MUL LTE LT GT GTE NUMEQUAL NOT CAR CDR CONS LIST NULL VECTORREF EQUAL2, each executed as the call of the built-in named in its text column through S's primitive table); the tie of the extended VM to the proved one is differential: on every listing inside the core set both run and must agree. (5) C09.tailOnlyB (proved-sound static check) is evaluated on the real listings of tail-only loop shapes: accepted listings are covered by C09.core_loop_constant_space. Whole programs of the documented core language (gen/progs.py: closures, mutation, internal defines, named let, rest arguments, library procedures, handled and dead errors, output) run on the real engine (top level and as a module) and on S as before; fragment programs on evalIR / model VM / real.",
    "level_note": "Trusted: Lean kernel, harness/driver/comparison, the reference evaluator S as the reading of Scheme semantics (deviation table in Base/Eval.lean), generator coverage, the listing reader C01BC.toInstr and the slot remapping (inspectable, not proved), the generator's lowering source -> Core (independent scope resolution; validated only by the listing comparison and the five-way run). Share replayed: all units of the core-generator programs and of the tail-only shapes on the proved core VM; ALL corpus + gen/progs whole programs on the extended VM when S's library procedures are compiled with the program (tie_core_model_to_repo.whole_programs_replayed_on_extended_vm), about 40% of the unmodified programs (the rest call the engine's own map / filter / foldl: whole_native_library); with the engine's own stdlib.scm definitions of map / foldl / foldr / filter compiled as first unit nearly all (for-each rests on the native #%for-each: counted); the closure objects the engine itself holds are not dumped (ByteCodeLambda.body_exp is pub(crate): would need a hook). K01d, K01e, K01f, K01g, K01m are repaired in /repo: no attribution remains, a recurrence is a violation; K01l remains open for an assignment from a later unit only. The extended VM is executable Lean without theorems; call/cc, dynamic-wind, continuations used other than by with-handler, floats, hash maps, the deprecated ALLOC/READALLOC/SETALLOC op codes (their real handlers panic: K01m) are outside and reported per reason. Deviation found in S: steel's `void` is the void VALUE, `(void)` applies a non-procedure; Base/Eval.lean accepts `(void)` (the replay prelude writes `void`). Not modelled: analysis.rs / the rewriting passes (inlining, lambda lifting, constant propagation show up as listing difference classes), ~55 specialised op codes that did not occur, the JIT (differential run only; differences that vanish with STEEL_JIT=false are K01j). compile_correct_core_errors and the statement for all error kinds: see PropsCore.lean.",
}

SEP = "\n;;;===\n"


def parse_records(text):
    recs, cur = [], None
    for line in text.split("\n"):
        if line.startswith("\x1eB"):
            cur = {"out": [], "res": None}
            recs.append(cur)
        elif cur is None:
            continue
        elif line.startswith("\x1eV"):
            cur["res"] = ("ok", [v for v in line[3:].split("\x1f") if v and v != "#<void>"])
        elif line.startswith("\x1eE"):
            cur["res"] = ("err", line[3:])
        elif line.startswith("\x1eP"):
            cur["res"] = ("panic", line[3:])
        else:
            cur["out"].append(line)
    for r in recs:
        r["out"] = "\n".join(r["out"]).strip("\n")
    return recs


def run_real(progs, env=None, timeout=300, args=()):
    """Run programs on the real engine in 16 parallel child processes; a child that dies (abort, stack
    overflow) loses only the program it was running: the rest of its chunk is re-run."""
    n = len(progs)
    results = [None] * n

    def run_chunk(idxs):
        todo = list(idxs)
        while todo:
            text = SEP.join(progs[i] for i in todo) + "\n"
            rc, out, err = C.run_bin([C.bin_path("c01")] + list(args), text, timeout=timeout, env=env)
            recs = parse_records(out)
            for k, i in enumerate(todo):
                if k < len(recs) and recs[k]["res"] is not None:
                    results[i] = recs[k]
                else:
                    break
            else:
                return
            # program todo[k] killed the child
            i = todo[k]
            why = "timeout" if rc == 124 else "exit %d: %s" % (rc, (err or "").strip().splitlines()[-1:] or "")
            results[i] = {"out": recs[k]["out"] if k < len(recs) else "", "res": ("crash", why)}
            todo = todo[k + 1:]

    # at most 100 programs (= engines) per child process: an engine never returns its JIT code mappings (open finding
    # K07ah), and a process that has created a few hundred engines runs into vm.max_map_count and aborts
    per = max(1, min(100, (n + C.NCPU - 1) // C.NCPU))
    chunks = [list(range(i, min(i + per, n))) for i in range(0, n, per)]
    C.pool_map(run_chunk, [c for c in chunks if c])
    return results


def split_forms(src):
    """Top-level forms of a program text (paren balanced; strings, character literals and comments respected)."""
    forms, cur, depth, i, n = [], [], 0, 0, len(src)
    while i < n:
        c = src[i]
        if c == ";" :
            while i < n and src[i] != "\n":
                i += 1
            continue
        if c == '"':
            j = i + 1
            while j < n and src[j] != '"':
                j += 2 if src[j] == "\\" else 1
            cur.append(src[i:j + 1])
            i = j + 1
            if depth == 0:
                forms.append("".join(cur).strip()); cur = []
            continue
        if c == "#" and i + 1 < n and src[i + 1] == "\\":
            j = i + 3
            while j < n and (src[j].isalnum()):
                j += 1
            cur.append(src[i:j]); i = j
            if depth == 0:
                forms.append("".join(cur).strip()); cur = []
            continue
        if c in "([":
            depth += 1
        elif c in ")]":
            depth -= 1
        if depth == 0 and c.isspace():
            if "".join(cur).strip():
                tok = "".join(cur).strip()
                if tok not in ("'", "`", ",", ",@"):
                    forms.append(tok); cur = []
                    i += 1
                    continue
            i += 1
            continue
        cur.append(c)
        i += 1
        if depth == 0 and c in ")]":
            forms.append("".join(cur).strip()); cur = []
    if "".join(cur).strip():
        forms.append("".join(cur).strip())
    return [f for f in forms if f]


def observe_all(src):
    """The same program with every top-level expression printed: what a file run as a module can show."""
    out = []
    for f in split_forms(src):
        if re.match(r"[(\[]\s*(define|define-values|struct|define-syntax|require|provide|set!)(?=[\s()\[\]])", f):
            out.append(f)
        else:
            out.append("(displayln %s)" % f)
    return "\n".join(out)


def run_spec(progs):
    text = SEP.join(progs) + "\n"
    rc, out, err = C.run_bin([C.driver_path("c01driver")], text, timeout=900)
    return parse_records(out), rc


def same(r, m):
    if r["res"][0] != m["res"][0]:
        return False
    if r["out"] != m["out"]:
        return False
    return r["res"][0] != "ok" or r["res"][1] == m["res"][1]


def jit_only(prog, spec_rec, module):
    """real != S with the JIT: does the interpreter alone (STEEL_JIT=false) agree with S?  Then the difference belongs to
    the native tier (property C02 decides those; its open findings K02g/i/m/n are JIT-only miscompilations)."""
    r = run_real([prog], env={"STEEL_JIT": "false"}, args=(["--module"] if module else []))[0]
    if module:
        return r["res"][0] == spec_rec["res"][0] and r["out"].strip() == spec_rec["out"].strip()
    return same(r, spec_rec)


# ---------------------------------------------------------------------------------------------------------------
# The tie of the core model (C01/Core.lean) to /repo: real bytecode replay, compiler output comparison, five-way run

USEP = "\n;;;---\n"
# = C01BC.modelledOpNames (lean/SteelVerif/C01/BCParse.lean); only used to label the evidence
MODELLED_OPS = set("""PUSHCONST LOADINT0 LOADINT1 LOADINT2 TRUE FALSE VOID PUSH READLOCAL READLOCAL0 READLOCAL1 READLOCAL2
READLOCAL3 MOVEREADLOCAL MOVEREADLOCAL0 MOVEREADLOCAL1 MOVEREADLOCAL2 MOVEREADLOCAL3 READCAPTURED SETLOCAL IF JMP POPJMP
NEWSCLOSURE PUREFUNC PASS NDEFS COPYCAPTURESTACK COPYCAPTURECLOSURE ECLOSURE NEWBOX UNBOX SETBOX FUNC TAILCALL TCOJMP
CALLGLOBAL CALLGLOBALTAIL POPPURE POPSINGLE BEGINSCOPE LetVar LETENDSCOPE SDEF EDEF BIND SET""".split())
ALL_LABELS = ("whole", "whole_native_library", "whole_engine_library", "module", "core", "tailonly")
# C01BC.xOps beyond the core + C01BC.specialisedOps (any op code whose text column is #%prim.NAME is accepted)
EXT_OPS = {"FUNCNOARITY", "TAILCALLNOARITY", "CALLGLOBALNOARITY", "CALLGLOBALTAILNOARITY"} | set(
    "ADD SUB MUL LTE LT GT GTE NUMEQUAL NOT CAR CDR CONS LIST NULL VECTORREF EQUAL2 CALLPRIMITIVE SELFTAILCALLNOARITY".split())
ERRMAP = {"ArityMismatch": "arity", "TypeMismatch": "type", "FreeIdentifier": "free"}


def s_prelude():
    """The library procedures S defines in the object language (Base/Eval.lean `preludeSrc`), verbatim."""
    t = open(os.path.join(C.LEAN, "SteelVerif", "Base", "Eval.lean")).read()
    m = re.search(r'def preludeSrc : String :=\s*"(.*?)"\s*\n\s*\n', t, re.S)
    # steel's `void` is the void value itself: `(void)` would apply a non-procedure
    return m.group(1).replace('\\"', '"').replace("(void)", "void") if m else None


def engine_library_source(names=("map", "foldl", "foldr", "filter")):
    """The ENGINE's own definitions of library procedures that are written in Scheme
    (/repo/crates/steel-core/src/scheme/stdlib.scm), verbatim, found by bracket matching.  (for-each, reduce, … rest on
    native helpers: they stay the engine's.)"""
    t = open(os.path.join(C.REPO, "crates/steel-core/src/scheme/stdlib.scm")).read()
    out = []
    for nm in names:
        k = t.find("\n(define (%s " % nm)
        if k < 0:
            return None
        i, depth = k + 1, 0
        j = i
        while j < len(t):
            ch = t[j]
            if ch == ";":
                while j < len(t) and t[j] != "\n":
                    j += 1
                continue
            if ch == '"':
                j += 1
                while j < len(t) and t[j] != '"':
                    j += 2 if t[j] == "\\" else 1
            elif ch in "([":
                depth += 1
            elif ch in ")]":
                depth -= 1
                if depth == 0:
                    break
            j += 1
        out.append(t[i:j + 1])
    return "\n".join(out)


STRICT_KINDS = {"arity", "type", "notproc", "free"}


def agree(a, b):
    """Two outcomes agree: equal values, or both errors of the same kind (a kind outside arity / type / notproc /
    free is only compared as `error`)."""
    if a[0] != b[0]:
        return False
    if a[0] == "err":
        return a[1] == b[1] or a[1] not in STRICT_KINDS or b[1] not in STRICT_KINDS
    return a[1] == b[1]


def canon_val(v):
    v = v.strip()
    if v.startswith("'#&") or v.startswith("#<box"):
        return "#<box>"                   # a box that leaked as a value (K01d / K01f): Display shows its contents
    if v.startswith("#<") and v != "#<void>":
        return "#<procedure>"
    return v


def canon_real(kind, rest):
    """Outcome of the real engine in the vocabulary of the model VM."""
    if kind == "ok":
        return ("ok", [canon_val(v) for v in rest.split("\x1f") if v not in ("", "#<void>")])
    if kind == "err":
        k = rest.split(" | ")[0].strip()
        if k == "BadSyntax" and "not a procedure" in rest:
            return ("err", "notproc")
        return ("err", ERRMAP.get(k, k))
    return (kind, rest)


def canon_model(text):
    text = text.strip()
    if text.startswith("ok"):
        return ("ok", [canon_val(v) for v in text[3:].split("\x1f") if v not in ("", "#<void>")])
    if text.startswith("err "):
        return ("err", text[4:].strip())
    if text.startswith("timeout"):
        return ("timeout", "")
    return ("-", text[1:].strip())


def parse_bc_real(chunk):
    """One program of `c01 --bc` output -> dict(units=[dict(listing=[lines], res=(kind, rest), compiled=bool)], final)."""
    units, cur, final, mode = [], None, None, None
    for line in chunk.split("\n"):
        if line.startswith("\x1eU"):
            cur = {"listing": [], "res": None, "out": []}
            units.append(cur)
            mode = "L"
        elif line.startswith("\x1eX"):
            mode = "O"
        elif line.startswith("\x1eG"):
            mode = None
        elif line.startswith("\x1eR") and cur is not None:
            parts = line[3:].split(" ", 1)
            cur["res"] = (parts[0], parts[1] if len(parts) > 1 else "")
        elif line.startswith("\x1eV"):
            final = ("ok", line[3:])
        elif line.startswith("\x1eE"):
            final = ("err", line[3:])
        elif line.startswith("\x1eP"):
            final = ("panic", line[3:])
        elif line.startswith("\x1eK"):
            pass
        elif cur is not None and mode == "L":
            cur["listing"].append(line)
        elif cur is not None and mode == "O":
            cur["out"].append(line)
    return {"units": units, "final": final}


def run_real_bc(progs, env=None, timeout=300):
    """`c01 --bc` on programs (text with ;;;--- between units); returns the raw output chunk per program (None = the
    child died in this program)."""
    n = len(progs)
    results = [None] * n

    def run_chunk(idxs):
        todo = list(idxs)
        while todo:
            text = SEP.join(progs[i] for i in todo) + "\n"
            rc, out, err = C.run_bin([C.bin_path("c01"), "--bc"], text, timeout=timeout, env=env)
            chunks = out.split("\x1eB\n")[1:]
            k = 0
            for k, i in enumerate(todo):
                if k < len(chunks) and re.search(r"^\x1e[VEP]", chunks[k], re.M):
                    results[i] = chunks[k]
                else:
                    break
            else:
                return
            results[todo[k]] = None
            todo = todo[k + 1:]

    per = max(1, min(100, (n + C.NCPU - 1) // C.NCPU))
    chunks = [list(range(i, min(i + per, n))) for i in range(0, n, per)]
    C.pool_map(run_chunk, [c for c in chunks if c])
    return results


def run_model_bc(real_chunks, cores=None, timeout=900):
    """`c01driver bc` on the harness output (with the generator's Core terms inserted); per program a list of units,
    each a dict tag -> text (L, RV, XV, SE, MV, CMP, OPS)."""
    n = len(real_chunks)
    results = [None] * n

    def feed(i):
        ch = real_chunks[i]
        if ch is None:
            return "\x1eB\n"
        if cores is None or cores[i] is None:
            return "\x1eB\n" + ch
        out, u = [], 0
        for line in ch.split("\n"):
            out.append(line)
            if line.startswith("\x1eU"):
                if u < len(cores[i]):
                    out += ["\x1eC " + c for c in cores[i][u]]
                u += 1
        return "\x1eB\n" + "\n".join(out)

    def run_chunk(idxs):
        text = "\n".join(feed(i) for i in idxs) + "\n"
        rc, out, err = C.run_bin([C.driver_path("c01driver"), "bc"], text, timeout=timeout)
        chunks = out.split("\x1eB\n")[1:]
        for k, i in enumerate(idxs):
            if k >= len(chunks):
                break
            units = []
            for u in chunks[k].split("\x1eU\n")[1:]:
                d = {}
                for line in u.split("\n"):
                    tag, _, rest = line.partition(" ")
                    if tag:
                        d[tag] = rest
                units.append(d)
            results[i] = units

    per = max(1, (n + C.NCPU - 1) // C.NCPU)
    C.pool_map(run_chunk, [list(range(i, min(i + per, n))) for i in range(0, n, per)])
    return results


def tail_only_family(rng):
    """Source programs of the core language in which every call of a non-primitive inside a procedure body is in tail
    position (loop shapes of C09 without the probe).  (name, program text)."""
    n = rng.randint(20, 60)
    k1, k2 = rng.randint(1, 3), rng.randint(0, 5)
    out = []
    out.append(("self", "(define (loop i acc) (if (= i 0) acc (loop (- i %d) (+ acc %d))))%s(loop %d 0)" % (1, k2, USEP, n)))
    for k in (2, 3, 5):
        fs = "\n".join("(define (f%d i acc) (if (<= i 0) acc (f%d (- i %d) (+ acc %d))))" % (j, (j + 1) % k, k1, j + k2)
                       for j in range(k))
        out.append(("mutual%d" % k, fs + USEP + "(f0 %d 0)" % n))
    out.append(("param", "(define (loop f i acc) (if (= i 0) acc (f f (- i 1) (+ acc %d))))%s(loop loop %d 0)" % (k2, USEP, n)))
    out.append(("rest", "(define (loop i . rest) (if (<= i 0) rest (loop (- i 1) (+ i %d) i)))%s(loop %d)" % (k2, USEP, n)))
    out.append(("let-temps", "(define (loop i acc) (if (= i 0) acc (let ((j (- i 1)) (a (+ acc %d))) "
                             "(let ((b (+ a 0)) (c (+ j 0))) (loop c b)))))%s(loop %d 0)" % (k2, USEP, n)))
    out.append(("captured", "(define (make c) (lambda (self i) (if (= i 0) c (begin (set! c (+ c %d)) (self self (- i 1))))))"
                            "%s(define lp (make 0))%s(lp lp %d)" % (k2, USEP, USEP, n)))
    out.append(("begin-tail", "(define (loop i acc) (if (= i 0) acc (begin (+ i 1) (loop (- i 1) (+ acc %d)))))%s(loop %d 0)"
                % (k2, USEP, n)))
    out.append(("computed-callee", "(define (loop f g i) (if (<= i 0) %d ((if (< i 7) f g) g f (- i 1))))%s(loop loop loop %d)"
                % (k2, USEP, n)))
    out.append(("local-closure", "(define (loop i acc) (if (= i 0) acc (let ((k (lambda (a b) (loop a b)))) (k (- i 1) (+ acc %d)))))"
                                 "%s(loop %d 0)" % (k2, USEP, n)))
    out.append(("set-local", "(define (loop i acc) (if (= i 0) acc (begin (set! acc (+ acc %d)) (loop (- i 1) acc))))%s(loop %d 0)"
                % (k2, USEP, n)))
    return out


def bump(d, k, n=1):
    d[k] = d.get(k, 0) + n


def bc_replay(ctx, stats, label, progs, cores=None, spec=None, feats=None, known=None, env=None):
    """Real bytecode replay (and, with `cores`, the compiler output comparison and the five-way run)."""
    st = stats.setdefault(label, {"programs": 0, "units": 0, "units_core_modelled": 0, "units_ext_modelled": 0,
                                  "programs_fully_core_modelled": 0, "programs_fully_ext_modelled": 0,
                                  "units_replayed_vs_real": 0, "model_timeouts": 0, "compile_error_units": 0,
                                  "crashed": 0, "unmodelled_reasons": {}, "ext_unmodelled_reasons": {},
                                  "opcodes_seen": {},
                                  "listing_identical": 0, "listing_compared": 0, "listing_diff_classes": {},
                                  "five_way_units": 0, "five_way_programs_all_agree": 0,
                                  "tail_only_check": {"programs_real_listing_accepted": 0,
                                                      "programs_model_code_accepted": 0,
                                                      "model_accepted_real_rejected": 0}})
    st["tail_only_rejected"] = st.get("tail_only_rejected", [])
    known = known or {}
    real = run_real_bc(progs, env=env)
    model = run_model_bc(real, cores)
    for i, (p, rch, m) in enumerate(zip(progs, real, model)):
        st["programs"] += 1
        if rch is None or m is None:
            st["crashed"] += 1
            continue
        r = parse_bc_real(rch)
        full_core, full_ext, all_agree = True, True, cores is not None
        se_vals = []
        to_real = all(mu.get("TO", "").startswith("real=accept") for mu in m) and len(m) == len(r["units"]) and m
        to_model = all(mu.get("TO", "").endswith("model=accept") for mu in m) and m
        if to_real:
            st["tail_only_check"]["programs_real_listing_accepted"] += 1
        if to_model:
            st["tail_only_check"]["programs_model_code_accepted"] += 1
        if (to_model or label == "tailonly") and not to_real and all(
                not mu.get("TO", "real=-").startswith("real=-") for mu in m):
            st["tail_only_check"]["model_accepted_real_rejected"] += 1
            st["tail_only_rejected"].append(i)
        for ui, (ru, mu) in enumerate(zip(r["units"], m)):
            st["units"] += 1
            for kv in mu.get("OPS", "").split(","):
                if "=" in kv:
                    bump(st["opcodes_seen"], kv.split("=")[0], int(kv.split("=")[1]))
            if ru["res"] is None:
                full_core = full_ext = all_agree = False
                continue
            rres = canon_real(*ru["res"])
            if rres[0] == "panic":
                # the host panicked while running this unit: never acceptable (also C07)
                full_core = full_ext = all_agree = False
                stats["disagreements_checked"] += 1
                ctx.violation("C01-%s-panic-%d.txt" % (label, i),
                              "# %s: the real engine PANICS in unit %d: %s\n# program (units separated by ;;;---)\n%s\n"
                              "# real listing of the unit\n%s\n" % (label, ui, rres[1], p, "\n".join(ru["listing"])))
                break
            if not [l for l in ru["listing"] if l.strip()] and rres[0] == "err":
                st["compile_error_units"] += 1      # rejected by the compiler: nothing was executed
                full_core = full_ext = False
                continue
            lst = mu.get("L", "")
            outcomes = {"real": rres}
            if lst.startswith("ok"):
                st["units_core_modelled"] += 1
                outcomes["RV"] = canon_model(mu.get("RV", "-"))
            else:
                full_core = False
                for reason in lst.split(" ", 1)[-1].split(","):
                    if lst.startswith("unmodelled"):
                        bump(st["unmodelled_reasons"], reason)
            xv = mu.get("XV", "-")
            if xv.startswith(("ok", "err", "timeout")):
                st["units_ext_modelled"] += 1
                outcomes["XV"] = canon_model(xv)
            else:
                full_ext = False
                for reason in xv[1:].strip().split(","):
                    if reason and reason != "skipped":
                        bump(st["ext_unmodelled_reasons"], reason)
            if cores is not None:
                for tag in ("SE", "MV"):
                    if tag in mu:
                        outcomes[tag] = canon_model(mu[tag])
                cmp_ = mu.get("CMP", "-")
                if cmp_ != "-":
                    st["listing_compared"] += 1
                    if cmp_.startswith("identical"):
                        st["listing_identical"] += 1
                    else:
                        bump(st["listing_diff_classes"], cmp_.replace("diff ", ""))
            if any(o[0] == "timeout" for o in outcomes.values()):
                st["model_timeouts"] += 1
                all_agree = False
                break
            ran = {k: o for k, o in outcomes.items() if o[0] in ("ok", "err")}
            if len(ran) > 1:
                st["units_replayed_vs_real"] += 1
            if cores is not None and all(k in ran for k in ("real", "RV", "SE", "MV")):
                st["five_way_units"] += 1
            else:
                all_agree = False
            names = sorted(ran)
            if ran.get("SE", ("", ""))[0] == "ok":
                se_vals += [v for v in ran["SE"][1] if v != "#<procedure>"]
            differ = [(a, b) for ai, a in enumerate(names) for b in names[ai + 1:] if not agree(ran[a], ran[b])]
            if "XV" in ran and "real" in ran and not differ:
                # the output the unit wrote: extended VM vs real engine
                xo = mu.get("XO", "").replace("\\n", "\n").replace("\\\\", "\\").strip()
                ro = "\n".join(ru["out"]).strip()
                if xo != ro:
                    differ = [("XV-output", "real-output")]
                    ran = dict(ran, **{"XV-output": ("out", xo[:300]), "real-output": ("out", ro[:300])})
                    names = sorted(ran)
            if differ:
                all_agree = False
                stats["disagreements_checked"] += 1
                text = ("# %s: outcomes of unit %d differ: %s\n%s\n# program (units separated by ;;;---)\n%s\n"
                        "# real listing of the unit\n%s\n" % (
                            label, ui, ", ".join("%s!=%s" % d for d in differ),
                            "\n".join("#   %-4s %s" % (k, ran[k]) for k in names), p, "\n".join(ru["listing"])))
                if cores is not None:
                    text += "# Core terms of the unit\n" + "\n".join(cores[i][ui]) + "\n"
                # a difference that disappears without the native tier belongs to K01j (C02 decides those)
                involves_real = any("real" in d for d in differ)
                model_sides = [ran[k] for k in names if k != "real"]
                if involves_real and all(x == model_sides[0] for x in model_sides) and "K01j" in known:
                    r2 = run_real_bc([p], env={"STEEL_JIT": "false"})[0]
                    if r2 is not None:
                        u2 = parse_bc_real(r2)["units"]
                        if ui < len(u2) and u2[ui]["res"] and canon_real(*u2[ui]["res"]) == model_sides[0]:
                            ctx.known_finding("id=K01j " + known["K01j"])
                            bump(stats["known_hits"], "K01j")
                            break
                # (K01d, K01f, K01g, K01m are fixed in /repo: a recurrence is a violation)
                ctx.violation("C01-%s-%d.txt" % (label, i), text)
                break
            if rres[0] != "ok":
                break
        else:
            pass
        if full_core and r["units"]:
            st["programs_fully_core_modelled"] += 1
        if full_ext and r["units"]:
            st["programs_fully_ext_modelled"] += 1
        if all_agree and spec is not None and spec[i] is not None:
            # fifth party: the reference evaluator S on the source
            fin = r["final"]
            if fin is not None and fin[0] == "ok":
                rv = [canon_val(v) for v in fin[1].split("\x1f") if v and v != "#<void>"]
                sv = [canon_val(v) for v in spec[i]["res"][1]] if spec[i]["res"][0] == "ok" else None
                if sv is not None and sv != rv:
                    all_agree = False
                    stats["disagreements_checked"] += 1
                    ctx.violation("C01-%s-S-%d.txt" % (label, i),
                                  "# %s: evalC = model VM = real VM, but the reference evaluator S differs\n%s\n"
                                  "# real/model: %s\n# S: %s\n" % (label, p, rv, sv))
            elif fin is not None and fin[0] == "err" and spec[i]["res"][0] == "ok":
                all_agree = False
                stats["disagreements_checked"] += 1
                ctx.violation("C01-%s-S-%d.txt" % (label, i),
                              "# %s: real and model raise, the reference evaluator S does not\n%s\n# real: %s\n# S: %s\n"
                              % (label, p, fin, spec[i]["res"]))
        if all_agree:
            st["five_way_programs_all_agree"] += 1
        if len(ctx.violations) >= 8:
            break
    return st


def run(ctx):
    stats = {"programs": 0, "disagreements_checked": 0, "seen": set(), "features": {}, "samples": [],
             "frag": 0, "frag_model_mismatch": 0, "known_hits": {}, "outcomes": {"ok": 0, "err": 0}}
    known = {k["id"]: k["text"].split(" ", 5)[-1] for k in ctx.load_known() if "id" in k}
    # translate: the op-code tables of the tie are regenerated from /repo
    trc, tout = C.sh(["python3", os.path.join(C.VERIF, "translate", "c01_opcodes.py")], timeout=120)
    try:
        tinfo = json.loads(tout.strip().splitlines()[-1])
    except Exception:
        tinfo = {"error": tout[-500:]}
    pr = C.prove(ctx, "C01", ["c01driver"])
    ok, log = C.build_harness(ctx, ["c01"])
    if not ok or not os.path.exists(C.driver_path("c01driver")):
        ctx.violation("C01-build.txt", "harness or driver does not build:\n" + log + pr["log"][-2000:], no_input=True)
        ctx.coverage = {"obligations": pr["obligations"], "discharged": pr["discharged"],
                        "checker_cmd": "lake build SteelVerif.C01.Props", "trusted_base": C.TRUSTED_BASE}
        return ctx.finish()
    rng = random.Random(ctx.seed)
    if trc != 0 or "error" in tinfo:
        ctx.violation("C01-translator.txt", "translate/c01_opcodes.py no longer parses the sources:\n" + tout[-2000:],
                      no_input=True)

    # (a) corpus + whole programs
    corpus = []
    cdir = os.path.join(C.VERIF, "corpus", "C01")
    probe_of = {}                         # program text -> id of the open finding it is the witness of
    for fn in sorted(os.listdir(cdir)) if os.path.isdir(cdir) else []:
        raw = open(os.path.join(cdir, fn)).read()
        m = re.search(r"^# finding: (\S+)", raw, re.M)
        text = "\n".join(l for l in raw.split("\n") if not l.startswith("#"))
        ps = [p for p in text.split(SEP) if p.strip()]
        corpus += ps
        if m:
            for p in ps:
                probe_of[p] = m.group(1)
    n = 320 if ctx.quick() else 4000
    size = 3 if ctx.quick() else 4
    gen = [gen_program(rng, size) for _ in range(n)]
    progs = corpus + [g[0] for g in gen]
    feats = [set()] * len(corpus) + [g[1] for g in gen]
    real = run_real(progs)
    spec, rc = run_spec(progs)
    if rc != 0 or len(spec) != len(progs):
        ctx.violation("C01-driver.txt", "reference evaluator failed (rc=%d, %d of %d programs)" % (rc, len(spec), len(progs)),
                      no_input=True)
        spec = spec + [{"out": "", "res": ("err", "missing")}] * (len(progs) - len(spec))
    for i, (p, r, m, f) in enumerate(zip(progs, real, spec, feats)):
        stats["programs"] += 1
        stats["seen"].add(p)
        for x in f:
            stats["features"][x] = stats["features"].get(x, 0) + 1
        if m["res"][0] in stats["outcomes"]:
            stats["outcomes"][m["res"][0]] += 1
        if len(stats["samples"]) < 2 and i >= len(corpus) and len(p) < 900:
            stats["samples"].append({"program": p, "real": r["res"], "spec": m["res"], "output": r["out"][:200]})
        if m["res"][0] == "err" and m["res"][1].startswith("timeout"):
            continue                      # the generator produced a program S cannot finish: not a verdict
        if same(r, m):
            continue
        stats["disagreements_checked"] += 1
        if "K01j" in known and jit_only(p, m, False):
            ctx.known_finding("id=K01j " + known["K01j"])
            stats["known_hits"]["K01j"] = stats["known_hits"].get("K01j", 0) + 1
            continue
        if probe_of.get(p) in known:
            # the witness program of an open finding (corpus file with a `# finding:` header) still fails
            ctx.known_finding("id=%s %s" % (probe_of[p], known[probe_of[p]]))
            stats["known_hits"][probe_of[p]] = stats["known_hits"].get(probe_of[p], 0) + 1
            continue
        ctx.violation("C01-prog-%d.txt" % i, "# program\n%s\n# real engine : %s output=%r\n# specification: %s output=%r\n" % (
            p, r["res"], r["out"][:300], m["res"], m["out"][:300]))
        if len(ctx.violations) >= 5:
            break

    # (a') the same programs the way `steel file.scm` runs them: as a required module (module-level procedures take
    # other compiler / JIT paths); every top-level expression is printed, output and outcome are compared with S
    nmod = len(progs) if not ctx.quick() else min(len(progs), len(corpus) + 160)
    mprogs = [observe_all(p) for p in progs[:nmod]]
    mreal = run_real(mprogs, args=["--module"])
    mspec, mrc = run_spec(mprogs)
    stats["module_programs"] = 0
    for i, (p, r, m) in enumerate(zip(mprogs, mreal, mspec + [None] * (len(mprogs) - len(mspec)))):
        if m is None or (m["res"][0] == "err" and m["res"][1].startswith("timeout")):
            continue
        stats["module_programs"] += 1
        if r["res"][0] == m["res"][0] and r["out"].strip() == m["out"].strip():
            continue
        stats["disagreements_checked"] += 1
        if probe_of.get(progs[i]) in known:
            continue                       # already reported above as the witness of an open finding
        if "K01j" in known and jit_only(p, m, True):
            ctx.known_finding("id=K01j " + known["K01j"])
            stats["known_hits"]["K01j"] = stats["known_hits"].get("K01j", 0) + 1
            continue
        ctx.violation("C01-module-%d.txt" % i, "# program evaluated as a module: (require \"<file>\") with this text\n%s\n# real engine : %s output=%r\n# specification: %s output=%r\n" % (
            p, r["res"][0], r["out"][:300], m["res"][0], m["out"][:300]))
        if len(ctx.violations) >= 8:
            break

    # (b) fragment: evalIR vs model VM vs real
    nf = 480 if ctx.quick() else 5000
    frags = [gen_frag_program(rng, 3) for _ in range(nf)]
    rcode, mout, _ = C.run_bin([C.driver_path("c01driver"), "frag"], "\n".join(f[0] for f in frags) + "\n", timeout=900)
    mlines = mout.splitlines()
    freal = run_real([f[1] for f in frags])
    for i, (f, ml, r) in enumerate(zip(frags, mlines, freal)):
        stats["frag"] += 1
        m = re.match(r"ref=(\S+) vm=(\S+)", ml)
        ref, vm = (m.group(1), m.group(2)) if m else ("?", "?")
        if ref != vm:
            stats["frag_model_mismatch"] += 1
            ctx.violation("C01-frag-model-%d.txt" % i, "model VM and reference semantics of the lowered core disagree "
                          "(compile_correct would be false):\n%s\nref=%s vm=%s\n" % (f[0], ref, vm), no_input=True)
            continue
        if ref == "none":
            continue
        real_v = r["res"][1][-1] if r["res"][0] == "ok" and r["res"][1] else r["res"][0]
        if real_v == ref:
            continue
        stats["disagreements_checked"] += 1
        sig = str(r["res"])
        ctx.violation("C01-frag-%d.txt" % i, "# fragment program (lowered IR)\n%s\n# steel source\n%s\n# real engine: %s\n# evalIR = model VM = %s\n" % (
            f[0], f[1], r["res"], ref))
        if len(ctx.violations) >= 8:
            break

    # (c) REAL BYTECODE REPLAY of the whole programs: the listing of every top-level unit (what the real VM is about to
    # execute) read into `List C01C.Instr` and run by `C01C.run`; outside the modelled set: counted per reason
    tie = {}
    rng2 = random.Random(ctx.seed + 101)
    nwhole = len(corpus) + (100 if ctx.quick() else 1500)
    ctx.log("differential and fragment stages done; real bytecode replay of %d whole programs" % nwhole)
    if len(ctx.violations) < 8:
        # the library procedures S defines in the object language (map, filter, foldl, foldr, for-each, reduce) are
        # given to the real compiler as the first unit of the replayed program, in S's own words: the replay then
        # covers them like user code ("whole"); "whole_native_library" replays the unmodified programs (units that
        # call the engine's own map / foldl … are outside the model there)
        pre = s_prelude()
        if pre is None:
            ctx.violation("C01-prelude.txt", "Base/Eval.lean: preludeSrc not found", no_input=True)
        else:
            bc_replay(ctx, stats, "whole", [pre + USEP + p for p in progs[:nwhole]], known=known)
            bc_replay(ctx, stats, "whole_native_library", progs[:len(corpus) + 40 if ctx.quick() else nwhole], known=known)
            # the same programs with the ENGINE's own Scheme definitions of map / foldl / foldr / filter (text of
            # stdlib.scm) compiled as the first unit: the engine's library code is executed by the model VM too
            lib = engine_library_source()
            nlib = len(corpus) + (40 if ctx.quick() else 800)
            if lib is None:
                ctx.violation("C01-stdlib.txt", "scheme/stdlib.scm: the definitions of map / foldl / foldr / filter were not found",
                              no_input=True)
            else:
                bc_replay(ctx, stats, "whole_engine_library", [lib + USEP + p for p in progs[:nlib]], known=known)
            # MODULE mode: the program as `steel file.scm` runs it - a required module (mangled names, NOARITY and
            # specialised arithmetic op codes, self tail calls without arity check); every top-level expression printed
            nmodbc = len(corpus) + (50 if ctx.quick() else 800)
            mdir = os.path.join(C.BUILD, "C01", "bcmods-%d" % os.getpid())
            os.makedirs(mdir, exist_ok=True)
            mtexts = []
            for i, p in enumerate(progs[:nmodbc]):
                path = os.path.join(mdir, "m%d.scm" % i)
                with open(path, "w") as f:
                    f.write(pre + "\n" + observe_all(p) + "\n")
                mtexts.append('(require "%s")' % path)
            bc_replay(ctx, stats, "module", mtexts, known=known)
            import shutil
            shutil.rmtree(mdir, ignore_errors=True)
    ctx.log("whole-program replay done; core-language programs (listing comparison, five-way run)")
    # (d) programs INSIDE the core language, emitted as source + lowered Core term: compiler output comparison
    # (`compileTop e` vs the real listing) and the five-way run evalC / model compiler+VM / model VM on the real
    # listing / real engine / S
    if len(ctx.violations) < 8:
        ncore = 180 if ctx.quick() else 1500
        cps = [gen_core_program(rng2) for _ in range(ncore)]
        ctexts = [USEP.join("\n".join(u) for u in p["units"]) for p in cps]
        cspec, crc = run_spec(["\n".join("\n".join(u) for u in p["units"]) for p in cps])
        cspec = cspec + [None] * (len(cps) - len(cspec))
        bc_replay(ctx, stats, "core", ctexts, cores=[p["cores"] for p in cps], spec=cspec,
                  feats=[p["feats"] for p in cps], known=known)
        cf = {}
        for p in cps:
            for x in p["feats"]:
                bump(cf, x)
        stats["core"]["generator_features"] = cf
        stats["core"]["sample"] = {"source_units": cps[0]["units"][:3], "core_terms": cps[0]["cores"][:3]}
    ctx.log("core-language stage done; tail-only shapes")
    # (e) tail-only loop shapes: the static check C09.tailOnlyB on the REAL listing (accepted => the frame bound of
    # C09.core_loop_constant_space is a theorem about this listing); a rejected one = a tail call not compiled as one
    if len(ctx.violations) < 8:
        fam = []
        for _ in range(2 if ctx.quick() else 12):
            fam += tail_only_family(rng2)
        st = bc_replay(ctx, stats, "tailonly", [f[1] for f in fam], known=known)
        st["shapes"] = sorted(set(f[0] for f in fam))
    for label in ("core", "tailonly"):
        st = stats.get(label)
        for i in (st or {}).get("tail_only_rejected", [])[:3]:
            stats["disagreements_checked"] += 1
            src_ = (fam[i][1] if label == "tailonly" else ctexts[i])
            ctx.violation("C01-%s-tailcall-%d.txt" % (label, i),
                          "# every call of a non-primitive inside a procedure body of this program is in tail position "
                          "(the tail-aware reference compiler's code passes C09.tailOnlyB), but the REAL listing is "
                          "rejected by the checker: a tail call was not compiled as a tail call\n%s\n" % src_)
    # (f) self tail call (TCOJMP) after the procedure's own name was assigned.  Same compilation unit: repaired
    # (442c2323), must agree with S.  Assignment in a LATER unit: open finding K01l (the old closure, reached through
    # another variable, keeps calling itself).
    if len(ctx.violations) < 8:
        fam2 = []
        for later in (False, True):
            for k2 in (1, 2):
                ps_ = " ".join("a%d" % j for j in range(k2))
                fam2.append((later, (USEP if later else "\n").join([
                    "(define (lp n %s) (if (= n 0) (+ 100 n) (lp (- n 1) %s)))" % (ps_, ps_),
                    "(define keep lp)", "(set! lp (lambda (n %s) 999))" % ps_,
                    "(keep 3 %s)" % " ".join("1" for _ in range(k2))])))
        fr = run_real_bc([p for _, p in fam2])
        fs_, _ = run_spec([p.replace(USEP, "\n") for _, p in fam2])
        for (later, p), rch, m in zip(fam2, fr, fs_):
            stats["programs"] += 1
            fin = parse_bc_real(rch)["final"] if rch else ("crash", "")
            rv = [canon_val(v) for v in fin[1].split("\x1f") if v and v != "#<void>"] if fin and fin[0] == "ok" else [str(fin)]
            sv = [canon_val(v) for v in m["res"][1]] if m["res"][0] == "ok" else [str(m["res"])]
            if rv != sv:
                stats["disagreements_checked"] += 1
                if later and "K01l" in known and rv[-1:] == ["100"] and sv[-1:] == ["999"]:
                    ctx.known_finding("id=K01l " + known["K01l"])
                    bump(stats["known_hits"], "K01l")
                else:
                    ctx.violation("C01-selftail-set-%s.txt" % ("later-unit" if later else "same-unit"),
                                  "# %s\n# real %s\n# S %s\n" % (p, rv, sv))
    # (g) an inlined callee assigns its parameter while the caller's variable is captured (K01g / K01m, repaired in
    # 83175751): the deprecated ALLOC / SETALLOC / READALLOC op codes must not be executed, real must agree with S
    if len(ctx.violations) < 8:
        fam3 = []
        for body, call in (("(- (f3 p11) p12)", "(k 4)"), ("(+ p12 (f3 p11))", "(k 1)"), ("(begin (f3 p11) p11)", "(k 0)")):
            for getk in ("(define k (car (map mk10 (list 3))))", "(define (ap h v) (h v))\n(define k (ap mk10 3))"):
                fam3.append("(define (f3 p5) (set! p5 100) p5)\n(define (mk10 p11) (lambda (p12) %s))\n%s\n%s" % (body, getk, call))
        fr = run_real(fam3)
        fs_, _ = run_spec(fam3)
        for p, r, m in zip(fam3, fr, fs_):
            stats["programs"] += 1
            if not same(r, m):
                stats["disagreements_checked"] += 1
                ctx.violation("C01-inlined-callee-assigns-parameter.txt", "# %s\n# real %s\n# S %s\n" % (p, r["res"], m["res"]))
    # which real op codes appeared in listings of this run, and which of them the model has
    seen = {}
    for label in ALL_LABELS:
        for k, v in stats.get(label, {}).get("opcodes_seen", {}).items():
            bump(seen, k, v)
    tie["real_opcodes_in_enum"] = tinfo.get("opcodes")
    tie["real_opcodes_with_dispatch_arm"] = tinfo.get("dispatch_arms")
    tie["opcodes_seen_in_listings"] = len(seen)
    tie["opcodes_seen_and_modelled"] = sorted(k for k in seen if k in MODELLED_OPS)
    tie["opcodes_seen_not_modelled"] = {k: v for k, v in seen.items() if k not in MODELLED_OPS}
    tie["opcodes_seen_only_in_extended_vm"] = sorted(k for k in seen if k in EXT_OPS)
    tie["opcode_histogram"] = dict(sorted(seen.items(), key=lambda kv: -kv[1]))
    w = stats.get("whole")
    if w:
        tie["whole_programs_replayed_on_extended_vm"] = "%d of %d" % (w["programs_fully_ext_modelled"], w["programs"])
    for label in ALL_LABELS:
        st = stats.get(label)
        if st:
            st.pop("opcodes_seen", None)
            tie[label] = st

    if not pr["ok"] and not ctx.violations:
        ctx.violation("C01-proof-broken.txt", "proof obligations of SteelVerif.C01.Props that no longer check:\n" +
                      "\n".join("%s: %s" % f for f in pr["failed"]) + "\n", no_input=True)
    ctx.coverage = {
        "obligations": pr["obligations"], "discharged": pr["discharged"],
        "checker_cmd": "cd lean && lake build SteelVerif.C01.Props && lake env lean SteelVerif/C01/Audit.lean",
        "trusted_base": C.TRUSTED_BASE + ["Base/Eval.lean as the reading of Scheme semantics (with the deviation table)"],
        "programs": stats["programs"] + stats["frag"], "disagreements_checked": stats["disagreements_checked"],
        "evaluations": stats["programs"] + stats["frag"], "distinct_nontrivial": len(stats["seen"]),
        "rule": "whole programs: gen/progs.py (type-directed, seeded by VERIF_SEED), one fresh engine each; fragment programs: gen/frag.py emitting lowered IR + Steel source; distinct = different program text; every program has several definitions and observing forms",
        "samples": stats["samples"], "feature_counts": stats["features"], "spec_outcomes": stats["outcomes"],
        "fragment_programs": stats["frag"], "module_mode_programs": stats.get("module_programs", 0), "fragment_model_vs_vm_mismatches": stats["frag_model_mismatch"],
        "known_finding_hits": stats["known_hits"], "axioms": pr.get("axioms", {}),
        "tie_core_model_to_repo": tie,
        "proof_failures": ["%s: %s" % f for f in pr["failed"]],
    }
    return ctx.finish("proof")


def replay(ctx, path):
    text = "\n".join(l for l in open(path).read().split("\n") if not l.startswith("#"))
    progs = [p for p in text.split(SEP) if p.strip()]
    C.build_harness(ctx, ["c01"])
    real = run_real(progs)
    spec, _ = run_spec(progs)
    for p, r, m in zip(progs, real, spec):
        print(p)
        print("  real:", r["res"], repr(r["out"][:200]))
        print("  spec:", m["res"], repr(m["out"][:200]))
    return 0
