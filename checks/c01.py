"""C01 — compiled execution agrees with the language's reference semantics.

prove      : lake build SteelVerif.C01.Props (+ audit): the code generator and the stack VM of the lowered
             core (locals by stack offset, let, if, begin, set!, primitives, calls incl. recursion) refine the
             reference semantics `evalIR`, for every program of that fragment.
correspond : (a) whole programs of the documented core language from a type-directed generator: the real
             engine (one fresh Engine per program) vs the reference semantics S (Base/Eval.lean, a CEK
             machine): script output, top-level values, error-or-success outcome;
             (b) fragment programs, emitted both as lowered IR and as Steel source: `evalIR` vs the model VM
             running the generated code vs the real engine.
oracle     : S (and `evalIR` for the fragment).  A real≠S difference is a violation unless the program is in
             the class of an open finding.
"""
import os
import random
import re
import sys

from . import common as C

sys.path.insert(0, C.VERIF)
from gen.progs import gen_program      # noqa: E402
from gen.frag import gen_frag_program  # noqa: E402

PID = "C01"
META = {
    "ready": True,
    "category": "proof",
    "technique": "Lean 4 compiler-correctness theorem (code generator + stack VM refine the reference semantics of the lowered core) + differential execution of generated programs: real engine vs executable reference semantics",
    "level_text": "Proved for every program of the fragment (SteelVerif/C01/Props.lean): compile_correct (if the reference semantics of the lowered core gives a value, the VM running the generated code halts with the same value; any nesting, recursion depth and frame contents), read_after_write, dead_branch_irrelevant / dead_branch_vm (code that is not executed cannot influence the result), call_arity_exact and call_args_exact (a call succeeds only with exactly the written operands, in order), eval_preserves_height. The fragment model is my transcription of the generic op codes, not the real analysis.rs / code_gen.rs / vm.rs; the tie to the real pipeline is differential: whole programs of the documented core language (closures, mutation of captured variables, shadowing, internal defines, named let, rest arguments, higher-order library procedures, handled and dead errors, output) run on the real engine and on the executable reference semantics S, and fragment programs run on evalIR, on the model VM and on the real engine.",
    "level_note": "Trusted: Lean kernel, harness/driver/comparison, the reference evaluator S as the reading of Scheme semantics (deviation table in Base/Eval.lean), generator coverage. Not modelled: the real analysis passes, the ~85 specialised op codes, const-evaluation, the JIT (all covered only by the differential run).",
}

SEP = "\n;;;===\n"


def parse_records(text):
    recs, cur = [], None
    for line in text.split("\n"):
        if line.startswith("\x1eB"):
            cur = {"out": [], "res": None}
            recs.append(cur)
        elif cur is None:
            continue
        elif line.startswith("\x1eV"):
            cur["res"] = ("ok", [v for v in line[3:].split("\x1f") if v and v != "#<void>"])
        elif line.startswith("\x1eE"):
            cur["res"] = ("err", line[3:])
        elif line.startswith("\x1eP"):
            cur["res"] = ("panic", line[3:])
        else:
            cur["out"].append(line)
    for r in recs:
        r["out"] = "\n".join(r["out"]).strip("\n")
    return recs


def run_real(progs, env=None, timeout=300, args=()):
    """Run programs on the real engine in 16 parallel child processes; a child that dies (abort, stack
    overflow) loses only the program it was running: the rest of its chunk is re-run."""
    n = len(progs)
    results = [None] * n

    def run_chunk(idxs):
        todo = list(idxs)
        while todo:
            text = SEP.join(progs[i] for i in todo) + "\n"
            rc, out, err = C.run_bin([C.bin_path("c01")] + list(args), text, timeout=timeout, env=env)
            recs = parse_records(out)
            for k, i in enumerate(todo):
                if k < len(recs) and recs[k]["res"] is not None:
                    results[i] = recs[k]
                else:
                    break
            else:
                return
            # program todo[k] killed the child
            i = todo[k]
            why = "timeout" if rc == 124 else "exit %d: %s" % (rc, (err or "").strip().splitlines()[-1:] or "")
            results[i] = {"out": recs[k]["out"] if k < len(recs) else "", "res": ("crash", why)}
            todo = todo[k + 1:]

    # at most 100 programs (= engines) per child process: an engine never returns its JIT code mappings (open finding
    # K07ah), and a process that has created a few hundred engines runs into vm.max_map_count and aborts
    per = max(1, min(100, (n + C.NCPU - 1) // C.NCPU))
    chunks = [list(range(i, min(i + per, n))) for i in range(0, n, per)]
    C.pool_map(run_chunk, [c for c in chunks if c])
    return results


def split_forms(src):
    """Top-level forms of a program text (paren balanced; strings, character literals and comments respected)."""
    forms, cur, depth, i, n = [], [], 0, 0, len(src)
    while i < n:
        c = src[i]
        if c == ";" :
            while i < n and src[i] != "\n":
                i += 1
            continue
        if c == '"':
            j = i + 1
            while j < n and src[j] != '"':
                j += 2 if src[j] == "\\" else 1
            cur.append(src[i:j + 1])
            i = j + 1
            if depth == 0:
                forms.append("".join(cur).strip()); cur = []
            continue
        if c == "#" and i + 1 < n and src[i + 1] == "\\":
            j = i + 3
            while j < n and (src[j].isalnum()):
                j += 1
            cur.append(src[i:j]); i = j
            if depth == 0:
                forms.append("".join(cur).strip()); cur = []
            continue
        if c in "([":
            depth += 1
        elif c in ")]":
            depth -= 1
        if depth == 0 and c.isspace():
            if "".join(cur).strip():
                tok = "".join(cur).strip()
                if tok not in ("'", "`", ",", ",@"):
                    forms.append(tok); cur = []
                    i += 1
                    continue
            i += 1
            continue
        cur.append(c)
        i += 1
        if depth == 0 and c in ")]":
            forms.append("".join(cur).strip()); cur = []
    if "".join(cur).strip():
        forms.append("".join(cur).strip())
    return [f for f in forms if f]


def observe_all(src):
    """The same program with every top-level expression printed: what a file run as a module can show."""
    out = []
    for f in split_forms(src):
        if re.match(r"[(\[]\s*(define|define-values|struct|define-syntax|require|provide|set!)(?=[\s()\[\]])", f):
            out.append(f)
        else:
            out.append("(displayln %s)" % f)
    return "\n".join(out)


def run_spec(progs):
    text = SEP.join(progs) + "\n"
    rc, out, err = C.run_bin([C.driver_path("c01driver")], text, timeout=900)
    return parse_records(out), rc


def same(r, m):
    if r["res"][0] != m["res"][0]:
        return False
    if r["out"] != m["out"]:
        return False
    return r["res"][0] != "ok" or r["res"][1] == m["res"][1]


def jit_only(prog, spec_rec, module):
    """real != S with the JIT: does the interpreter alone (STEEL_JIT=false) agree with S?  Then the difference belongs to
    the native tier (property C02 decides those; its open findings K02g/i/m/n are JIT-only miscompilations)."""
    r = run_real([prog], env={"STEEL_JIT": "false"}, args=(["--module"] if module else []))[0]
    if module:
        return r["res"][0] == spec_rec["res"][0] and r["out"].strip() == spec_rec["out"].strip()
    return same(r, spec_rec)


def run(ctx):
    stats = {"programs": 0, "disagreements_checked": 0, "seen": set(), "features": {}, "samples": [],
             "frag": 0, "frag_model_mismatch": 0, "known_hits": {}, "outcomes": {"ok": 0, "err": 0}}
    known = {k["id"]: k["text"].split(" ", 5)[-1] for k in ctx.load_known() if "id" in k}
    pr = C.prove(ctx, "C01", ["c01driver"])
    ok, log = C.build_harness(ctx, ["c01"])
    if not ok or not os.path.exists(C.driver_path("c01driver")):
        ctx.violation("C01-build.txt", "harness or driver does not build:\n" + log + pr["log"][-2000:], no_input=True)
        ctx.coverage = {"obligations": pr["obligations"], "discharged": pr["discharged"],
                        "checker_cmd": "lake build SteelVerif.C01.Props", "trusted_base": C.TRUSTED_BASE}
        return ctx.finish()
    rng = random.Random(ctx.seed)

    # (a) corpus + whole programs
    corpus = []
    cdir = os.path.join(C.VERIF, "corpus", "C01")
    probe_of = {}                         # program text -> id of the open finding it is the witness of
    for fn in sorted(os.listdir(cdir)) if os.path.isdir(cdir) else []:
        raw = open(os.path.join(cdir, fn)).read()
        m = re.search(r"^# finding: (\S+)", raw, re.M)
        text = "\n".join(l for l in raw.split("\n") if not l.startswith("#"))
        ps = [p for p in text.split(SEP) if p.strip()]
        corpus += ps
        if m:
            for p in ps:
                probe_of[p] = m.group(1)
    n = 320 if ctx.quick() else 6000
    size = 3 if ctx.quick() else 4
    gen = [gen_program(rng, size) for _ in range(n)]
    progs = corpus + [g[0] for g in gen]
    feats = [set()] * len(corpus) + [g[1] for g in gen]
    real = run_real(progs)
    spec, rc = run_spec(progs)
    if rc != 0 or len(spec) != len(progs):
        ctx.violation("C01-driver.txt", "reference evaluator failed (rc=%d, %d of %d programs)" % (rc, len(spec), len(progs)),
                      no_input=True)
        spec = spec + [{"out": "", "res": ("err", "missing")}] * (len(progs) - len(spec))
    for i, (p, r, m, f) in enumerate(zip(progs, real, spec, feats)):
        stats["programs"] += 1
        stats["seen"].add(p)
        for x in f:
            stats["features"][x] = stats["features"].get(x, 0) + 1
        if m["res"][0] in stats["outcomes"]:
            stats["outcomes"][m["res"][0]] += 1
        if len(stats["samples"]) < 2 and i >= len(corpus) and len(p) < 900:
            stats["samples"].append({"program": p, "real": r["res"], "spec": m["res"], "output": r["out"][:200]})
        if m["res"][0] == "err" and m["res"][1].startswith("timeout"):
            continue                      # the generator produced a program S cannot finish: not a verdict
        if same(r, m):
            continue
        stats["disagreements_checked"] += 1
        if "K01j" in known and jit_only(p, m, False):
            ctx.known_finding("id=K01j " + known["K01j"])
            stats["known_hits"]["K01j"] = stats["known_hits"].get("K01j", 0) + 1
            continue
        if probe_of.get(p) in known:
            # the witness program of an open finding (corpus file with a `# finding:` header) still fails
            ctx.known_finding("id=%s %s" % (probe_of[p], known[probe_of[p]]))
            stats["known_hits"][probe_of[p]] = stats["known_hits"].get(probe_of[p], 0) + 1
            continue
        ctx.violation("C01-prog-%d.txt" % i, "# program\n%s\n# real engine : %s output=%r\n# specification: %s output=%r\n" % (
            p, r["res"], r["out"][:300], m["res"], m["out"][:300]))
        if len(ctx.violations) >= 5:
            break

    # (a') the same programs the way `steel file.scm` runs them: as a required module (module-level procedures take
    # other compiler / JIT paths); every top-level expression is printed, output and outcome are compared with S
    nmod = len(progs) if not ctx.quick() else min(len(progs), len(corpus) + 160)
    mprogs = [observe_all(p) for p in progs[:nmod]]
    mreal = run_real(mprogs, args=["--module"])
    mspec, mrc = run_spec(mprogs)
    stats["module_programs"] = 0
    for i, (p, r, m) in enumerate(zip(mprogs, mreal, mspec + [None] * (len(mprogs) - len(mspec)))):
        if m is None or (m["res"][0] == "err" and m["res"][1].startswith("timeout")):
            continue
        stats["module_programs"] += 1
        if r["res"][0] == m["res"][0] and r["out"].strip() == m["out"].strip():
            continue
        stats["disagreements_checked"] += 1
        if probe_of.get(progs[i]) in known:
            continue                       # already reported above as the witness of an open finding
        if "K01j" in known and jit_only(p, m, True):
            ctx.known_finding("id=K01j " + known["K01j"])
            stats["known_hits"]["K01j"] = stats["known_hits"].get("K01j", 0) + 1
            continue
        ctx.violation("C01-module-%d.txt" % i, "# program evaluated as a module: (require \"<file>\") with this text\n%s\n# real engine : %s output=%r\n# specification: %s output=%r\n" % (
            p, r["res"][0], r["out"][:300], m["res"][0], m["out"][:300]))
        if len(ctx.violations) >= 8:
            break

    # (b) fragment: evalIR vs model VM vs real
    nf = 480 if ctx.quick() else 10000
    frags = [gen_frag_program(rng, 3) for _ in range(nf)]
    rcode, mout, _ = C.run_bin([C.driver_path("c01driver"), "frag"], "\n".join(f[0] for f in frags) + "\n", timeout=900)
    mlines = mout.splitlines()
    freal = run_real([f[1] for f in frags])
    for i, (f, ml, r) in enumerate(zip(frags, mlines, freal)):
        stats["frag"] += 1
        m = re.match(r"ref=(\S+) vm=(\S+)", ml)
        ref, vm = (m.group(1), m.group(2)) if m else ("?", "?")
        if ref != vm:
            stats["frag_model_mismatch"] += 1
            ctx.violation("C01-frag-model-%d.txt" % i, "model VM and reference semantics of the lowered core disagree "
                          "(compile_correct would be false):\n%s\nref=%s vm=%s\n" % (f[0], ref, vm), no_input=True)
            continue
        if ref == "none":
            continue
        real_v = r["res"][1][-1] if r["res"][0] == "ok" and r["res"][1] else r["res"][0]
        if real_v == ref:
            continue
        stats["disagreements_checked"] += 1
        sig = str(r["res"])
        if f[2] and "K01d" in known and ("#&" in sig or r["res"][0] == "crash"):
            ctx.known_finding("id=K01d " + known["K01d"])
            stats["known_hits"]["K01d"] = stats["known_hits"].get("K01d", 0) + 1
            continue
        ctx.violation("C01-frag-%d.txt" % i, "# fragment program (lowered IR)\n%s\n# steel source\n%s\n# real engine: %s\n# evalIR = model VM = %s\n" % (
            f[0], f[1], r["res"], ref))
        if len(ctx.violations) >= 8:
            break

    if not pr["ok"] and not ctx.violations:
        ctx.violation("C01-proof-broken.txt", "proof obligations of SteelVerif.C01.Props that no longer check:\n" +
                      "\n".join("%s: %s" % f for f in pr["failed"]) + "\n", no_input=True)
    ctx.coverage = {
        "obligations": pr["obligations"], "discharged": pr["discharged"],
        "checker_cmd": "cd lean && lake build SteelVerif.C01.Props && lake env lean SteelVerif/C01/Audit.lean",
        "trusted_base": C.TRUSTED_BASE + ["Base/Eval.lean as the reading of Scheme semantics (with the deviation table)"],
        "programs": stats["programs"] + stats["frag"], "disagreements_checked": stats["disagreements_checked"],
        "evaluations": stats["programs"] + stats["frag"], "distinct_nontrivial": len(stats["seen"]),
        "rule": "whole programs: gen/progs.py (type-directed, seeded by VERIF_SEED), one fresh engine each; fragment programs: gen/frag.py emitting lowered IR + Steel source; distinct = different program text; every program has several definitions and observing forms",
        "samples": stats["samples"], "feature_counts": stats["features"], "spec_outcomes": stats["outcomes"],
        "fragment_programs": stats["frag"], "module_mode_programs": stats.get("module_programs", 0), "fragment_model_vs_vm_mismatches": stats["frag_model_mismatch"],
        "known_finding_hits": stats["known_hits"], "axioms": pr.get("axioms", {}),
        "proof_failures": ["%s: %s" % f for f in pr["failed"]],
    }
    return ctx.finish("proof")


def replay(ctx, path):
    text = "\n".join(l for l in open(path).read().split("\n") if not l.startswith("#"))
    progs = [p for p in text.split(SEP) if p.strip()]
    C.build_harness(ctx, ["c01"])
    real = run_real(progs)
    spec, _ = run_spec(progs)
    for p, r, m in zip(progs, real, spec):
        print(p)
        print("  real:", r["res"], repr(r["out"][:200]))
        print("  spec:", m["res"], repr(m["out"][:200]))
    return 0
