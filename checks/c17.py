"""C17 — a running script can always be interrupted.

translate  : translate/c16_callpaths.py regenerates lean/SteelVerif/C17/GenPollsTable.lean (poll at the head of the
             dispatch loop; which self-tail-call opcodes jit2/cgen.rs compiles to a native back-edge, with/without poll).
prove      : lake build SteelVerif.C17.Props + GenPolls + axiom audit.  Theorems (Props.lean): interrupt_bounded,
             interrupt_not_lost_partial (guard: no own stop/resume pair overlaps a pending request),
             interrupt_delivered_partial (guard G2: the thread never parks on a request), resume_usable, and the negation
             witnesses not_interrupt_not_lost (K17a), not_interrupt_bounded_native (K17b), not_interrupt_delivered (K17c).
correspond : the REAL engine (harness c17): for looping program shapes x JIT on/off x request positions, a watcher thread
             calls ThreadStateController::interrupt() on the controller from Engine::get_thread_state_controller(); the
             evaluation must return the interrupt error within the bound after ONE request, and after resume() a probe
             program must work.  Deterministic replays through the cfg(steel_verif) yield points (harness c15): the request
             is issued exactly between the thread's own pause_for_safepoint() and resume().
oracle     : the specification S = "Err within the bound after one request, engine usable after resume()".
"""
import os
import random
import re

from . import common as C

PID = "C17"
META = {
    "ready": True,
    "category": "proof",
    "technique": "Lean 4 transition-system proofs (single engine thread + host on one controller, every store/load of the pause flag and state atomic) + table regenerated from jit2/cgen.rs + interruption of the real engine for looping shapes x JIT on/off x request positions, deterministic replay through cfg(steel_verif) yield points",
    "level_text": "Theorems (lean/SteelVerif/C17/Props.lean) about the model of the poll / interrupt / resume protocol: interrupt_bounded - once interrupt() has completed, the evaluation returns within B+5 further steps of the thread, B = longest native region entered, for every mix of ordinary instructions, primitives, nested vm() loops of higher-order built-ins and native calls; interrupt_not_lost_partial - for every interleaving of thread steps and host requests in which no stop_threads()/resume_threads() pair of the thread's own collection or global update overlaps a pending request, the request stays visible to the poll; interrupt_delivered_partial - under the stronger guard G2 (the thread does not execute the state load of a safepoint exit loop while a request is between its two stores; the host resumes only after run returned) the thread never parks on a request and a complete pending request finds it ready; interrupt_bounded_error / interrupt_end_to_end_partial - the two composed: after every G2-respecting history a complete pending request ends, within dist <= B+5 thread steps, in the interrupt error unless the program finishes first; resume_usable - after the error and resume() the engine polls through. The full statements are false for the code as it is and the negations are proved from concrete traces: not_interrupt_not_lost (resume() of the thread's own round erases the request: finding K17a), not_interrupt_delivered (interrupt() is two stores; a thread leaving a safepoint between them parks and nobody unparks it: K17c), not_interrupt_bounded_native (a native back-edge without poll never returns: K17b; the table of back-edge opcodes is regenerated from jit2/cgen.rs and checked by decide). What is NOT a theorem: that the real engine follows the model - that is the differential run (looping shapes x JIT on/off x request positions on the real engine, wall-clock bound) and the forced replays through the yield-point hooks.",
    "level_note": "Trusted: Lean kernel (axioms propext, Classical.choice, Quot.sound), the harness / watcher thread / python comparison, the regex translator over jit2/cgen.rs and vm.rs. Modelled, not verified: sequentially consistent atomics (the code uses Relaxed), one engine thread (multi-thread rounds are C15/C16), wall-clock time (the bound is in steps in the theorem; in the run it is 400 ms of CPU time of the evaluation thread, read from /proc, so that machine load does not count), primitives that loop internally without returning (one script step each). Request positions in the hook-free run are wall-clock delays after the script signalled that it is inside its loop, not instruction counts.",
}

BIN = "c17"
MODS = os.path.join(C.BUILD, "C17", "mods")
MODULE_SRC = "(provide spin spin2)\n(define (spin n) (if (< n 0) n (spin (+ n 1))))\n(define (spin2 n acc) (if (< n 0) acc (spin2 (+ n 1) (cons n '()))))\n"

# name -> (program, tags).  tags: rounds = the loop performs stop/resume rounds on its own controller (K17a class),
# modloop = self-tail loop of a module-level function (K17b class when the JIT is on)
# nativeloop = a shape whose loop the JIT turns into code that never returns to the dispatch loop once it is compiled (the lifted
#   loop procedure of a top-level `while`; a natively compiled callback driven by the native #%for-each): K17b by cause, attributed
#   only if the very same case is interrupted at once with STEEL_JIT=false
SHAPES = {
    "self-tail": ("(define (loop) (loop)) (c17-mark!) (loop)", set()),
    "self-tail-arg": ("(define (loop n) (if (< n 0) n (loop (+ n 1)))) (c17-mark!) (loop 0)", set()),
    "named-let": ("(c17-mark!) (let loop ((i 0)) (if (< i 0) i (loop (+ i 1))))", set()),
    "do-loop": ("(c17-mark!) (do ((i 0 (+ i 1))) ((< i 0) i))", set()),
    "internal-define": ("(define (spin) (define (loop n acc) (if (< n 0) acc (loop (+ n 1) (+ acc n)))) (loop 0 0)) (c17-mark!) (spin)", set()),
    "mutual-tail": ("(define (a n) (b (+ n 1))) (define (b n) (a n)) (c17-mark!) (a 0)", set()),
    "mutual-3": ("(define (a n) (b n)) (define (b n) (c n)) (define (c n) (a (+ n 1))) (c17-mark!) (a 0)", set()),
    "nontail-rec": ("(define (f n) (if (= n 0) 0 (+ 1 (f (- n 1))))) (define (loop) (f 500) (loop)) (c17-mark!) (loop)", set()),
    "fib-native": ("(define (fib n) (if (< n 2) n (+ (fib (- n 1)) (fib (- n 2))))) (c17-mark!) (fib 80)", set()),
    "map-cb-loop": ("(c17-mark!) (map (lambda (x) (let loop () (loop))) (list 1 2 3))", set()),
    "map-forever": ("(define (forever) (map (lambda (x) (+ x 1)) (range 0 200)) (forever)) (c17-mark!) (forever)", set()),
    "foldl-forever": ("(define (forever) (foldl (lambda (x acc) (+ x acc)) 0 (range 0 200)) (forever)) (c17-mark!) (forever)", set()),
    "for-each-forever": ("(define (forever) (for-each (lambda (x) (+ x 1)) (range 0 200)) (forever)) (c17-mark!) (forever)", set()),
    "filter-cb-loop": ("(c17-mark!) (filter (lambda (x) (let loop () (loop))) (list 1 2 3))", set()),
    "transduce-cb-loop": ("(c17-mark!) (transduce (list 1 2 3) (mapping (lambda (x) (let loop () (loop)))) (into-list))", set()),
    "transduce-forever": ("(define (forever) (transduce (range 0 200) (mapping (lambda (x) (+ x 1))) (into-list)) (forever)) (c17-mark!) (forever)", set()),
    "transduce-reducer-loop": ("(c17-mark!) (transduce (list 1 2 3) (mapping (lambda (x) x)) (into-reducer (lambda (acc x) (let loop () (loop))) 0))", set()),
    "sort-cb-loop": ("(c17-mark!) (sort (list 3 2 1) (lambda (a b) (let loop () (loop))))", set()),
    "handler-loop": ("(c17-mark!) (with-handler (lambda (e) (let loop () (loop))) (error \"x\"))", set()),
    "handler-each-iter": ("(define (loop) (with-handler (lambda (e) 1) (error \"x\")) (loop)) (c17-mark!) (loop)", set()),
    "handler-swallow": ("(define (inner) (inner)) (define (loop) (with-handler (lambda (e) (loop)) (inner))) (c17-mark!) (loop)", set()),
    "wind-after-loop": ("(c17-mark!) (dynamic-wind (lambda () 1) (lambda () 2) (lambda () (let loop () (loop))))", set()),
    "wind-each-iter": ("(define (loop) (dynamic-wind (lambda () 1) (lambda () 2) (lambda () 3)) (loop)) (c17-mark!) (loop)", set()),
    "callcc-local-generator": ("(define (gen) (let ((k #f) (n 0)) (call/cc (lambda (c) (set! k c))) (set! n (+ n 1)) (k 0))) (c17-mark!) (gen)", set()),
    "apply-loop": ("(define (loop n) (apply loop (list (+ n 1)))) (c17-mark!) (loop 0)", set()),
    "alloc-box": ("(define (loop n) (box n) (loop (+ n 1))) (c17-mark!) (loop 0)", set()),
    "alloc-mvec": ("(define (loop n) (make-vector 50 n) (loop (+ n 1))) (c17-mark!) (loop 0)", set()),
    "alloc-list": ("(define (loop n acc) (if (> n 100000) (loop 0 '()) (loop (+ n 1) (cons n acc)))) (c17-mark!) (loop 0 '())", set()),
    "hash-loop": ("(define (loop h n) (loop (hash-insert h (modulo n 100) n) (+ n 1))) (c17-mark!) (loop (hash) 0)", set()),
    "string-loop": ("(define (loop n) (string-append \"a\" (number->string n)) (loop (+ n 1))) (c17-mark!) (loop 0)", set()),
    "closure-chain": ("(define (mk k) (lambda (n) (if (< n 0) k ((mk (+ k 1)) (+ n 1))))) (c17-mark!) ((mk 0) 0)", set()),
    # loops that run stop-the-world rounds on their own controller
    "set-global": ("(define g 0) (define (loop) (set! g (+ g 1)) (loop)) (c17-mark!) (loop)", {"rounds"}),
    "while-set-global": ("(define i 0) (c17-mark!) (while #t (set! i (+ i 1)))", {"rounds", "nativeloop"}),
    "define-global-eval": ("(define (loop n) (eval `(define h ,n)) (loop (+ n 1))) (c17-mark!) (loop 0)", {"rounds"}),
    "callcc-global-generator": ("(define k #f) (define n 0) (c17-mark!) (begin (call/cc (lambda (c) (set! k c))) (set! n (+ n 1)) (k 0))", {"rounds"}),
    "alloc-live-boxes": ("(define keep (make-vector 30000 0)) (define (loop n) (vector-set! keep (modulo n 30000) (box n)) (loop (+ n 1))) (c17-mark!) (loop 0)", {"rounds"}),
    # the looping procedure is defined in an EARLIER evaluation than the call (not inlined) and is reached by non-tail calls
    # from compiled callers: the JIT's helpers call compiled callees directly ("trampoline"); the callee's return to the
    # dispatch loop on every self tail call is then the only poll
    "earlier-spin-d1": ("(define (spin x) (spin x)) (define (driver x) (spin x) 1) ;;;UNIT;;; (c17-mark!) (driver 0)", {"units"}),
    "earlier-spin-d2": ("(define (spin x) (spin x)) (define (d1 x) (spin x) 1) (define (d2 x) (+ 1 (d1 x))) ;;;UNIT;;; (c17-mark!) (d2 0)", {"units"}),
    "earlier-spin-d3": ("(define (spin x) (spin x)) (define (d1 x) (spin x) 1) (define (d2 x) (+ 1 (d1 x))) (define (d3 x y) (list y (d2 x))) ;;;UNIT;;; (c17-mark!) (d3 0 7)", {"units"}),
    "earlier-count-d1": ("(define (spin n) (if (< n 0) n (spin (+ n 1)))) (define (driver x) (+ (spin x) 1)) ;;;UNIT;;; (c17-mark!) (driver 0)", {"units"}),
    "earlier-spin2-d2": ("(define (spin a b) (spin b a)) (define (d1 x) (car (list (spin x 1)))) (define (d2 x) (if (d1 x) 1 2)) ;;;UNIT;;; (c17-mark!) (d2 0)", {"units"}),
    "earlier-units-3": ("(define (spin x) (spin x)) ;;;UNIT;;; (define (driver x) (spin x) 1) ;;;UNIT;;; (c17-mark!) (driver 0)", {"units"}),
    "earlier-spin-in-map": ("(define (spin x) (spin x)) (define (driver x) (spin x) 1) ;;;UNIT;;; (c17-mark!) (map driver (list 1 2))", {"units"}),
    "earlier-spin-in-transduce": ("(define (spin x) (spin x)) (define (driver x) (spin x) 1) ;;;UNIT;;; (c17-mark!) (transduce (list 1 2) (mapping driver) (into-list))", {"units"}),
    "module-spin-from-compiled": ("(require \"%s/m.scm\") (define (driver x) (+ 1 (spin x))) ;;;UNIT;;; (c17-mark!) (driver 0)" % MODS, {"units", "modloop"}),
    # callbacks of native iteration constructs over unbounded or long sources: the error raised by the poll inside a callback
    # has to come out of every stage of the pipeline (`long`: the source is finite but cannot be exhausted before the request)
    "stream-filter-closure": ("(define ones (stream-cons 1 (lambda () ones))) (define (wanted? x) #f) ;;;UNIT;;; (c17-mark!) (transduce ones (filtering wanted?) (taking 1) (into-list))", {"hof"}),
    "stream-map-filter": ("(define ones (stream-cons 1 (lambda () ones))) ;;;UNIT;;; (c17-mark!) (transduce ones (mapping (lambda (x) (+ x 1))) (filtering (lambda (x) (< x 0))) (taking 1) (into-list))", {"hof"}),
    "stream-flatmap-filter": ("(define ones (stream-cons 1 (lambda () ones))) ;;;UNIT;;; (c17-mark!) (transduce ones (flat-mapping (lambda (x) (list x x))) (filtering (lambda (x) #f)) (taking 1) (into-list))", {"hof"}),
    "stream-enumerate-filter": ("(define ones (stream-cons 1 (lambda () ones))) ;;;UNIT;;; (c17-mark!) (transduce ones (enumerating) (filtering (lambda (p) #f)) (taking 1) (into-list))", {"hof"}),
    "stream-for-each-reducer": ("(define ones (stream-cons 1 (lambda () ones))) ;;;UNIT;;; (c17-mark!) (transduce ones (into-for-each (lambda (x) x)))", {"hof"}),
    "stream-generic-reducer": ("(define ones (stream-cons 1 (lambda () ones))) ;;;UNIT;;; (c17-mark!) (transduce ones (into-reducer (lambda (acc x) (+ acc x)) 0))", {"hof", "streamtail"}),
    "long-list-filter": ("(define big (range 0 600000)) ;;;UNIT;;; (c17-mark!) (transduce big (filtering (lambda (x) #f)) (into-list))", {"hof", "long"}),
    "long4m-list-filter": ("(define big (range 0 4000000)) ;;;UNIT;;; (c17-mark!) (transduce big (filtering (lambda (x) #f)) (into-list))", {"hof", "long"}),
    "long-list-map-filter-take": ("(define big (range 0 600000)) ;;;UNIT;;; (c17-mark!) (transduce big (mapping (lambda (x) (* x 2))) (filtering (lambda (x) (< x 0))) (taking 3) (into-list))", {"hof", "long"}),
    "long-list-flatten-filter": ("(define big (range 0 200000)) ;;;UNIT;;; (c17-mark!) (transduce (list big big big) (flattening) (filtering (lambda (x) #f)) (into-count))", {"hof", "long"}),
    "long-list-for-each-reducer": ("(define big (range 0 600000)) ;;;UNIT;;; (c17-mark!) (transduce big (into-for-each (lambda (x) x)))", {"hof", "long"}),
    "long-list-zip-filter": ("(define big (range 0 600000)) ;;;UNIT;;; (c17-mark!) (transduce big (zipping big) (filtering (lambda (p) #f)) (into-count))", {"hof", "long"}),
    "long-hash-filter": ("(define h (transduce (range 0 150000) (mapping (lambda (x) (cons x x))) (into-hashmap))) ;;;UNIT;;; (c17-mark!) (transduce h (filtering (lambda (p) #f)) (into-count))", {"hof", "long"}),
    "long-vector-filter": ("(define v (list->vector (range 0 600000))) ;;;UNIT;;; (c17-mark!) (transduce v (filtering (lambda (x) #f)) (into-vector))", {"hof", "long"}),
    "long-sort-comparator": ("(define big (reverse (range 0 300000))) ;;;UNIT;;; (c17-mark!) (length (sort big (lambda (a b) (< a b))))", {"hof", "long"}),
    "long-for-each-range": ("(define big (range 0 3000000)) ;;;UNIT;;; (c17-mark!) (for-each (lambda (x) x) big)", {"hof", "long", "nativeloop"}),
    # the only Steel code of the pipeline is the tail thunk of the stream (K17d, fixed by /repo 3cbe5bf4: regression shapes)
    "stream-tail-prim-filter": ("(define ones (stream-cons 1 (lambda () ones))) ;;;UNIT;;; (c17-mark!) (transduce ones (filtering even?) (taking 1) (into-list))", {"hof", "streamtail"}),
    "stream-tail-taking-count": ("(define ones (stream-cons 1 (lambda () ones))) ;;;UNIT;;; (c17-mark!) (transduce ones (taking 2000000000) (into-count))", {"hof", "streamtail"}),
    # self tail call of a module-level function
    "module-self-tail": ("(require \"%s/m.scm\") (c17-mark!) (spin 0)" % MODS, {"modloop"}),
    "module-self-tail-cons": ("(require \"%s/m.scm\") (c17-mark!) (spin2 0 0)" % MODS, {"modloop"}),
}
QUICK_SHAPES = ["self-tail", "named-let", "internal-define", "mutual-tail", "nontail-rec", "fib-native", "map-cb-loop",
                "foldl-forever", "transduce-cb-loop", "handler-each-iter", "handler-swallow", "wind-each-iter",
                "callcc-local-generator", "alloc-box", "alloc-list", "set-global", "alloc-live-boxes",
                "module-self-tail",
                "earlier-spin-d1", "earlier-spin-d2", "earlier-spin-d3", "earlier-count-d1", "earlier-spin2-d2",
                "earlier-spin-in-map", "module-spin-from-compiled",
                "stream-filter-closure", "stream-map-filter", "stream-flatmap-filter", "stream-for-each-reducer",
                "stream-generic-reducer", "long-list-filter", "long4m-list-filter", "long-list-map-filter-take", "long-list-flatten-filter",
                "long-hash-filter", "long-vector-filter", "long-sort-comparator", "stream-tail-prim-filter"]


_SEEN = set()


def kf(ctx, kid, text):
    """One KNOWN-FINDING line per open finding and run; further reproductions are only counted."""
    if kid in _SEEN:
        return
    _SEEN.add(kid)
    ctx.known_finding(text)


def write_module():
    os.makedirs(MODS, exist_ok=True)
    with open(os.path.join(MODS, "m.scm"), "w") as f:
        f.write(MODULE_SRC)


def run_cases(lines, jit, timeout):
    """Feed case lines to harness c17 (restarting after a hang, which makes the harness exit).  Returns dict id -> fields."""
    out = {}
    rest = list(lines)
    guard = 0
    while rest and guard < len(lines) + 3:
        guard += 1
        rc, so, se = C.run_bin([C.bin_path(BIN)], "".join(rest), timeout=timeout, env={"STEEL_JIT": jit})
        got = [l for l in so.splitlines() if l.startswith("case ")]
        for l in got:
            f = l.split()
            kv = dict(x.split("=", 1) for x in f[2:] if "=" in x)
            kv["raw"] = l
            out[f[1]] = kv
        if len(got) >= len(rest):
            break
        if not got:
            # the first remaining case killed the process without a verdict
            cid = rest[0].split("\t")[1]
            if rc == 124:
                # the harness itself ran out of (wall-clock) time: machine load, no verdict
                out[cid] = {"outcome": "starved", "raw": "harness process timed out"}
            else:
                out[cid] = {"outcome": "crash:rc=%d" % rc, "raw": (se or "")[-300:].replace("\n", " ")}
            rest = rest[1:]
        else:
            rest = rest[len(got):]
    return out


def classify(ctx, name, tags, jit, kv, known, stats, replay_line):
    oc = kv.get("outcome", "?")
    ok = oc == "interrupted" and kv.get("requests") == "1" and kv.get("probe") == "ok"
    stats["cases"] += 1
    if ok:
        stats["pass"] += 1
        try:
            stats["lat"].append(int(kv.get("latency_us", "0")))
        except ValueError:
            pass
        return
    if oc.startswith("finished") and "long" in tags and int(kv.get("requests", "0") or 0) >= 1:
        # the source could not be exhausted before the request: the evaluation went on after it and returned a value,
        # i.e. the interrupt error raised inside a callback was swallowed by the iteration construct
        stats["viol"] += 1
        ctx.violation("C17-%s-jit%s.txt" % (name, jit),
                      "# C17 violation: the evaluation returned a VALUE after the interrupt request (the error raised inside a callback of a "
                      "native iteration construct did not come out of it)\n# observed: %s\n# jit=%s\n%s" % (kv.get("raw"), jit, replay_line))
        return
    if oc.startswith("finished") or oc.startswith("error:"):
        stats["not_looping"].append((name, jit, oc))
        return
    if oc == "starved" or (oc == "hang" and kv.get("marked") == "0" and kv.get("requests") == "0"):
        # the harness ran out of time before the program reached its mark: no request was ever issued (the set-up part of the
        # program - e.g. building a list of 3 million elements - did not finish on a loaded machine): no verdict
        stats["starved"] += 1
        return
    if oc == "hang-parked" and "K17c" in known:
        stats["k17c"] += 1
        kf(ctx, "K17c", "id=K17c class=interrupt_between_its_two_stores_at_safepoint_exit replay=%s (shape %s, jit=%s: the evaluation "
           "thread parked for ever, cpu_ms=%s)" % (known["K17c"]["replay"], name, jit, kv.get("cpu_ms")))
        return
    lost = oc in ("lost-then-interrupted", "hang")
    if lost and "rounds" in tags and "K17a" in known and kv.get("probe", "ok") in ("ok", "skipped"):
        stats["k17a"] += 1
        kf(ctx, "K17a", "id=K17a class=interrupt_request_overlaps_own_stop_round replay=%s (shape %s, jit=%s: %s requests=%s)"
                          % (known["K17a"]["replay"], name, jit, oc, kv.get("requests")))
        return
    native_only = False
    if lost and jit == "true" and "K17b" in known and "nativeloop" in tags:
        # K17b by cause: native code contains no poll (table GenPolls, obligation native_back_edges_have_no_poll), so a loop
        # that the JIT has compiled to a native back-edge - a module-level self tail call, but also the lifted loop procedure of
        # a top-level `while` / named let once it has run often enough to be compiled - is not interrupted although the
        # controller holds the request; a natively compiled callback of a native iteration construct (for-each over a long
        # list) likewise runs to the end of the construct before anything polls (`lost-then-interrupted`).  Class predicate: the very same case line is interrupted at once with STEEL_JIT=false
        # (the request itself is delivered; only native code does not look).
        again = run_cases([replay_line], "false", 60)
        kv2 = next(iter(again.values()), {}) if again else {}
        native_only = kv2.get("outcome") == "interrupted" and kv2.get("probe") == "ok"
    if ((oc == "hang" and "modloop" in tags) or native_only) and jit == "true" and "K17b" in known:
        stats["k17b"] += 1
        kf(ctx, "K17b", "id=K17b class=jit_native_self_tail_loop replay=%s (shape %s: no request of %s got through)"
                          % (known["K17b"]["replay"], name, kv.get("requests")))
        return
    stats["viol"] += 1
    ctx.violation("C17-%s-jit%s.txt" % (name, jit),
                  "# C17 violation: interruption of a running script failed (expected `outcome=interrupted requests=1 probe=ok`)\n"
                  "# observed: %s\n# jit=%s\n%s" % (kv.get("raw"), jit, replay_line))


def forced(ctx, known, stats):
    """Deterministic replay of K17a through the yield points: the request is issued exactly before the thread's own
    resume() at the end of a global update; a loop without any further update follows."""
    d = os.path.join(C.VERIF, "corpus", "C17")
    res = []
    for fn in sorted(os.listdir(d)):
        if not fn.endswith(".sched"):
            continue
        text = open(os.path.join(d, fn)).read()
        exp = re.search(r"^# expect-spec: (.*)$", text, re.M)
        for jit in ("true", "false"):
            rc, so, se = C.run_bin([C.bin_path("c15")], text, timeout=40, env={"STEEL_JIT": jit})
            r = [l for l in so.splitlines() if l.startswith("result ")]
            line = r[-1] if r else "result outcome=crash:rc=%d" % rc
            timeouts = [l for l in so.splitlines() if l.startswith("timeout")]
            res.append((fn, jit, line, timeouts))
            stats["forced"] += 1
            delivered = "outcome=error:" in line and "Interrupted" in line
            if timeouts:
                stats["forced_unsched"].append((fn, jit, timeouts[0]))
                continue
            if delivered:
                stats["forced_delivered"] += 1
            elif "K17c" in known and fn.startswith("k17c") and "outcome=hang" in line:
                stats["k17c_forced"] += 1
                kf(ctx, "K17c", "id=K17c class=interrupt_between_its_two_stores_at_safepoint_exit replay=%s (forced schedule corpus/C17/%s, "
                   "jit=%s: the evaluation thread parked for ever)" % (known["K17c"]["replay"], fn, jit))
            elif "K17a" in known and fn.startswith("k17a"):
                stats["k17a_forced"] += 1
                kf(ctx, "K17a", "id=K17a class=interrupt_request_overlaps_own_stop_round replay=%s (forced schedule corpus/C17/%s, jit=%s: %s)"
                                  % (known["K17a"]["replay"], fn, jit, line.split()[1]))
            else:
                stats["viol"] += 1
                ctx.violation("C17-forced-%s-jit%s.txt" % (fn, jit),
                              "# forced schedule (harness c15): the interrupt was not delivered\n# %s\n%s" % (line, text))
    return res


def model_corpus(ctx, stats):
    """Model schedules of corpus/C17/*.msched on the driver: the verdict line must be the recorded one."""
    d = os.path.join(C.VERIF, "corpus", "C17")
    for fn in sorted(os.listdir(d)):
        if not fn.endswith(".msched"):
            continue
        text = open(os.path.join(d, fn)).read()
        exp = re.search(r"^# expect: (.*)$", text, re.M)
        rc, so, se = C.run_bin([C.driver_path("c17driver")], text, timeout=30)
        got = (so.strip().splitlines() or ["<none>"])[-1]
        stats["model_cases"] += 1
        if exp and exp.group(1).strip() != got.strip():
            stats["viol"] += 1
            ctx.violation("C17-model-%s.txt" % fn, "# model schedule verdict changed\n# expected: %s\n# got: %s\n%s" % (
                exp.group(1), got, text), no_input=True)


def run(ctx):
    _SEEN.clear()
    rnd = random.Random(ctx.seed * 7919 + 17)
    stats = {"cases": 0, "pass": 0, "viol": 0, "k17a": 0, "k17b": 0, "k17c": 0, "k17c_forced": 0, "starved": 0, "lat": [],
             "not_looping": [], "forced": 0,
             "forced_delivered": 0, "k17a_forced": 0, "forced_unsched": [], "model_cases": 0}
    known = {k["id"]: k for k in ctx.load_known()}
    # translate
    rc, out = C.sh(["python3", os.path.join(C.VERIF, "translate", "c16_callpaths.py")], timeout=120)
    if rc != 0:
        ctx.violation("C17-translator.txt", "translate/c16_callpaths.py failed (rc=%d):\n%s" % (rc, out[-2000:]), no_input=True)
    pr = C.prove(ctx, "C17", ["SteelVerif.C17.GenPolls", "c17driver"])
    ok, log = C.build_harness(ctx, [BIN, "c15"])
    if not ok:
        ctx.violation("C17-harness-build.txt", "the harness no longer builds against /repo:\n" + log, no_input=True)
        ctx.coverage = {"obligations": pr["obligations"], "discharged": pr["discharged"],
                        "checker_cmd": "lake build SteelVerif.C17.Props", "trusted_base": C.TRUSTED_BASE}
        return ctx.finish()
    write_module()
    model_corpus(ctx, stats)
    fres = forced(ctx, known, stats)

    shapes = QUICK_SHAPES if ctx.quick() else list(SHAPES)
    npos = 4 if ctx.quick() else 40
    bound = 400      # ms of CPU time of the evaluation thread (wall-clock cap 12x)
    jobs = []
    for name in shapes:
        prog, tags = SHAPES[name]
        for jit in ("true", "false"):
            lines = []
            for k in range(npos):
                delay = rnd.choice([0, 30, 120, 400, 900, 2500, 7000]) + rnd.randrange(0, 97)
                lines.append("case\t%s#%d\tmark\t%d\t%d\t%s\n" % (name, k, delay, bound, prog))
            jobs.append((name, tags, jit, lines))

    def work(job):
        name, tags, jit, lines = job
        return job, run_cases(lines, jit, timeout=90 + len(lines) * (26 * bound / 1000.0 + 4.0))

    for (name, tags, jit, lines), res in C.pool_map(work, jobs, workers=max(4, C.NCPU - 2)):
        for ln in lines:
            cid = ln.split("\t")[1]
            kv = res.get(cid, {"outcome": "missing", "raw": "no verdict"})
            classify(ctx, name, tags, jit, kv, known, stats, ln)
    # early requests: before / during compilation of the program
    early = []
    for name in ("self-tail", "map-cb-loop", "alloc-box"):
        prog = SHAPES[name][0]
        for k, d in enumerate((0, 50, 300)):
            early.append("case\t%s@early%d\tearly\t%d\t%d\t%s\n" % (name, k, d, bound, prog))
    for jit in ("true", "false"):
        res = run_cases(early, jit, timeout=400)
        for ln in early:
            cid = ln.split("\t")[1]
            classify(ctx, cid.split("@")[0], set(), jit, res.get(cid, {"outcome": "missing", "raw": "no verdict"}),
                     known, stats, ln)
    # the witnesses of the open findings must still fail (otherwise: note, the entry may be stale)
    for kid in ("K17a", "K17b"):
        if kid in known and known[kid]["replay"].endswith(".txt"):
            seen = stats["k17a"] + stats["k17a_forced"] if kid == "K17a" else stats["k17b"]
            if seen == 0:
                r = replay_file(os.path.join(C.VERIF, known[kid]["replay"]))
                bad = [v for v in r.values() if not (v.get("outcome") == "interrupted" and v.get("requests") == "1")]
                if bad:
                    kf(ctx, kid, "id=%s class=%s replay=%s (witness replay: %d of %d cases not delivered)"
                                      % (kid, known[kid].get("class"), known[kid]["replay"], len(bad), len(r)))
                else:
                    ctx.notes.append("open finding %s did not reproduce in this run (witness %s passes)" % (kid, known[kid]["replay"]))

    if not pr["ok"] and not ctx.violations:
        ctx.violation("C17-proof-broken.txt", "proof obligations of SteelVerif.C17 that no longer check:\n" + "\n".join(
            "%s: %s" % f for f in pr["failed"]) + "\n", no_input=True)
    lat = sorted(stats["lat"])
    ctx.coverage = {
        "obligations": pr["obligations"], "discharged": pr["discharged"],
        "checker_cmd": "cd lean && lake build SteelVerif.C17.Props SteelVerif.C17.GenPolls && lake env lean SteelVerif/C17/Audit.lean",
        "trusted_base": C.TRUSTED_BASE + ["sequentially consistent atomics (the code uses Relaxed)",
                                           "regex translator over jit2/cgen.rs and steel_vm/vm.rs"],
        "evaluations": stats["cases"] + stats["forced"] + stats["model_cases"],
        "distinct_nontrivial": len(shapes) * 2,
        "rule": "case = (looping shape, JIT on/off, request position); position = wall-clock delay (from {0,30,120,400,900,2500,7000} us + jitter, "
                "seeded by VERIF_SEED) after the script called (c17-mark!) inside its loop, plus 'early' requests before / during compilation; "
                "distinct non-trivial = shape x JIT (every shape loops for ever unless interrupted); forced = schedules of corpus/C17 replayed through the yield points",
        "samples": [j[3][0].strip() for j in jobs[:3]],
        "shapes": shapes, "positions_per_shape": npos,
        "delivered_after_one_request": stats["pass"],
        "latency_us_median": lat[len(lat) // 2] if lat else None, "latency_us_max": lat[-1] if lat else None,
        "known_K17a_cases": stats["k17a"], "known_K17a_forced": stats["k17a_forced"], "known_K17b_cases": stats["k17b"],
        "known_K17c_cases": stats["k17c"], "known_K17c_forced": stats["k17c_forced"],
        "cases_without_verdict_because_the_thread_was_starved": stats["starved"],
        "forced_schedules": stats["forced"], "forced_delivered": stats["forced_delivered"],
        "forced_not_schedulable": stats["forced_unsched"], "forced_results": [(a, b, c) for a, b, c, _ in fres],
        "model_schedules": stats["model_cases"],
        "shapes_that_did_not_loop": stats["not_looping"],
        "axioms": pr.get("axioms", {}), "proof_failures": ["%s: %s" % f for f in pr["failed"]],
    }
    ctx.assumptions = ["SC atomics", "single engine thread in the model",
                       "bound %d ms of CPU time of the evaluation thread per waiting period" % bound]
    return ctx.finish("proof")


def replay_file(path):
    text = open(path).read()
    write_module()
    for m in re.finditer(r"^module\t(\S+)\t(.*)$", text, re.M):
        with open(os.path.join(MODS, m.group(1)), "w") as f:
            f.write(m.group(2) + "\n")
    lines = [l + "\n" for l in text.splitlines() if l.startswith("case\t")]
    jm = re.search(r"^# jit=(\w+)", text, re.M)
    res = {}
    for jit in ([jm.group(1)] if jm else ["true", "false"]):
        r = run_cases(lines, jit, timeout=60 + 4 * len(lines))
        for k, v in r.items():
            res[k + "@jit" + jit] = v
    return res


def replay(ctx, path):
    C.build_harness(ctx, [BIN, "c15"])
    if path.endswith(".sched"):
        rc, so, se = C.run_bin([C.bin_path("c15")], open(path).read(), timeout=60)
        print(so)
        return 0
    for k, v in sorted(replay_file(path).items()):
        print(k, v.get("raw"))
    return 0
