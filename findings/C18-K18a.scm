;;! C18 case: shape=list op=hash-key size=200000
;;! stack=main bound=60
;;! verdict: (witness of finding K18a) — Hash for SteelVal recurses natively: a 2*10^5-deep list as hash-map key overflows the native stack (abort)
;;! model: hash_native_recursion
;;! replay: ./check C18 --replay <this file>   (pieces are separated by the line ;;;---)
(struct node (next) #:transparent)
(struct mnode (next) #:mutable #:transparent)
(define (nest-d n acc) (if (= n 0) acc (nest-d (- n 1) (list acc))))
(define d (nest-d 200000 0))

;;;---
(define h (hash d 1))
;;;---
(begin (simple-display "R ") (simple-display (hash-ref h d)) (newline))
