;; C04 K04d: the value returned by a finished native thread waits in the join handle (host data) until
;; thread-join!: a box returned by the thread is reclaimed and reused before it is joined.
;; Expected: (77).   Observed before the fix: (overwritten)
(define (total-slots) (let ((s (#%verif-heap-stats))) (+ (list-ref s 0) (list-ref s 4))))
(define (garbage n) (if (= n 0) 0 (begin (box 'overwritten) (mutable-vector 'overwritten 'overwritten) (garbage (- n 1)))))
(define th (spawn-native-thread (lambda () (box 77))))
(define (wait) (if (thread-finished? th) 0 (wait)))
(wait)
(#%verif-gc-every 1)
(garbage (+ 40 (total-slots)))
(define r (thread-join! th))
(list (unbox r))
