;;! C18 case: shape=closure op=mod-gc-dead size=100000
;;! stack=thread bound=30
;;! verdict: crash — process died rc=-6 at piece 0: stack overflow
;;! model: the model predicts no failure here
;;! replay: ./check C18 --replay <this file>   (pieces are separated by the line ;;;---)
;; module file /verif/.build/C18/mods/mee4bec4e5f031009.scm:
;;   (struct node (next) #:transparent)
;;   (struct mnode (next) #:mutable #:transparent)
;;   (define (nest-d n acc) (if (= n 0) acc (nest-d (- n 1) (let ((a acc)) (lambda () a)))))
;;   (define d (nest-d 100000 0))
;;   
;;   (set! d #f)
;;   (#%gc-collect)
;;   (begin (simple-display "R ") (simple-display "collected") (newline))
;;   
(require "/verif/.build/C18/mods/mee4bec4e5f031009.scm")
