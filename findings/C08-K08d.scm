; fixed: property=C08 0ad3663d (was finding K08d: a handler found on the outermost frame pushed a dummy frame that was never popped; the rest of the top-level form ran with a wrong stack base); kept as regression programs
(define (note x) x)
(note (+ 1 (call-with-exception-handler (lambda (e) 5) (lambda () (error "x")))))
;;;===
(define (note x) x)
(define (go) (let ((v (+ 1 (call-with-exception-handler (lambda (e) 0) (lambda () (error "x")))))) (note v) 0))
(go)
