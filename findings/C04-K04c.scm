;; C04 K04c: a box that has been sent through a channel and not yet received is reclaimed and reused.
;; The queue of a channel is host data (crossbeam_channel<SteelVal>): nothing marks the values in flight.
;; Expected: (1001).   Observed before the fix: (overwritten)   [needs the steel_verif hooks: a full
;; collection at every allocation; without them use (#%gc-collect) and ~30000 garbage allocations]
(define (total-slots) (let ((s (#%verif-heap-stats))) (+ (list-ref s 0) (list-ref s 4))))
(define (garbage n) (if (= n 0) 0 (begin (box 'overwritten) (mutable-vector 'overwritten 'overwritten) (garbage (- n 1)))))
(#%verif-gc-every 1)
(define chs (channels/new))
(channel/send (channels-sender chs) (box 1001))
(garbage (+ 40 (total-slots)))
(let ((x (channel/recv (channels-receiver chs)))) (list (unbox x)))
