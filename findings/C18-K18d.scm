;;! C18 case: shape=map-key op=equal-copy size=1000
;;! stack=thread bound=60
;;! verdict: (witness of finding K18d) — equal? on hash maps whose key is a hash map whose key is ... calls == natively once per level: 10^3 levels overflow a 2 MiB stack
;;! model: equal_key_reentry
;;! replay: ./check C18 --replay <this file>   (pieces are separated by the line ;;;---)
(struct node (next) #:transparent)
(struct mnode (next) #:mutable #:transparent)
(define (nest-d n acc) (if (= n 0) acc (nest-d (- n 1) (hash acc 1))))
(define d (nest-d 1000 0))

;;;---
(define (nest-e n acc) (if (= n 0) acc (nest-e (- n 1) (hash acc 1))))
(define e (nest-e 1000 0))

;;;---
(begin (simple-display "R ") (simple-display (equal? d e)) (newline))
