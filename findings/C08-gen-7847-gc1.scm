# configuration: gc1 {'STEEL_VERIF_GC_EVERY': '1'}
# real engine  : ('ok', ['24', '273', '(4 4 s6 in-w14 in-w14b in-w13 in-w12 out-w13 out-w13 h10 s15 in-w16 out-w16 s20 7)']) output=''
# specification: ('ok', ['24', '273', '(4 4 s6 in-w14 in-w14b in-w13 in-w12 out-w13 out-w14 h10 s15 in-w16 out-w16 s20 7)']) output='' events={'capture': 3, 'invoke': 2, 'leave': 1, 'reenter': 0, 'enter': 3, 'exit': 1, 'exit-error': 1, 'handled': 1, 'reset': 0, 'shift': 0, 'dinvoke': 0, 'd12': 0, 'mc-cross': 0, 'orphan-invoke': 0, 'raise-through-left-extent': 1, 'raw-invoke': 0}
# faithful variant (impl): ('ok', ['24', '273', '(4 4 s6 in-w14 in-w14b in-w13 in-w12 out-w13 out-w14 h10 s15 in-w16 out-w16 s20 7)'])
(define tr '())
(define (note x) (set! tr (cons x tr)) x)
(define budget 1)
(define (again?) (if (> budget 0) (begin (set! budget (- budget 1)) #t) #f))
(define g1 #f)
(define g2 #f)
(define g3 #f)
(define bx (box #f))
(define (f1 a2) (if (< (call/cc (lambda (k3) (begin (set! g2 k3) a2))) a2) (+ (begin (note 's4) a2) (dynamic-wind (lambda () (note 'in-w5)) (lambda () a2) (lambda () (note 'out-w5)))) (begin (note 's6) (let ((x7 a2)) a2))))
(define (f8 a9) a9)
(+ (f1 (note (note 4))) (with-handler (lambda (e) (begin (note 'h10) (f8 (begin 3 20)))) (dynamic-wind (lambda () (begin (note 'in-w14) (call/cc (lambda (k) (set! g3 k))) (note 'in-w14b))) (lambda () (dynamic-wind (lambda () (note 'in-w13)) (lambda () (dynamic-wind (lambda () (begin (note 'in-w12) (if (and (procedure? g3) (again?)) (g3 2) 0))) (lambda () (begin (note 's11) 10)) (lambda () (note 'out-w12)))) (lambda () (begin (note 'out-w13) (note (car 0)))))) (lambda () (note 'out-w14)))))
(begin (note 's15) (* (+ (dynamic-wind (lambda () (note 'in-w16)) (lambda () 1) (lambda () (note 'out-w16))) (with-handler (lambda (e) (begin (note 'h17) 0)) 2)) (let ((x18 (+ 3 10))) (call/cc (lambda (k19) (begin (set! g2 k19) (k19 x18))))) (begin (note 's20) (note 7))))
(reverse tr)
