# configuration: nojit {'STEEL_JIT': 'false'}
# real engine  : ('ok', ['5', '-1', '(in-w13 in-w12 in-w11 out-w11 out-w12 out-w13 s6 in-w3 out-w3 s6 in-w3 out-w3 1 in-w13 in-w12 in-w11 out-w11 out-w12)']) output=''
# specification: ('ok', ['5', '-1', '(in-w13 in-w12 in-w11 out-w11 out-w12 out-w13 s6 in-w3 out-w3 s6 in-w3 out-w3 1 in-w13 in-w12 in-w11 out-w11 out-w12 out-w13)']) output='' events={'capture': 1, 'invoke': 1, 'leave': 0, 'reenter': 3, 'enter': 5, 'exit': 8, 'exit-error': 0, 'handled': 0, 'reset': 0, 'shift': 0, 'dinvoke': 0, 'd12': 0, 'mc-cross': 1, 'orphan-invoke': 0}
# faithful variant (impl): ('ok', ['5', '-1', '(in-w13 in-w12 in-w11 out-w11 out-w12 out-w13 s6 in-w3 out-w3 s6 in-w3 out-w3 1 in-w13 in-w12 in-w11 out-w11 out-w12 out-w13)'])
(define tr '())
(define (note x) (set! tr (cons x tr)) x)
(define budget 3)
(define (again?) (if (> budget 0) (begin (set! budget (- budget 1)) #t) #f))
(define g1 #f)
(define g2 #f)
(define g3 #f)
(define bx (box #f))
(define (f1 a2) (dynamic-wind (lambda () (note 'in-w3)) (lambda () a2) (lambda () (note 'out-w3))))
(define (f4 a5) (begin (note 's6) (f1 (* a5 7 a5))))
(dynamic-wind (lambda () (note 'in-w13)) (lambda () (with-handler (lambda (e) (begin (note 'h7) (begin (note 's8) (with-handler (lambda (e) (begin (note 'h9) 2)) 5)))) (dynamic-wind (lambda () (note 'in-w12)) (lambda () (dynamic-wind (lambda () (note 'in-w11)) (lambda () (call/cc (lambda (k10) (begin (set! g3 k10) 5)))) (lambda () (note 'out-w11)))) (lambda () (note 'out-w12))))) (lambda () (note 'out-w13)))
(begin (note (begin (for-each (lambda (x14) (f4 x14)) (list 4 3)) 1)) (with-handler (lambda (e) (begin (note 'h15) (let loop ((i16 0) (acc17 20)) (if (< i16 2) (loop (+ i16 1) (note i16)) acc17)))) (let ((b18 (box -3))) (begin (set-box! b18 (+ (unbox b18) (if (and (procedure? g3) (again?)) (g3 -1) 5))) (unbox b18)))))
(reverse tr)
