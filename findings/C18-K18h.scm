;;! C18 case: shape=cycle:sbox op=display-port size=1
;;! stack=main bound=10
;;! verdict: (witness of finding K18h) — display of a strong box that contains itself never returns: CycleCollector::visit_boxed_value does not set found_mutable, so nothing is recorded
;;! model: cycle_collector_strong_box_cycle
;;! replay: ./check C18 --replay <this file>   (pieces are separated by the line ;;;---)
(struct node (next) #:transparent)
(struct mnode (next) #:mutable #:transparent)
(define d0 (box-strong 0))
(set-strong-box! d0 d0)
(define d d0)

;;;---
(define o (open-output-string))
(display d o)
(define s (get-output-string o))
;;;---
;;;host-string s
