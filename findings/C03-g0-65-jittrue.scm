;; C03 violation: generated program (minimised from 38 to 38 statements) (STEEL_JIT=true)
;; outcome of the real engine: ok 
;; abstract program (input of c03driver):
;;@ prog
;;@ def x1 list 1 2 3 4 5 6 7 8 9
;;@ def x2 tr-vec x1
;;@ def x3 vdrop x2 0
;;@ clo f4 x3
;;@ loop x5 vpush x3 6
;;@ spawn t6 c7 c8
;;@ recv t6_y1 c7
;;@ recv t6_y2 c8
;;@ def t6_x3 hash 3 t6_y1
;;@ def t6_x4 hins t6_x3 0 3
;;@ print t6_p1:x5 x5
;;@ print t6_p2:t6_y1 t6_y1
;;@ print t6_p3:t6_y2 t6_y2
;;@ print t6_p4:t6_x4 t6_x4
;;@ endspawn
;;@ def x9 vset x5 3 4
;;@ def x10 vpush x5 x5
;;@ def x11 cons 1 2
;;@ loop x12 vpushf x9 4
;;@ def x13 vec 7 8
;;@ print p1:x13 x13
;;@ print p2:x11 x11
;;@ print p3:x12 x12
;;@ print p4:x10 x10
;;@ def x14 vpushf x12 1
;;@ print p5:f4 %f4
;;@ print p6:x11 x11
;;@ print p7:x14 x14
;;@ print p8:x5 x5
;;@ def x15 vec->list %f4
;;@ def x16 cdr x11
;;@ def x17 vappend x13 x10
;;@ def x18 vrest x17
;;@ send c7 x5
;;@ print p9:x16 x16
;;@ print p10:x5 x5
;;@ print p11:x15 x15
;;@ print p12:x10 x10
;;@ send c8 x5
;;@ join t6
;;@ print p13:f4 %f4
;;@ print p14:x5 x5
;;@ print p15:x10 x10
;;@ print p16:x14 x14
;;@ print p17:x15 x15
;;@ print p18:x16 x16
;;@ print p19:x18 x18
;;@ endprog
;; expected output:
;;= p1:x13 #(7 8)
;;= p2:x11 (1 . 2)
;;= p3:x12 #(3 2 1 0 1 2 3 4 5 6 7 8 9 0 1 2 3 4 5)
;;= p4:x10 #(1 2 3 4 5 6 7 8 9 0 1 2 3 4 5 #(1 2 3 4 5 6 7 8 9 0 1 2 3 4 5))
;;= p5:f4 #(1 2 3 4 5 6 7 8 9)
;;= p6:x11 (1 . 2)
;;= p7:x14 #(1 3 2 1 0 1 2 3 4 5 6 7 8 9 0 1 2 3 4 5)
;;= p8:x5 #(1 2 3 4 5 6 7 8 9 0 1 2 3 4 5)
;;= p9:x16 2
;;= p10:x5 #(1 2 3 4 5 6 7 8 9 0 1 2 3 4 5)
;;= p11:x15 (1 2 3 4 5 6 7 8 9)
;;= p12:x10 #(1 2 3 4 5 6 7 8 9 0 1 2 3 4 5 #(1 2 3 4 5 6 7 8 9 0 1 2 3 4 5))
;;= t6_p1:x5 #(1 2 3 4 5 6 7 8 9 0 1 2 3 4 5)
;;= t6_p2:t6_y1 #(1 2 3 4 5 6 7 8 9 0 1 2 3 4 5)
;;= t6_p3:t6_y2 #(1 2 3 4 5 6 7 8 9 0 1 2 3 4 5)
;;= t6_p4:t6_x4 {0:3 3:#(1 2 3 4 5 6 7 8 9 0 1 2 3 4 5)}
;;= p13:f4 #(1 2 3 4 5 6 7 8 9)
;;= p14:x5 #(1 2 3 4 5 6 7 8 9 0 1 2 3 4 5)
;;= p15:x10 #(1 2 3 4 5 6 7 8 9 0 1 2 3 4 5 #(1 2 3 4 5 6 7 8 9 0 1 2 3 4 5))
;;= p16:x14 #(1 3 2 1 0 1 2 3 4 5 6 7 8 9 0 1 2 3 4 5)
;;= p17:x15 (1 2 3 4 5 6 7 8 9)
;;= p18:x16 2
;;= p19:x18 #(8 1 2 3 4 5 6 7 8 9 0 1 2 3 4 5 #(1 2 3 4 5 6 7 8 9 0 1 2 3 4 5))

(struct rec (a b))
(define (join-strs xs)
  (if (null? xs) "" (foldl (lambda (s acc) (string-append acc " " s)) (car xs) (cdr xs))))
(define (show x)
  (cond
    [(int? x) (number->string x)]
    [(string? x) (string-append "\"" x "\"")]
    [(void? x) "#v"]
    [(immutable-vector? x) (string-append "#(" (join-strs (map show (immutable-vector->list x))) ")")]
    [(mutable-vector? x) (string-append "#m(" (join-strs (map show (vector->list x))) ")")]
    [(null? x) "()"]
    [(list? x) (string-append "(" (join-strs (map show x)) ")")]
    [(pair? x) (string-append "(" (show (car x)) " . " (show (cdr x)) ")")]
    [(hash? x)
     (string-append "{" (join-strs (map (lambda (k) (string-append (show k) ":" (show (hash-ref x k))))
                                        (sort (hash-keys->list x) <))) "}")]
    [(set? x) (string-append "#{" (join-strs (map show (sort (hashset->list x) <))) "}")]
    [(rec? x) (string-append "[" (show (rec-a x)) " " (show (rec-b x)) "]")]
    [else "?"]))
(define (P tag x) (display tag) (display " ") (display (show x)) (newline))
(define (PT out tag x) (set-box! out (cons (string-append tag " " (show x)) (unbox out))))
(define (idf x) x)
(define (mk-thunk v) (lambda () v))

(define (w-hins a0 a1 a2) (hash-insert a0 a1 a2))
(define (w-vdrop a0 a1) (immutable-vector-drop a0 a1))
(define (w-vset a0 a1 a2) (immutable-vector-set a0 a1 a2))
(define x1 (list 1 2 3 4 5 6 7 8 9))
(define x2 (transduce x1 (mapping (lambda (e) e)) (into-vector)))
(define x3 (w-vdrop x2 0))
(define f4 (mk-thunk x3))
(define x5 (let loop ((i 0) (acc x3)) (if (< i 6) (loop (+ i 1) (immutable-vector-push acc i)) acc)))
(define c7 (channels/new))
(define c8 (channels/new))
(define t6 (spawn-native-thread (lambda ()
    (let ((out (box '())))
      (define t6_y1 (channel/recv (channels-receiver c7)))
      (define t6_y2 (channel/recv (channels-receiver c8)))
      (define t6_x3 (hash 3 t6_y1))
      (define t6_x4 (w-hins t6_x3 0 3))
      (PT out "t6_p1:x5" x5)
      (PT out "t6_p2:t6_y1" t6_y1)
      (PT out "t6_p3:t6_y2" t6_y2)
      (PT out "t6_p4:t6_x4" t6_x4)
      (reverse (unbox out))
    ))))
(define x9 (w-vset x5 3 4))
(define x10 (immutable-vector-push x5 x5))
(define x11 (cons 1 2))
(define x12 (let loop ((i 0) (acc x9)) (if (< i 4) (loop (+ i 1) (vector-push-front acc i)) acc)))
(define x13 (immutable-vector 7 8))
(P "p1:x13" x13)
(P "p2:x11" x11)
(P "p3:x12" x12)
(P "p4:x10" x10)
(define x14 ((lambda () (vector-push-front x12 1))))
(P "p5:f4" (f4))
(P "p6:x11" x11)
(P "p7:x14" x14)
(P "p8:x5" x5)
(define x15 (let ((tmp (f4))) (immutable-vector->list tmp)))
(define x16 (cdr x11))
(define x18 (immutable-vector-rest (immutable-vector-append x13 x10)))
(channel/send (channels-sender c7) x5)
(P "p9:x16" x16)
(P "p10:x5" x5)
(P "p11:x15" x15)
(P "p12:x10" x10)
(channel/send (channels-sender c8) x5)
(for-each (lambda (l) (display l) (newline)) (thread-join! t6))
(P "p13:f4" (f4))
(P "p14:x5" x5)
(P "p15:x10" x10)
(P "p16:x14" x14)
(P "p17:x15" x15)
(P "p18:x16" x16)
(P "p19:x18" x18)
#t

