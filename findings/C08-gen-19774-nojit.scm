# configuration: nojit {'STEEL_JIT': 'false'}
# real engine  : ('err', 'TypeMismatch | Error: TypeMismatch: car expected a list or pair, found: 5') output=''
# specification: ('ok', ['20', '20', '(s7 s8 h10 in-w15 out-w15)']) output='' events={'capture': 8, 'invoke': 0, 'leave': 0, 'reenter': 0, 'enter': 1, 'exit': 1, 'exit-error': 0, 'handled': 1, 'reset': 0, 'shift': 0, 'dinvoke': 0, 'd12': 0, 'mc-cross': 0, 'orphan-invoke': 0}
# faithful variant (impl): ('ok', ['20', '20', '(s7 s8 h10 in-w15 out-w15)'])
(define tr '())
(define (note x) (set! tr (cons x tr)) x)
(define budget 3)
(define (again?) (if (> budget 0) (begin (set! budget (- budget 1)) #t) #f))
(define g1 #f)
(define g2 #f)
(define g3 #f)
(define bx (box #f))
(define (f1 a2) (call/cc (lambda (k3) (let ((x4 a2)) 20))))
(define (lp5 n acc) (if (<= n 0) acc (lp5 (- n 1) (call/cc (lambda (k6) n)))))
(define v9 (begin (note 's7) (begin (note 's8) (f1 0))))
(with-handler (lambda (e) (begin (note 'h10) (f1 (with-handler (lambda (e) (begin (note 'h11) v9)) 0)))) (apply + (transduce (list -1 2) (mapping (lambda (x12) (car 5))) (into-list))))
(define v16 (- (- (call/cc (lambda (k13) 2)) (f1 v9)) (dynamic-wind (lambda () (note 'in-w15)) (lambda () (let ((x14 20)) x14)) (lambda () (note 'out-w15)))))
(let loop ((i17 0) (acc18 v9)) (if (< i17 2) (loop (+ i17 1) (call/cc (lambda (k19) (call/cc (lambda (k20) (begin (set! g1 k20) 20)))))) acc18))
(reverse tr)
