;;! C18 case: shape=cycle:mstruct op=display-port size=1
;;! stack=thread bound=12
;;! verdict: (witness of finding K18k) — display of a mutable struct whose field contains the struct never returns on a 2 MiB thread (timeout) and ends in an error value after ~100 s of CPU on the main thread: the cycle collector records nothing before the first mutable object (the struct itself is not labelled, only the slot of its field, which the prelude's printer never sees)
;;! model: cycle_collector_untracked_before_mutable
;;! replay: ./check C18 --replay <this file>   (pieces are separated by the line ;;;---)
(struct node (next) #:transparent)
(struct mnode (next) #:mutable #:transparent)
(define d0 (mnode 0))
(set-mnode-next! d0 d0)
(define d d0)

;;;---
(define o (open-output-string))
(display d o)
(define s (get-output-string o))
;;;---
;;;host-string s
