;;! C18 case: shape=pair-car op=drop size=100000
;;! stack=thread bound=60
;;! verdict: (witness of finding K18f) — Pair, strong boxes, closures and hash sets have no Drop impl that starts the iterative drop handler: dropping a 10^5 chain of pairs overflows a 2 MiB stack (10^6: 8 MiB)
;;! model: drop_native_recursion
;;! replay: ./check C18 --replay <this file>   (pieces are separated by the line ;;;---)
(struct node (next) #:transparent)
(struct mnode (next) #:mutable #:transparent)
(define (nest-d n acc) (if (= n 0) acc (nest-d (- n 1) (cons acc 1))))
(define d (nest-d 100000 0))

;;;---
(set! d #f)
;;;---
(begin (simple-display "R ") (simple-display "dropped") (newline))
