;;! C18 case: shape=closure op=drop size=100000
;;! stack=thread bound=30
;;! verdict: (witness of finding K18f) — closure captures and strong boxes have no Drop impl that starts IterativeDropHandler: dropping (or engine teardown with) a 10^5 chain of closures overflows a 2 MiB stack, 10^6 an 8 MiB stack
;;! model: drop_native_recursion
;;! replay: ./check C18 --replay <this file>   (pieces are separated by the line ;;;---)
(struct node (next) #:transparent)
(struct mnode (next) #:mutable #:transparent)
(define (nest-d n acc) (if (= n 0) acc (nest-d (- n 1) (let ((a acc)) (lambda () a)))))
(define d (nest-d 100000 0))

;;;---
(set! d #f)
;;;---
(begin (simple-display "R ") (simple-display "dropped") (newline))
