;;! C18 case: shape=list op=serialize size=100000
;;! stack=main bound=60
;;! verdict: (witness of finding K18e) — serialize-value (into_serializable_value) recurses natively: a 10^5-deep list overflows the native stack
;;! model: serialize_native_recursion
;;! replay: ./check C18 --replay <this file>   (pieces are separated by the line ;;;---)
(struct node (next) #:transparent)
(struct mnode (next) #:mutable #:transparent)
(define (nest-d n acc) (if (= n 0) acc (nest-d (- n 1) (list acc))))
(define d (nest-d 100000 0))

;;;---
(define s (serialize-value d))
;;;---
(begin (simple-display "R ") (simple-display "serialized") (newline))
