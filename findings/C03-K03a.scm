;; C03 finding K03a (open): the result of `append` with an empty first operand is wrong.
;; (append '() xs), where xs was itself produced by appending a short list in front of a list of >= 8 elements,
;; returns '() instead of xs: "every functional update returns a value equal to the update applied to a fresh copy"
;; fails.  No holder observes a change (xs itself is intact); STEEL_JIT does not matter; no aliasing is needed.
;; Cause: im-lists 0.12.1 unrolled.rs, FromIterator<UnrolledList> (used by UnrolledList::append): see the report.
;; class predicate (checks/c03.py in_class_k03a): some append / append3 / (extending ..) is evaluated with an empty
;; first operand.
;; replay: ./check C03 --replay findings/C03-K03a.scm
;;= r (1 1 2 3 4 5 6 7 8)
;;= xs (1 1 2 3 4 5 6 7 8)
;;= s (1 2 3 4 5 6 7 8)
(define xs (append (list 1) (list 1 2 3 4 5 6 7 8)))
(P "r" (append (list) xs))
(P "xs" xs)
(P "s" (append (list) (list 1 2 3 4 5 6 7 8)))
