;; C19 K19b (class weak_box_slot_reused): a weak box whose target was collected first reports #false and,
;; once the allocator has handed its private slot to another allocation, reports that unrelated value.
;; Expected: (#false #false).   Observed: (#false other2)
;; (uses the steel_verif hooks: a full collection at every allocation, no growth, so the freed slot is
;;  reused after one trip of the cursor around the 256 initial slots)
(#%verif-gc-every 1)
(define w2 (make-weak-box 11))
(define a (box 'other1))
(define r1 (weak-box-value w2))
(define keep (map (lambda (i) (box 'other2)) (range 0 400)))
(#%verif-gc-every 0)
(list r1 (weak-box-value w2))
