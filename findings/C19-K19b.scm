;; C19 K19b (class weak_box_slot_reused): a weak box whose target was collected first reports #false and,
;; once the allocator has handed its private slot to another allocation, reports that unrelated value.
;; Expected: #false #false.   Observed: #false other2
(define w2 (make-weak-box 11))
(#%gc-collect)
(weak-box-value w2)
(define keep2 (let loop ((n 60000) (acc '())) (if (= n 0) acc (loop (- n 1) (cons (box 'other2) acc)))))
(weak-box-value w2)
