# configuration: gc1 {'STEEL_VERIF_GC_EVERY': '1'}
# real engine  : ('err', 'Generic | Error: Generic:  e8') output=''
# specification: ('ok', ['3', '(h4)']) output='' events={'capture': 1, 'invoke': 1, 'leave': 0, 'reenter': 0, 'enter': 0, 'exit': 0, 'exit-error': 0, 'handled': 1, 'reset': 0, 'shift': 0, 'dinvoke': 0, 'd12': 0, 'mc-cross': 0, 'orphan-invoke': 0}
# faithful variant (impl): ('ok', ['3', '(h4)'])
(define tr '())
(define (note x) (set! tr (cons x tr)) x)
(define budget 2)
(define (again?) (if (> budget 0) (begin (set! budget (- budget 1)) #t) #f))
(define g1 #f)
(define g2 #f)
(define g3 #f)
(define bx (box #f))
(define (lp1 n acc) (if (<= n 0) acc (lp1 (- n 1) (if (< (begin (note 's2) (note n)) acc) (* (if (and (procedure? g3) (again?)) (g3 3) n) (begin n acc)) (call/cc (lambda (k3) (begin (set! g2 k3) (+ 1 (k3 n)))))))))
(with-handler (lambda (e) (begin (note 'h4) (call/cc (lambda (k5) (begin (set-box! bx k5) (note (k5 3))))))) (apply + (transduce (list 3 -3 1) (mapping (lambda (x6) (let ((b7 (box 5))) (begin (set-box! b7 (+ (unbox b7) (error "e8"))) (unbox b7))))) (into-list))))
(reverse tr)
