; finding: property=C08 id=K08b class=control_crosses_reset_or_with_handler_other_than_by_return_or_shift replay=findings/C08-K08b.scm stdlib.scm implements reset/shift (and with-handler = reset + call-with-exception-handler + shift) with ONE mutable meta-continuation cell that is not restored when an error leaves a reset and not saved/restored by call/cc continuations: escaping out of a with-handler/reset body with a continuation leaves a stale cell (the enclosing reset later returns through the inner one: side effects run twice), re-entering a with-handler body after it returned raises "You forgot the top-level reset...", an error raised by the handler of a with-handler leaves a stale cell
(define tr '())
(define (note x) (set! tr (cons x tr)) x)
(define (f) (reset (begin (call/cc (lambda (k) (with-handler (lambda (e) 0) (k 1)))) (note 'x) 5)))
(f)
(reverse tr)
;;;===
(define tr '())
(define (note x) (set! tr (cons x tr)) x)
(define g2 #f)
(define n 0)
(begin (note 20) (with-handler (lambda (e) (begin (note 'h1) 0)) (call/cc (lambda (k4) (begin (set! g2 k4) 4)))))
(if (< n 2) (begin (set! n (+ n 1)) (g2 (+ n 10))) 'done)
(reverse tr)
