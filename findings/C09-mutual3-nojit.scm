; STEEL_JIT=False ; stack depth grew with the iteration count: (frames, operands) = (2, 5) near the end vs (1, 2) near the start
(define d1 #f) (define d2 #f) (define (probe i) (cond [(= i 999993) (set! d1 (#%verif-stack-depth))] [(= i 7) (set! d2 (#%verif-stack-depth))] [else #f]))
(define (f0 i acc) (probe i) (if (= i 0) acc (f1 (- i 1) (+ acc 1))))
(define (f1 i acc) (probe i) (if (= i 0) acc (f2 (- i 1) (+ acc 1))))
(define (f2 i acc) (probe i) (if (= i 0) acc (f0 (- i 1) (+ acc 1))))
(define r (f0 1000000 0))
(list r d1 d2)
