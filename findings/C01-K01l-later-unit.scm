# finding: K01l (later-unit part)
# one evaluation per piece on one engine; real engine: old, reference semantics: new
(define (f n) (if (= n 0) 'old (f (- n 1))))
;;;---
(define g f)
;;;---
(set! f (lambda (n) 'new))
;;;---
(g 3)
