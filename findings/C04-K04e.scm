;; C04 K04e: what a transducer pipeline has produced so far is held by the reducer's accumulator (a Rust
;; local of VmCore::into_value: `iter.collect::<Result<List<_>>>()`, also into-vector / into-hashmap /
;; into-hashset / into-last / into-nth / the window buffer) while the callback of a later element runs.
;; That accumulator is not a root: a full collection started inside a callback frees every mutable object
;; accumulated so far; the slots are handed out again (boxes) or emptied (mutable vectors).
;; No hook is needed.  Piece 1: explicit collection request inside the third callback, then 300 allocations.
;; Piece 2: no request at all - 60000 elements, the collector's own policy (second full collection of the vector list).
;; Expected: (1 2 3) and (60000 0).   Observed: (x x 3) and (60000 9326) [9326 results hold another element's contents].
(define l (transduce (list 1 2 3) (mapping (lambda (i) (let ((v (mutable-vector i))) (if (= i 3) (#%gc-collect) 0) v))) (into-list)))
(define (churn n) (if (= n 0) 0 (begin (mutable-vector 'x) (churn (- n 1)))))
(churn 300)
(map (lambda (v) (mut-vector-ref v 0)) l)
;;;---
(define l2 (transduce (range 0 60000) (mapping (lambda (i) (mutable-vector i (+ i 1)))) (into-list)))
(define (bad lst k acc) (if (null? lst) acc (bad (cdr lst) (+ k 1) (if (and (= (vector-length (car lst)) 2) (equal? (mut-vector-ref (car lst) 0) k)) acc (+ acc 1)))))
(list (length l2) (bad l2 0 0))
;; expect-last: (60000 0)
