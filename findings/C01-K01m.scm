# finding: K01m
# Host panic "Deprecated now - this shouldn't be hit" (steel_vm/vm.rs alloc_handler / read_alloc_handler /
# set_alloc_handler are `panic!`).  The compiler still emits ALLOC / SETALLOC / READALLOC: f3 assigns its parameter and is
# inlined into the lambda inside mk10; the let binding p5 to p11 is removed (K01g), so the callee's set! lands on mk10's
# parameter p11, which the inner lambda captures; captured + assigned after the boxing pass has run => the code
# generator falls back to the deprecated heap-allocation op codes, and running mk10 panics (JIT on and off).
# real engine: panic     reference semantics: 96
(define (f3 p5) (set! p5 100) p5)
(define (mk10 p11) (lambda (p12) (- (f3 p11) p12)))
(define k (car (map mk10 (list 3))))
(k 4)
