; fixed: property=C08 1d871460 (was finding K08f: an error raised inside the callback of a native higher-order built-in (transduce …) never reached the enclosing handler: the unwind loop of the nested interpreter instance dropped a frame of the enclosing instance and returned without restoring pop_count); kept as regression programs
(define tr '())
(define (note x) (set! tr (cons x tr)) x)
(define (f) (+ 1 (with-handler (lambda (e) (note 'handled) 0) (length (transduce (list 1 2) (mapping (lambda (x) (note x) (error "e8"))) (into-list))))))
(f)
(reverse tr)
;;;===
(define (f) (+ 1 (call-with-exception-handler (lambda (e) 0) (lambda () (length (transduce (list 1) (mapping (lambda (x) (car 5))) (into-list)))))))
(f)
