; finding: property=C08 id=K08f class=error_raised_inside_native_higher_order_callback replay=findings/C08-K08f.scm an error raised inside the callback of a native higher-order built-in (transduce …) never reaches the enclosing handler: (with-handler (lambda (e) 0) (transduce (list 1) (mapping (lambda (x) (error "e8"))) (into-list))) ends the program with the error instead of yielding 0 (same with call-with-exception-handler, inside procedures, for primitive errors like (car 5)); the unwinding loop of the nested interpreter instance (call_with_instructions_and_reset_state) pops a frame and then returns Err early (`if self.pop_count == 0 { return Err(e) }`) without restoring ip/instructions/pop_count/sp of the enclosing instance, whose own loop then sees pop_count == 0 and gives up; with map / for-each / foldl / filter (written in Scheme) the handler runs
(define tr '())
(define (note x) (set! tr (cons x tr)) x)
(define (f) (+ 1 (with-handler (lambda (e) (note 'handled) 0) (length (transduce (list 1 2) (mapping (lambda (x) (note x) (error "e8"))) (into-list))))))
(f)
(reverse tr)
;;;===
(define (f) (+ 1 (call-with-exception-handler (lambda (e) 0) (lambda () (length (transduce (list 1) (mapping (lambda (x) (car 5))) (into-list)))))))
(f)
