;;! C18 case: shape=closure op=mod-drop size=1000000
;;! stack=thread bound=90
;;! verdict: crash — process died rc=-6 at piece 0: stack overflow
;;! model: the model predicts no failure here
;;! replay: ./check C18 --replay <this file>   (pieces are separated by the line ;;;---)
;; module file /verif/.build/C18/mods/mf15c6bba5cc381b7.scm:
;;   (struct node (next) #:transparent)
;;   (struct mnode (next) #:mutable #:transparent)
;;   (define (nest-d n acc) (if (= n 0) acc (nest-d (- n 1) (let ((a acc)) (lambda () a)))))
;;   (define d (nest-d 1000000 0))
;;   
;;   (set! d #f)
;;   (begin (simple-display "R ") (simple-display "dropped") (newline))
;;   
(require "/verif/.build/C18/mods/mf15c6bba5cc381b7.scm")
