;;! C18 case: shape=wide-set op=equal-diff size=1000000
;;! stack=main bound=90
;;! verdict: wrong — expected '#false', got '#true'
;;! model: the model predicts no failure here
;;! replay: ./check C18 --replay <this file>   (pieces are separated by the line ;;;---)
(struct node (next) #:transparent)
(struct mnode (next) #:mutable #:transparent)
(define (fill-d i m) (if (= i 1000000) m (fill-d (+ i 1) (hashset-insert m i))))
(define d (fill-d 0 (hashset 'x 7)))

;;;---
(define (fill-e i m) (if (= i 1000000) m (fill-e (+ i 1) (hashset-insert m i))))
(define e (fill-e 0 (hashset 'x 5)))

;;;---
(begin (simple-display "R ") (simple-display (equal? d e)) (newline))
