# finding: K01l
# A self tail call inside a top-level procedure is compiled to TCOJMP ("jump to the start of the closure running in this
# frame"), also when the procedure's own name is assigned in the same program (even in the same compilation unit):
# the old closure, still reachable through another variable, keeps calling itself instead of the new value of f.
# real engine: old      reference semantics: new
# (the non-tail variant (+ 0 (f (- n 1))) is compiled to CALLGLOBAL and gives the new value)
(define (f n) (if (= n 0) 'old (f (- n 1))))
(define g f)
(set! f (lambda (n) 'new))
(g 3)
