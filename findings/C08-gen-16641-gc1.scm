# configuration: gc1 {'STEEL_VERIF_GC_EVERY': '1'}
# real engine  : ('ok', ['42', '4', '(in-w13 in-w12 2 in-w11 in-w10 out-w10 out-w11 out-w12 -1 out-w13 h5 s6 s18)']) output=''
# specification: ('ok', ['5', '4', '(in-w13 in-w12 2 in-w11 in-w10 out-w10 out-w11 out-w12 -1 out-w13 s18)']) output='' events={'capture': 1, 'invoke': 1, 'leave': 4, 'reenter': 0, 'enter': 4, 'exit': 0, 'exit-error': 0, 'handled': 0, 'reset': 0, 'shift': 0, 'dinvoke': 0, 'd12': 0, 'mc-cross': 1, 'orphan-invoke': 0, 'raise-through-left-extent': 0, 'raw-invoke': 0}
# faithful variant (impl): ('ok', ['5', '4', '(in-w13 in-w12 2 in-w11 in-w10 out-w10 out-w11 out-w12 -1 out-w13 out-w10 out-w11 out-w12 -1 out-w13 s18)'])
(define tr '())
(define (note x) (set! tr (cons x tr)) x)
(define budget 1)
(define (again?) (if (> budget 0) (begin (set! budget (- budget 1)) #t) #f))
(define g1 #f)
(define g2 #f)
(define g3 #f)
(define bx (box #f))
(define (f1 a2) (if (< a2 a2) (note (let ((b3 (box a2))) (begin (set-box! b3 (+ (unbox b3) -1)) (unbox b3)))) (begin (* a2 a2) (call-with-exception-handler (lambda (e) (begin (note 'h4) a2)) (lambda () a2)))))
(with-handler (lambda (e) (begin (note 'h5) (* (begin (note 's6) (+ 2 3 1)) (f1 (call-with-exception-handler (lambda (e) (begin (note 'h7) 7)) (lambda () 7)))))) (call/cc (lambda (k8) (begin (set-box! bx k8) (dynamic-wind (lambda () (note 'in-w13)) (lambda () (dynamic-wind (lambda () (begin (note 'in-w12) (note 2))) (lambda () (dynamic-wind (lambda () (note 'in-w11)) (lambda () (dynamic-wind (lambda () (note 'in-w10)) (lambda () (with-handler (lambda (e) (begin (note 'h9) (k8 3))) (k8 5))) (lambda () (note 'out-w10)))) (lambda () (note 'out-w11)))) (lambda () (begin (note 'out-w12) (note -1))))) (lambda () (note 'out-w13)))))))
(if (< (with-handler (lambda (e) (begin (note 'h14) (apply + (map (lambda (x15) (call/cc (lambda (k16) (k16 x15)))) (list 2 -1))))) (* (begin (for-each (lambda (x17) 5) (list 20 0 3 4)) 2) (begin (note 's18) 1) (f1 -1))) 10) 4 (let ((b19 (box -3))) (begin (set-box! b19 (+ (unbox b19) (+ (dynamic-wind (lambda () (note 'in-w20)) (lambda () 1) (lambda () (note 'out-w20))) (f1 1)))) (unbox b19))))
(reverse tr)
