# configuration: nojit {'STEEL_JIT': 'false'}
# real engine  : ('err', 'Generic | Error: Generic:  e12') output=''
# specification: ('ok', ['20', '2', '(in-w8 s7 out-w8 out-w8b h9 2)']) output='' events={'capture': 2, 'invoke': 0, 'leave': 0, 'reenter': 0, 'enter': 1, 'exit': 1, 'exit-error': 0, 'handled': 1, 'reset': 0, 'shift': 0, 'dinvoke': 0, 'd12': 0, 'mc-cross': 0, 'orphan-invoke': 0}
# faithful variant (impl): ('ok', ['20', '2', '(in-w8 s7 out-w8 out-w8b h9 2)'])
(define tr '())
(define (note x) (set! tr (cons x tr)) x)
(define budget 2)
(define (again?) (if (> budget 0) (begin (set! budget (- budget 1)) #t) #f))
(define g1 #f)
(define g2 #f)
(define g3 #f)
(define bx (box #f))
(define (f1 a2) (let ((x3 (call/cc (lambda (k4) a2)))) (let ((b5 (box x3))) (begin (set-box! b5 (+ (unbox b5) x3)) (unbox b5)))))
(dynamic-wind (lambda () (note 'in-w8)) (lambda () (if (< (call/cc (lambda (k6) (begin (set! g2 k6) 1))) 2) (begin (note 's7) 20) (begin -1 3))) (lambda () (begin (note 'out-w8) (call/cc (lambda (k) (set! g1 k))) (note 'out-w8b))))
(with-handler (lambda (e) (begin (note 'h9) (note (let ((b10 (box 3))) (begin (set-box! b10 (+ (unbox b10) -1)) (unbox b10)))))) (apply + (transduce (list 5 20 1) (mapping (lambda (x11) (error "e12"))) (into-list))))
(reverse tr)
