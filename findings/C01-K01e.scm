# finding: K01e
# a body that mixes expressions and internal defines, one of which is a lambda expression that refers to
# another internal define: all right-hand sides are evaluated before the interleaved expressions
(define g #f)
(define (main) (define x1 (list 1 2)) (display "a") (set! g x1) (define f7 (lambda () x1)) (define x9 (car g)) x9)
(main)
