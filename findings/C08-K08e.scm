; finding: property=C08 id=K08e class=continuation_captured_or_invoked_inside_native_higher_order_callback replay=findings/C08-K08e.scm callbacks of native higher-order built-ins (transduce …) run in a nested interpreter instance (call_with_instructions_and_reset_state): a continuation captured there only has the extent of that instance; re-entering it after the built-in returned makes the CURRENT top-level form return the passed value, invoking a stored continuation from inside the callback panics "attempt to subtract with overflow" (vm.rs call_builtin_func) or continues the outer computation inside the nested instance
(define tr '())
(define (note x) (set! tr (cons x tr)) x)
(define g1 #f)
(define n 0)
(define (go) (apply + (transduce (list 7 4) (mapping (lambda (x) (call/cc (lambda (k) (begin (if (= x 7) (set! g1 k) 0) (note x)))))) (into-list))))
(note (go))
(if (< n 1) (begin (set! n (+ n 1)) (g1 10)) 'done)
(reverse tr)
