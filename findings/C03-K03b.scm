;; C03 K03b — a spawned thread intermittently reads a global (a built-in, or a variable defined BEFORE the spawn) as
;; undefined / #<void> while the main thread defines further globals
;; class = spawn_overlaps_global_definition   (root cause: the late registration of K15b, property C15)
;;   The main thread spawns a thread and goes on with top-level `define`s.  Each `define` is a world-stopping round
;;   (stop_threads / call_per_ctx(default_env) / thunk / call_per_ctx(update_env)).  spawn_native_thread starts the OS
;;   thread before it registers the child; a child that becomes known to the stopper in the middle of a round has its
;;   global table swapped for the default (empty) one WHILE IT RUNS.  Symptoms in the child, all seen on the pinned tree:
;;     STEEL_JIT=true  : Error: Generic: Error: BadSyntax: Function application not a procedure or function type not supported: #<void>
;;     STEEL_JIT=false : Error: FreeIdentifier: Cannot reference an identifier before its definition: channel/recv
;;                       Error: Generic: free identifier: c10
;;   No immutable value changes; the program aborts with an error instead of printing what S says.
;; rates (64 processes x 30..40 runs each in parallel on a loaded 16-core machine):
;;   this program            STEEL_JIT=true 23 / 1920     STEEL_JIT=false 2 / 2560
;;   without the three defines after the spawn                          0 / 1920
;;   found by ./check C03 (generated program g0-515, 2 threads, 1 failure in 1200 runs; minimised by hand)
;; replay: run this file >= 2000 times in parallel (python3 /verif/.build/C03/stress.py <file> true); a single run almost always passes
;; expected output:
;;= (1 (1 2))
(define x7 (list 1 2))
(define c10 (channels/new))
(define t9 (spawn-native-thread (lambda ()
    (let ((y1 (channel/recv (channels-receiver c10))))
        (list (car x7) y1)))))
(define x15 (hash 5 x7))
(define x17 (list 3))
(define x18 (list 4))
(channel/send (channels-sender c10) x7)
(display (thread-join! t9))
(newline)
