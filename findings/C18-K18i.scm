;;! C18 case: shape=dag op=gc-live size=64
;;! stack=main bound=10
;;! verdict: (witness of finding K18i) — the marker has no visited mark for immutable containers: a list built by 64 doublings (list x x) is walked 2^64 times by every full collection
;;! model: mark_shared_immutable_exponential
;;! replay: ./check C18 --replay <this file>   (pieces are separated by the line ;;;---)
(struct node (next) #:transparent)
(struct mnode (next) #:mutable #:transparent)
(define (nest-d n acc) (if (= n 0) acc (nest-d (- n 1) (list acc acc))))
(define d (nest-d 64 (list 0)))

;;;---
(#%gc-collect)
;;;---
(begin (simple-display "R ") (simple-display (equal? d d)) (newline))
