# configuration: nojit {'STEEL_JIT': 'false'}
# real engine  : ('ok', ['-3', '0', '7', '(in-w4 in-w3 out-w3 out-w4 in-w4 in-w3 out-w3 out-w4 in-w4 in-w3 out-w3 out-w4 in-w4 in-w3 out-w3 out-w4 in-w6 in-w6b out-w6 h5 in-w6b out-w6 s13)']) output=''
# specification: ('ok', ['-3', '-3', '7', '(in-w4 in-w3 out-w3 out-w4 in-w4 in-w3 out-w3 out-w4 in-w4 in-w3 out-w3 out-w4 in-w4 in-w3 out-w3 out-w4 in-w6 in-w6b out-w6 out-w6 h5 s13)']) output='' events={'capture': 3, 'invoke': 1, 'leave': 1, 'reenter': 0, 'enter': 9, 'exit': 8, 'exit-error': 1, 'handled': 1, 'reset': 0, 'shift': 0, 'dinvoke': 0, 'd12': 0, 'mc-cross': 0, 'orphan-invoke': 0}
# faithful variant (impl): ('ok', ['-3', '-3', '7', '(in-w4 in-w3 out-w3 out-w4 in-w4 in-w3 out-w3 out-w4 in-w4 in-w3 out-w3 out-w4 in-w4 in-w3 out-w3 out-w4 in-w6 in-w6b out-w6 out-w6 h5 s13)'])
(define tr '())
(define (note x) (set! tr (cons x tr)) x)
(define budget 3)
(define (again?) (if (> budget 0) (begin (set! budget (- budget 1)) #t) #f))
(define g1 #f)
(define g2 #f)
(define g3 #f)
(define bx (box #f))
(begin (for-each (lambda (x1) (dynamic-wind (lambda () (note 'in-w4)) (lambda () (dynamic-wind (lambda () (note 'in-w3)) (lambda () (with-handler (lambda (e) (begin (note 'h2) x1)) 2)) (lambda () (begin (note 'out-w3) (if (and (procedure? g2) (again?)) (g2 x1) 0))))) (lambda () (note 'out-w4)))) (list 0 0 10 20)) -3)
(with-handler (lambda (e) (begin (note 'h5) (if (and (procedure? g2) (again?)) (g2 -1) (if (and (procedure? g1) (again?)) (g1 3) -3)))) (dynamic-wind (lambda () (begin (note 'in-w6) (call/cc (lambda (k) (set! g1 k))) (note 'in-w6b))) (lambda () (if (and (procedure? g1) (again?)) (g1 10) 0)) (lambda () (begin (note 'out-w6) (if (again?) (error "e7") 0)))))
(define v11 (call/cc (lambda (k8) (with-handler (lambda (e) (begin (note 'h9) (begin (for-each (lambda (x10) x10) (list -1 20 -3)) -1))) (- 0 5)))))
(call/cc (lambda (k12) (begin (set! g2 k12) (begin (note 's13) (let ((c (unbox bx))) (if (and (procedure? c) (again?)) (c v11) 7))))))
(reverse tr)
