;;! C18 case: shape=cycle:sbox op=gc-live size=1
;;! stack=main bound=10
;;! verdict: (witness of finding K18g) — a strong box (box-strong) that contains itself makes every full collection loop for ever: the marker pushes the content of a Boxed without a visited mark
;;! model: mark_strong_box_cycle
;;! replay: ./check C18 --replay <this file>   (pieces are separated by the line ;;;---)
(struct node (next) #:transparent)
(struct mnode (next) #:mutable #:transparent)
(define d0 (box-strong 0))
(set-strong-box! d0 d0)
(define d d0)

;;;---
(#%gc-collect)
;;;---
(begin (simple-display "R ") (simple-display (equal? d d)) (newline))
